----------------------------- MODULE ExprMC -----------------------------
(* The tree-growing machine of C02 / C14: start from a leaf, wrap the     *)
(* current tree as the left or right operand of a new binary operator     *)
(* (with a leaf sibling) or as the operand of a unary operator, up to a   *)
(* depth.  Every (parent operator, child operator, side) adjacency is a   *)
(* transition.  For every reachable tree TLC checks that the renderer and *)
(* the parser of Expr.tla agree, and prints the tree with its minimal and *)
(* its full rendering for replay through the real parser / compiler.      *)
EXTENDS Expr, Json, IOUtils

Cfg == JsonDeserialize(IOEnv.EXPRCFG)    \* [leaves: Seq(leaf), sib: Seq(leaf), ops: Seq(op), unops: Seq(op), depth]
Leaves == Cfg.leaves
Sibs == Cfg.sib            \* sibling leaves of the first wrap
Sibs2 == Cfg.sib2          \* sibling leaves of later wraps
Depth == Cfg.depth
OpsUsed == { Cfg.ops[i] : i \in 1 .. Len(Cfg.ops) }
UnUsed == { Cfg.unops[i] : i \in 1 .. Len(Cfg.unops) }
AllLeaves == { Leaves[i] : i \in 1 .. Len(Leaves) } \cup { Sibs[i] : i \in 1 .. Len(Sibs) } \cup { Sibs2[i] : i \in 1 .. Len(Sibs2) }
TokOf(lf) == IF lf.t = "col" THEN lf.name ELSE lf.tok
LeafMap == [tk \in { TokOf(lf) : lf \in AllLeaves } |-> CHOOSE lf \in AllLeaves : TokOf(lf) = tk]

VARIABLES tree, d
vars == <<tree, d>>
Init == \E i \in 1 .. Len(Leaves) : tree = Leaves[i] /\ d = 0
WrapBinary(op, side) ==
  /\ d < Depth
  /\ LET ss == IF d = 0 THEN Sibs ELSE Sibs2 IN
     \E i \in 1 .. Len(ss) :
       tree' = IF side = "l" THEN [t |-> "bin", op |-> op, l |-> tree, r |-> ss[i]]
               ELSE [t |-> "bin", op |-> op, l |-> ss[i], r |-> tree]
  /\ d' = d + 1
WrapUnary(op) == d < Depth /\ tree' = [t |-> "un", op |-> op, e |-> tree] /\ d' = d + 1
Next == \/ \E op \in OpsUsed, side \in {"l", "r"} : WrapBinary(op, side)
        \/ \E op \in UnUsed : WrapUnary(op)
Spec == Init /\ [][Next]_vars

\* the specification's own consistency: both renderings parse back to the tree
RoundTripMin  == Parse(Show(tree), LeafMap) = tree
RoundTripFull == Parse(ShowFull(tree), LeafMap) = tree
\* minimal rendering never has more tokens than the full one
MinIsSmaller == Len(Show(tree)) <= Len(ShowFull(tree))

RECURSIVE JoinToks(_)
JoinToks(ts) == IF ts = <<>> THEN "" ELSE IF Len(ts) = 1 THEN ts[1] ELSE ts[1] \o " " \o JoinToks(Tail(ts))
Emit == (d > 0) => PrintT(<<"REPLAY", ToJson([tree |-> tree, min |-> JoinToks(Show(tree)), full |-> JoinToks(ShowFull(tree))])>>)
=======================================================================
