"""C11: compilation is a pure function of sources and options (spec/Purity.tla, PurityMC, PurityTrace)."""
import re, sys, os, json, random, subprocess, itertools, time
sys.path.insert(0, os.path.join(os.path.dirname(os.path.abspath(__file__)), "..", "lib"))
from vlib import *
import corpus, c16

# sources with two or more candidates at each hash-order site named in the anchors
SITES = [
    ("two-instances-of-a-cte", "let x = (from t | filter a > 1)\nfrom x | join y = x (==k) | select {x.k, y.a}"),
    ("cte-twice-carried-sort", "let x = (from t | sort {(a + b)} | select {k, a})\nfrom x | join y = x (==k) | take 5"),
    ("cte-thrice-carried-sort", "let x = (from t | sort {-(a * 2), (b + 1)} | select {k})\nfrom x | join y = x (==k) | join z = x (x.k == z.k) | take 2..4"),
    ("cte-twice-carried-sort-inner", "let x = (from t | sort {(a + b)} | select {k, a})\nfrom u | join y = x (==k) | join (from x | take 3) (==k)"),
    ("three-ctes", "let p = (from t | take 3)\nlet q = (from u | take 2)\nlet r = (from p | join q (==k))\nfrom r | join p2 = p (==k) | join q2 = q (==k) | select {r.a, p2.b, q2.c}"),
    ("named-args", "from t | window rows:-1..0 expanding:false (sort k | derive {s = sum b})"),
    ("named-args-func", "let f = a b:1 c:2 d:3 -> a + b + c + d\nfrom t | derive {y = (f a d:4 c:5 b:6)}"),
    ("ambiguous-name", "from t | join u (==k) | select {k}"),
    ("ambiguous-three", "from t | join u (==k) | join v = u (t.k == v.k) | filter a > 1"),
    ("alias-sort", "from t | sort {a, -a, k} | select {k, x = k // 2} | take 1 | select {x28 = k, x29 = k}"),
    ("this-star-tie", "from t | select {x = a + 1, t.k} | join u (==k) | group {x} (take 1)"),
    ("this-star-tie-group", "from t | select {x = a + 1, t.k} | join u (==k) | group {t.k} (take 1)"),
    ("this-star-tie-exclude", "from t | select {x = a + 1, t.k} | join u (==k) | select !{t.k}"),
    ("this-star-tie-declared", "module default_db {\n  let t <[{k = int, a = int, b = int}]>\n  let u <[{k = int, a = int, c = int}]>\n}\nfrom t | select {x = a + 1, t.k} | join u (==k) | select !{t.k}"),
    ("this-star-tie-3", "from t | derive {y = b} | select {k, p = a, q = y} | join u (==k) | join v = u (t.k == v.k) | select !{p}"),
    ("same-table-name-in-two-modules", "module a { let t = (from x | take 5) }\nmodule b { let t = (from y | take 7) }\nfrom a.t | join u = b.t (==id) | select {t.id, u.v}"),
    ("same-table-name-three", "module a { let r = (from x | take 5) }\nmodule b { let r = (from y | take 7) }\nmodule c { let r = (from z | take 9) }\nfrom a.r | join b.r (==id) | join q = c.r (a.r.id == q.id) | take 2"),
    ("let-named-like-generated", "let table_0 = (from x | take 5)\nfrom y | take 3 | join table_0 (==id) | take 2 | filter id > 1"),
    ("dup-names-at-split", "from t | join u (==k) | take 3 | derive {s = sum t.b} | select {t.a, u.a, t.k, u.k, s}"),
    ("many-sorts", "from t | sort {b, -a, k} | derive {p = a, q = a, r = b} | take 5 | sort {q, p} | select {p, q, r} | take 2"),
    ("unknown-name-hints", "from t | derive {x1 = a, x2 = a, x3 = b} | select {x1, x2, x3} | filter zzz > 1"),
    ("append-many", "from t | select {a, b} | append (from u | select {a, c}) | append (from t | select {b, a}) | group {a} (aggregate {n = count this})"),
    ("module-members", "module m {\n  let a1 = 1\n  let a2 = 2\n  let a3 = 3\n  let f = x -> x + a1 + a2 + a3\n}\nfrom t | derive {y = m.f a}"),
    ("wildcard-exclude", "from t | join u (==k) | select !{t.a, u.k}"),
    ("hint-available-columns", "from t\njoin u (==a)\nfilter ((c | in (-2)..3) || (c >= t.a))"),
    ("hint-available-columns-2", "let f = p1 p2 p3 p4 -> p1 + p2 + p3 + p4 + zz\nfrom t | derive {y = (f a b k 1)}"),
    ("version", "from t | derive {v = prql.version} | take 1"),
]
PROJECT = [
    [["Project.prql", "from lib.b.adults\n"], ["lib/a.prql", "let people = (from employees | select {name, age})\n"], ["lib/b.prql", "let adults = (lib.a.people | filter age > 18)\n"]],
    [["Project.prql", "from x.q | join y.r (==k)\n"], ["x.prql", "let q = (from t | take 2)\n"], ["y.prql", "let r = (from u | take 3)\n"], ["z.prql", "let unused = 1\n"]],
    # files of one stem in sibling directories, depending on each other in either direction
    [["Main.prql", "from y.util.recent | take 3\n"], ["x/util.prql", "let base = (from raw_events | derive {score = points * 2})\n"],
     ["y/util.prql", "let recent = (from x.util.base | filter score > 10 | select {id, score})\n"]],
    [["Main.prql", "from x.util.recent | take 3\n"], ["y/util.prql", "let base = (from raw_events | derive {score = points * 2})\n"],
     ["x/util.prql", "let recent = (from y.util.base | filter score > 10 | select {id, score})\n"]],
    [["Main.prql", "from c.m.top\n"], ["a/m.prql", "let low = (from t | take 5)\n"], ["b/m.prql", "let mid = (from a.m.low | filter k > 1)\n"],
     ["c/m.prql", "let top = (from b.m.mid | join a.m.low (==k))\n"], ["a/b/m.prql", "let deep = (from t | take 1)\n"]],
    [["Project.prql", "from m1.t1\n"], ["m1.prql", "let t1 = (from a | filter zz +)\n"], ["m2.prql", "let t2 = (from b | filter +)\n"]],
]
HISTORY = ["from t | select {a} | filter zz > 1", "from t | take", "from t | sort {b, -a, k} | sort {-a, b, k} | select {k, z = b} | select {k}",
           "from t | join (from u | select {k, c + 1}) (==k)", "from t | select {a, b}"]


ABORTS = []
def pvx(rep, args, out_path, what, env=None, timeout=3600):
    """run pv; when the process dies (abort in a Drop during unwinding, a poisoned lock at exit, a signal) that is an
    observation about the code under test - a violation - not a tool error; the run's partial output is not used"""
    r = pv(args, env=env, check=False, timeout=timeout)
    if r.returncode != 0:
        tail = (r.stderr or "").strip()[-600:]
        ABORTS.append(what)
        rep.violation({"property": "C11", "kind": "process-abort", "run": what, "exit": r.returncode, "stderr": tail},
                      {"what": "panic", "api": "process", "src": "", "scenario": what, "outputs": tail})
        try:
            os.remove(out_path)
        except OSError:
            pass
        return None
    return r

def unbounded_proof():
    """spec/PurityProof.tla: NoPanic of the repaired log machine for ANY number of threads and compiles, checked by the TLA+
    proof system (the invariant is inductive); complements the bounded exploration by TLC"""
    import subprocess, shutil
    shutil.rmtree(os.path.join(SPEC, ".tlacache"), ignore_errors=True); shutil.rmtree(os.path.join(SPEC, "PurityProof.tlaps"), ignore_errors=True)
    t0 = time.time()
    try:
        r = subprocess.run(["tlapm", "--threads", "8", "PurityProof.tla"], cwd=SPEC, stdout=subprocess.PIPE, stderr=subprocess.STDOUT, text=True, timeout=1500)
    except subprocess.TimeoutExpired:
        raise ToolError("tlapm timed out on PurityProof.tla")
    finally:
        shutil.rmtree(os.path.join(SPEC, ".tlacache"), ignore_errors=True); shutil.rmtree(os.path.join(SPEC, "PurityProof.tlaps"), ignore_errors=True)
    m = re.search(r"All (\d+) obligations proved", r.stdout)
    if not m:
        raise ToolError("PurityProof.tla no longer checks: " + r.stdout[-800:])
    return {"theorem": "Spec => []NoPanicInv for all NC, NI (Repaired = TRUE)", "obligations_proved": int(m.group(1)), "prover": "tlapm 1.6.0-pre (SMT, Zenon, Isabelle, PTL)", "wall_s": round(time.time() - t0, 1)}

def forced_schedules(rep, d, tier):
    """spec -> code: behaviours of the interleaving model (spec/PuritySched.tla = PurityMC + the steps taken), drawn by TLC's
    simulator, are imposed on the real threads through the gates of the hooks (pv sched: a thread passes a gate only when the
    schedule says so), one fresh process per schedule so that the once-cell is initialised under the schedule too; the
    critical sections recorded under the lock and the results are validated by PurityTrace like those of the free runs."""
    import subprocess
    n = 150 if tier == "quick" else 1500
    cmd = ["java", "-XX:+UseParallelGC", "-cp", JAR, "tlc2.TLC", "-workers", "1", "-simulate", f"num={n}", "-depth", "90", "-seed", str(seed()),
           "-metadir", os.path.join(WORK, "tlc", f"psched-{os.getpid()}"), "-cleanup", "-noGenerateSpecTE", "-config", "PuritySched.cfg", "PuritySched.tla"]
    r = subprocess.run(cmd, cwd=SPEC, stdout=subprocess.PIPE, stderr=subprocess.STDOUT, text=True, timeout=1800)
    subprocess.run(["rm", "-rf", os.path.join(WORK, "tlc", f"psched-{os.getpid()}")])
    import vlib
    scheds = [json.loads(parse_tla_tuple(t)[1]) for t in vlib._tuple_texts(r.stdout, "SCHED")]
    if len(scheds) < n // 2 or "is violated" in r.stdout:
        raise ToolError("PuritySched: the simulator did not produce the schedules: " + r.stdout[-800:])
    inputs = [{"id": "f1", "src": "from t | filter a > 1 | select {a, b}", "dialect": "sqlite"},
              {"id": "f2", "src": "from t | sort a | take 3 | derive {x = a // 2}", "dialect": "postgres"},
              {"id": "f3", "src": "from t | select {nope}", "dialect": None},
              {"id": "f4", "src": "from t | group a (aggregate {n = count this}) | sort {-n}", "dialect": "mssql"}]
    def one(k):
        sp = os.path.join(d, f"sched{k}.json"); op = os.path.join(d, f"sched{k}.ndjson")
        json.dump({"steps": scheds[k], "inputs": inputs, "nc": 2, "ni": 2}, open(sp, "w"))
        rr = pvx(rep, ["sched", sp, op, f"forced:{k}"], op, f"forced schedule {k}: {json.dumps(scheds[k])[:400]}", timeout=120)
        if rr is None:
            return None, [0, 0, 0, 0]
        m = re.search(r"(\d+) steps, (\d+) realised, (\d+) skipped, (\d+) blocked", rr.stderr)
        return op, [int(x) for x in m.groups()] if m else [0, 0, 0, 0]
    from concurrent.futures import ThreadPoolExecutor
    with ThreadPoolExecutor(max_workers=4) as ex:
        res = list(ex.map(one, range(len(scheds))))
    evs = []
    for op, _ in res:
        if op is not None:
            evs += read_ndjson(op)
    evs.append({"event": "End"})
    norm = []
    for e in evs:
        base = {"event": e["event"], "seq": 0, "thread": 0, "action": "", "present": False, "suppress": 0, "entries": 0,
                "input": "", "out": 0, "kind": "", "scenario": ""}
        base.update({k: v for k, v in e.items() if k in base})
        norm.append(base)
    tp = os.path.join(d, "trace-forced.ndjson"); write_ndjson(tp, norm)
    tout, tinfo = tlc("PurityTrace", "PurityTrace.cfg", env={"TRACE": tp}, workers=1, deque=True, xmx="8g")
    tr = tuples(tout, "TRACE")
    if not tinfo["no_error"] or not tr or tr[0][1] != tr[0][2]:
        raise ToolError("PurityTrace did not consume the forced-schedule trace: " + tinfo.get("error_text", tout[-1200:])[:1500])
    texts = {}
    for e in evs:
        if e.get("event") == "Result":
            texts.setdefault(e["input"], set()).add(e.get("text", ""))
    for rj in tuples(tout, "REJECT"):
        if rj[1] == "sched":
            rep.violation({"property": "C11", "kind": "schedule-forced", "action": rj[2], "seq": rj[3], "trace_line": rj[4], "trace_file": tp}, {"what": "schedule", "action": rj[2]})
        else:
            rep.violation({"property": "C11", "kind": "forced-" + rj[1], "input": rj[2], "scenario": rj[3], "distinct_outputs": sorted(texts.get(rj[2], []))[:3], "trace_file": tp},
                          {"what": "nondeterministic" if rj[1] == "result" else "panic", "api": "compile", "src": next((i["src"] for i in inputs if rj[2].startswith(i["id"] + "#")), ""), "scenario": rj[3],
                           "outputs": " || ".join(sorted(texts.get(rj[2], []))[:3])})
    acts = {}
    guard_across = 0          # the interleaving F8 needs: a guard released after the log it was taken under was finished
    for e in norm:
        if e["event"] == "Sched":
            acts[e["action"]] = acts.get(e["action"], 0) + 1
            if e["action"] == "SuppressRelease" and not e["present"]:
                guard_across += 1
    tot = [sum(x[1][j] for x in res) for j in range(4)]
    return {"schedules": len(scheds), "steps": tot[0], "steps_realised": tot[1], "steps_not_applicable_in_the_code": tot[2], "threads_blocked": tot[3],
            "hook_events": sum(acts.values()), "hook_actions": acts, "guards_released_after_their_log_was_finished": guard_across,
            "states": tinfo.get("distinct", 0)}

def check(tier):
    rep = Report("C11", tier)
    d = workdir("C11")
    for f in os.listdir(d):
        os.remove(os.path.join(d, f))
    build_harness()
    # (1) the design: all interleavings of 2 compiling threads x 2 inputs + a debugging thread
    out, info = tlc("PurityMC", "PurityMC.cfg", workers=8)
    if not info["no_error"]:
        raise ToolError("PurityMC: the (repaired) design admits a panic / impure result: " + info.get("error_text", "")[:1500])
    # the unrepaired release (unconditional decrement) must still be shown to fail: guards against a vacuous model
    out_u, info_u = tlc("PurityMC", "PurityMC_unrepaired.cfg", workers=4)
    if info_u["no_error"] or "NoPanic" not in info_u.get("error_text", ""):
        raise ToolError("PurityMC (unrepaired variant) no longer finds the suppress-counter underflow: the model has become vacuous")
    rnd = random.Random(seed())
    inputs = [{"id": n + "/" + str(dl), "src": s, "dialect": dl} for n, s in SITES for dl in (None, "postgres")]
    extra = list(c16.HAND) + [s for _, s in corpus.repo_queries()] + corpus.SYNTAX
    extra = extra if tier == "thorough" else rnd.sample(extra, 40)
    inputs += [{"id": f"x{i}", "src": s, "dialect": None} for i, s in enumerate(extra)]
    # programs of the L1 generator, incl. ill-formed ones (error text is an output too)
    import gen, prtree
    dbs = json.load(open(os.path.join(ROOT, "corpus", "dbs_quick.json")))
    ng = 150 if tier == "quick" else 2500
    g = gen.G(seed() * 7919, safe=False, p_shadow=0.1)
    progs = [g.program(i) for i in range(ng)]
    for i, p in enumerate(progs):
        p["id"] = f"g{i}"
        p["decl"] = i % 3 != 0
    pp = os.path.join(d, "progs.ndjson"); write_ndjson(pp, progs)
    rp = os.path.join(d, "rendered.ndjson")
    pv(["render-ndjson", os.path.join(ROOT, "corpus", "dbs_quick.json"), pp, rp])
    inputs += [{"id": r["id"], "src": r["src"], "dialect": None} for r in read_ndjson(rp)]
    # projects in every file enumeration order (quick: three orders each)
    for pi, files in enumerate(PROJECT):
        perms = list(itertools.permutations(files))
        if tier == "quick":
            perms = [perms[0], perms[-1], perms[len(perms) // 2]]
        for order in perms:
            inputs.append({"id": f"project{pi}", "src": "", "dialect": None, "files": [list(f) for f in order]})
    hp = os.path.join(d, "history.json"); json.dump(HISTORY, open(hp, "w"))
    vin = [{"id": "version@9", "src": "from t | derive {v = prql.version} | take 1", "dialect": None},
           {"id": "header@9", "src": "prql version:\"^9.9\"\nfrom t | take 1", "dialect": None}]
    vp = os.path.join(d, "vinputs.json"); json.dump(vin, open(vp, "w"))
    all_norm, all_evs_n = [], 0
    def run_chunk(ci, inputs):
        ip = os.path.join(d, f"inputs{ci}.json"); json.dump(inputs, open(ip, "w"))
        runs = [("seq", ["1", "1", "0", "sequential"], None, {}),
                ("thr", ["8" if tier == "thorough" else "6", "2", "1", "threads+debug-log"], None, {}),
                ("thr2", ["4", "2", "1", "threads+debug-log"], None, {}),
                ("hist", ["2", "1", "0", "after-failing-and-panicking-calls"], hp, {})]
        nproc = 6 if tier == "quick" else 16
        for k in range(nproc):
            runs.append((f"fresh{k}", ["1", "1", "0", "fresh-process"], None, {}))
        files = []
        def run(r):
            name, a, hist, env = r
            op = os.path.join(d, f"{name}-{ci}.ndjson")
            args = ["purity", ip, op] + a + ([hist] if hist else [])
            return op if pvx(rep, args, op, f"{name} ({' '.join(a)})", env=env) is not None else None
        from concurrent.futures import ThreadPoolExecutor
        with ThreadPoolExecutor(max_workers=4) as ex:
            files = list(ex.map(run, runs))
        # version: a process that changes the environment after a first call vs fresh processes started with it
        e1 = pvx(rep, ["purity", vp, os.path.join(d, f"env1-{ci}.ndjson"), "1", "1", "0", "env-version"], os.path.join(d, f"env1-{ci}.ndjson"), "env-version")
        e2 = pvx(rep, ["purity", vp, os.path.join(d, f"env2-{ci}.ndjson"), "1", "1", "0", "env-fresh"], os.path.join(d, f"env2-{ci}.ndjson"), "env-fresh", env={"PRQL_VERSION_OVERRIDE": "9.9.9"})
        files += ([os.path.join(d, f"env2-{ci}.ndjson")] if e2 else []) + ([os.path.join(d, f"env1-{ci}.ndjson")] if e1 else [])
        if ci == 0:
            # history across dialects: the same sources for all 12 dialects, on one thread, in two opposite orders and
            # after failing calls; the artefact of (source, dialect) must not depend on what was compiled before it
            KW = ["from events | select {identity, delta, offline, aes128, id, analyse, qualify, ilike, pivot, top, rowid, sysdate}",
                  "from events | filter (delta ~= 'x') | select {identity, delta, offline}",
                  "from t | derive {x = a // 2, r = s ~= 'a', d = (s | as date), z = f\"{a}-{b}\"} | take 3..5 | group a (take 1)"]
            DL = ["ansi", "bigquery", "clickhouse", "duckdb", "generic", "glaredb", "mssql", "mysql", "postgres", "redshift", "sqlite", "snowflake"]
            fwd = [{"id": f"kw{j}/{dl}", "src": src_, "dialect": dl} for dl in DL for j, src_ in enumerate(KW)]
            # every dialect comes first once (a rotation per dialect), plus the reverse order
            orders = [("drev", list(reversed(fwd)))]
            for r_ in range(len(DL)):
                rot = DL[r_:] + DL[:r_]
                orders.append((f"drot{r_}", [{"id": f"kw{j}/{dl}", "src": src_, "dialect": dl} for dl in rot for j, src_ in enumerate(KW)]))
            for tag_, lst in orders:
                dp = os.path.join(d, f"{tag_}.json"); json.dump(lst, open(dp, "w"))
                op_ = os.path.join(d, f"{tag_}.ndjson")
                if pvx(rep, ["purity", dp, op_, "1", "1", "0", "dialect-order:" + tag_], op_, "dialect-order:" + tag_) is not None:
                    files.append(op_)
            inputs = inputs + fwd
        evs = []
        for f in files:
            if f is not None and os.path.exists(f):
                evs += read_ndjson(f)
        evs.append({"event": "End"})
        # uniform record shapes for TLC
        norm = []
        for e in evs:
            base = {"event": e["event"], "seq": 0, "thread": 0, "action": "", "present": False, "suppress": 0, "entries": 0,
                    "input": "", "out": 0, "kind": "", "scenario": ""}
            base.update({k: v for k, v in e.items() if k in base})
            norm.append(base)
        tp = os.path.join(d, f"trace{ci}.ndjson"); write_ndjson(tp, norm)
        tout, tinfo = tlc("PurityTrace", "PurityTrace.cfg", env={"TRACE": tp}, workers=1, deque=True, xmx="8g")
        tr = tuples(tout, "TRACE")
        if not tinfo["no_error"] or not tr or tr[0][1] != tr[0][2]:
            raise ToolError("PurityTrace did not consume the trace: " + tinfo.get("error_text", tout[-1200:])[:1500])
        byinput = {}
        for e in evs:
            if e.get("event") == "Result":
                byinput.setdefault(e["input"], set()).add(e.get("text", ""))
        src_of = {i["id"]: (i["src"] or json.dumps(i.get("files"))) for i in inputs + vin}
        for r in tuples(tout, "REJECT"):
            if r[1] == "sched":
                rep.violation({"property": "C11", "kind": "schedule", "action": r[2], "seq": r[3], "trace_line": r[4]}, {"what": "schedule", "action": r[2]})
            else:
                iid, api = r[2].rsplit("#", 1)
                texts = sorted(byinput.get(r[2], []))[:3]
                sig = {"what": "nondeterministic" if r[1] == "result" else "panic", "api": api, "src": src_of.get(iid, ""), "scenario": r[3],
                       "outputs": " || ".join(texts)}
                rep.violation({"property": "C11", "kind": sig["what"], "input": iid, "api": api, "scenario": r[3], "prql": src_of.get(iid), "distinct_outputs": texts}, sig)

        return norm, tinfo
    # the sites and projects first (a project's enumeration orders share an id and must meet in one chunk); the thorough
    # tier validates its inputs in chunks so that one TLC run holds a few hundred thousand events
    head = [i for i in inputs if not i["id"].startswith("g")]
    tail = [i for i in inputs if i["id"].startswith("g")]
    size = 500
    chunks = [head + tail[:size]] + [tail[j:j + size] for j in range(size, len(tail), size)]
    norm, tinfo = None, {"distinct": 0}
    nsched_total = nres_total = 0
    acts_total = {}
    for ci, ch in enumerate(chunks):
        nm, ti = run_chunk(ci, ch)
        tinfo["distinct"] = tinfo.get("distinct", 0) + ti.get("distinct", 0)
        nsched_total += sum(1 for e in nm if e["event"] == "Sched"); nres_total += sum(1 for e in nm if e["event"] == "Result")
        for e in nm:
            if e["event"] == "Sched":
                acts_total[e["action"]] = acts_total.get(e["action"], 0) + 1
        if norm is None:
            norm = nm
    # binding demonstration: drop one hook event / change one counter / one result
    thr = []
    thr0 = os.path.join(d, "thr-0.ndjson")
    # (when the threaded run itself died - reported above as a violation - there is nothing to corrupt: the hook events
    # of the forced schedules are used instead, or the demonstration is skipped)
    for e in (read_ndjson(thr0) if os.path.exists(thr0) else []):
        base = {"event": e["event"], "seq": 0, "thread": 0, "action": "", "present": False, "suppress": 0, "entries": 0,
                "input": "", "out": 0, "kind": "", "scenario": ""}
        base.update({k: v for k, v in e.items() if k in base})
        thr.append(base)
    sched = [e for e in thr if e["event"] in ("Run", "Sched")][:300]
    only = [i for i, e in enumerate(sched) if e["event"] == "Sched"]
    if len(only) < 40 and os.path.exists(thr0):
        raise ToolError("C11 selftest: the threaded run recorded fewer than 40 hook events")
    end = [{"event": "End", "seq": 0, "thread": 0, "action": "", "present": False, "suppress": 0, "entries": 0, "input": "", "out": 0, "kind": "", "scenario": ""}]
    if len(only) < 40:
        forced = forced_schedules(rep, d, tier)
        cov = {"states": info["distinct"], "transitions": info["generated"], "traces_validated_against_impl": 0, "forced_schedules": forced,
               "samples": [], "explanation": "the threaded run of the code under test died (see the violations); the binding demonstration needs its hook events and was skipped", "aborted_runs": ABORTS[:20]}
        return rep.finish("model_checking", cov, ["the code under test aborted the process in at least one run"])
    bad1 = [dict(e) for e in sched]; del bad1[only[10]]                       # a missing event: the numbering has a gap
    bad2 = [dict(e) for e in sched]; bad2[only[20]]["suppress"] += 1          # a counter value the code did not produce
    bad3 = [dict(e) for e in sched]; bad3[only[30]]["present"] = not bad3[only[30]]["present"]
    nrej = []
    for name, tr in (("good", sched), ("bad1", bad1), ("bad2", bad2), ("bad3", bad3)):
        write_ndjson(os.path.join(d, name + ".ndjson"), tr + end)
        o_, _ = tlc("PurityTrace", "PurityTrace.cfg", env={"TRACE": os.path.join(d, name + ".ndjson")}, workers=1, deque=True)
        nrej.append(len(tuples(o_, "REJECT")))
    if not all(x > nrej[0] for x in nrej[1:]):
        raise ToolError(f"C11 selftest: removed / corrupted hook events not rejected (rejections good/bad: {nrej})")
    forced = forced_schedules(rep, d, tier)
    proof = unbounded_proof()
    nsched, nres, acts = nsched_total, nres_total, acts_total
    nruns = (4 + (6 if tier == "quick" else 16) + 2) * len(chunks)
    cov = {"states": info["distinct"] + tinfo.get("distinct", 0), "transitions": info["generated"] + tinfo.get("distinct", 0),
           "traces_validated_against_impl": nruns,
           "samples": [{"scenario": "threads+debug-log", "first_events": [e for e in norm if e["event"] == "Sched"][:6]}, {"input": SITES[0][1]}, {"project": PROJECT[0]}],
           "explanation": f"PurityMC: all {info['distinct']} states of 2 compiling threads x 2 compiles + a debugging thread over the lock-protected debug log and the std once-cell (NoPanic, Pure, OnceOnly hold; the unrepaired release is shown to violate NoPanic, so the model is not vacuous); {nruns} recorded process runs ({nsched} hook events numbered under the lock, {nres} results) validated by PurityTrace: the event sequence must be a behaviour of the log machine and every (input, API) must yield one artefact across threads, rounds, histories, fresh processes (new hash seeds), file enumeration orders and a changed PRQL_VERSION_OVERRIDE",
           "hook_events": nsched, "hook_actions": acts, "results": nres, "process_runs": nruns, "chunks": len(chunks), "inputs": len(inputs),
           "forced_schedules": forced, "unbounded_proof_of_the_model": proof, "unrepaired_model_counterexample_found": True, "selftest": {"removed_event_and_corrupted_counter_rejected": True}}
    return rep.finish("model_checking", cov,
                      ["hash-seed independence is statistical: each run is a new process (new RandomState keys) and every HashMap created in a process gets new keys; a site with two candidates is missed by n runs with probability 2^-n",
                       "hooks: --cfg prql_verif (debug/log.rs, sql/operators.rs), events are emitted while the write lock on CURRENT_LOG is held and ordered by a counter incremented there"])
