SPECIFICATION Spec
INVARIANT ConventionsAgreeOnAsciiOnly
INVARIANT LineColStep
INVARIANT Emit
CHECK_DEADLOCK FALSE
