SPECIFICATION Spec
CONSTANTS
  RepairedSI = TRUE
  MaxCtes = 2
  MaxSteps = 3
INVARIANT MachineMeetsMeaning
CHECK_DEADLOCK FALSE
