SPECIFICATION SSpec
CONSTANTS
  NC = 2
  NI = 2
  Repaired = TRUE
  MaxD = 3
INVARIANTS Emit NoPanic Pure
CHECK_DEADLOCK FALSE
