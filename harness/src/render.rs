//! Rendering of program records (the JSON form shared with the TLA+ models)
//! to PRQL source.  Expressions are fully parenthesised here: precedence is
//! the subject of C02/C14, which render from the specification's own
//! token sequences instead.
use serde_json::Value as J;

fn needs_backtick(name: &str) -> bool {
    let mut cs = name.chars();
    let ok_first = cs
        .next()
        .map(|c| c.is_ascii_alphabetic() || c == '_')
        .unwrap_or(false);
    !(ok_first && name.chars().all(|c| c.is_ascii_alphanumeric() || c == '_'))
}

pub fn ident(name: &str) -> String {
    if needs_backtick(name) {
        format!("`{name}`")
    } else {
        name.to_string()
    }
}

pub fn lit(v: &J) -> String {
    match v["k"].as_str().unwrap_or("null") {
        "null" => "null".into(),
        "bool" => {
            if v["n"].as_i64() == Some(1) {
                "true".into()
            } else {
                "false".into()
            }
        }
        "text" => format!("{:?}", v["s"].as_str().unwrap_or("")),
        "num" => {
            let n = v["n"].as_i64().unwrap_or(0);
            let d = v["d"].as_i64().unwrap_or(1);
            if d == 1 {
                if n < 0 {
                    format!("({n})")
                } else {
                    format!("{n}")
                }
            } else {
                // exact decimal when the denominator is 2^a 5^b, else a division
                let mut dd = d;
                while dd % 2 == 0 {
                    dd /= 2;
                }
                while dd % 5 == 0 {
                    dd /= 5;
                }
                if dd == 1 {
                    let f = n as f64 / d as f64;
                    let s = format!("{f:?}");
                    if n < 0 {
                        format!("({s})")
                    } else {
                        s
                    }
                } else {
                    format!("({n} / {d})")
                }
            }
        }
        _ => "null".into(),
    }
}

pub fn expr(e: &J) -> String {
    match e["t"].as_str().unwrap_or("") {
        "col" => {
            let q = e["q"].as_str().unwrap_or("");
            let n = ident(e["name"].as_str().unwrap_or(""));
            if q.is_empty() {
                n
            } else {
                format!("{}.{}", ident(q), n)
            }
        }
        "star" => format!("{}.*", ident(e["q"].as_str().unwrap_or(""))),
        "lit" => lit(&e["v"]),
        "bin" => format!(
            "({} {} {})",
            expr(&e["l"]),
            e["op"].as_str().unwrap_or("+"),
            expr(&e["r"])
        ),
        "un" => format!("({}{})", e["op"].as_str().unwrap_or("-"), expr(&e["e"])),
        "case" => {
            let arms: Vec<String> = e["arms"]
                .as_array()
                .map(|a| {
                    a.iter()
                        .map(|arm| format!("{} => {}", expr(&arm["c"]), expr(&arm["v"])))
                        .collect()
                })
                .unwrap_or_default();
            format!("(case [{}])", arms.join(", "))
        }
        "in" => {
            let lo = if e["lo"]["t"] == "lit" && e["lo"]["v"]["k"] == "null" {
                String::new()
            } else {
                expr(&e["lo"])
            };
            let hi = if e["hi"]["t"] == "lit" && e["hi"]["v"]["k"] == "null" {
                String::new()
            } else {
                expr(&e["hi"])
            };
            format!("({} | in {}..{})", expr(&e["e"]), lo, hi)
        }
        "agg" => {
            let f = e["f"].as_str().unwrap_or("sum");
            match f {
                "lag" | "lead" => format!("({} {} {})", f, e["n"].as_i64().unwrap_or(1), expr(&e["e"])),
                _ => format!("({} {})", f, expr(&e["e"])),
            }
        }
        "call" => {
            let mut args: Vec<String> = e["args"]
                .as_array()
                .map(|a| a.iter().map(expr).collect())
                .unwrap_or_default();
            let named: Vec<String> = e["named"]
                .as_array()
                .map(|a| a.iter().map(|n| format!("{}:{}", n["n"].as_str().unwrap_or(""), expr(&n["e"]))).collect())
                .unwrap_or_default();
            let f = e["f"].as_str().unwrap_or("");
            if e["style"] == "pipe" && !args.is_empty() {
                // x | f a b  ==  f a b x
                let last = args.pop().unwrap();
                let mut rest = named.clone();
                rest.extend(args);
                format!("({} | {} {})", last, f, rest.join(" ")).replace(" )", ")")
            } else {
                let mut all = args;
                // named arguments may stand anywhere; put them after the first positional one
                for (i, n) in named.into_iter().enumerate() {
                    let pos = (1 + i).min(all.len());
                    all.insert(pos, n);
                }
                format!("({} {})", f, all.join(" ")).replace(" )", ")")
            }
        }
        "eqcol" => format!("=={}", ident(e["name"].as_str().unwrap_or(""))),
        _ => "null".into(),
    }
}

fn items(v: &J) -> String {
    let parts: Vec<String> = v
        .as_array()
        .map(|a| {
            a.iter()
                .map(|it| {
                    let n = it["n"].as_str().unwrap_or("");
                    // `raw`: the specification's own rendering of the expression (C02 / C14)
                    if let Some(raw) = it["raw"].as_str() {
                        return if n.is_empty() { raw.to_string() } else { format!("{} = {}", ident(n), raw) };
                    }
                    if n.is_empty() {
                        expr(&it["e"])
                    } else {
                        format!("{} = {}", ident(n), expr(&it["e"]))
                    }
                })
                .collect()
        })
        .unwrap_or_default();
    format!("{{{}}}", parts.join(", "))
}

fn bound(n: i64) -> String {
    if n <= -1_000_000 || n >= 1_000_000 {
        String::new()
    } else {
        format!("{n}")
    }
}

pub fn step(s: &J) -> String {
    match s["op"].as_str().unwrap_or("") {
        "from" => {
            let t = s["t"].as_str().unwrap_or("t").split('.').map(ident).collect::<Vec<_>>().join(".");
            let a = s["alias"].as_str().unwrap_or("");
            if a.is_empty() {
                format!("from {t}")
            } else {
                format!("from {} = {t}", ident(a))
            }
        }
        "fromlit" => {
            let cols: Vec<String> = s["cols"].as_array().map(|a| a.iter().map(|c| ident(c.as_str().unwrap_or(""))).collect()).unwrap_or_default();
            let rows: Vec<String> = s["rows"].as_array().map(|a| a.iter().map(|r| {
                let vs: Vec<String> = r.as_array().map(|x| x.iter().enumerate().map(|(i, v)| format!("{} = {}", cols[i], lit(v))).collect()).unwrap_or_default();
                format!("{{{}}}", vs.join(", "))
            }).collect()).unwrap_or_default();
            let a = s["alias"].as_str().unwrap_or("");
            if a.is_empty() { format!("from [{}]", rows.join(", ")) } else { format!("from {} = [{}]", ident(a), rows.join(", ")) }
        }
        "select" => format!("select {}", items(&s["items"])),
        "derive" => format!("derive {}", items(&s["items"])),
        "loop" => format!("loop ({})", pipe(&s["pipe"], " | ")),
        "exclude" => {
            let cs: Vec<String> = s["cols"].as_array().map(|a| a.iter().map(expr).collect()).unwrap_or_default();
            format!("select !{{{}}}", cs.join(", "))
        }
        "aggregate" => format!("aggregate {}", items(&s["items"])),
        "filter" => format!("filter {}", expr(&s["e"])),
        "sort" => {
            let ks: Vec<String> = s["keys"]
                .as_array()
                .map(|a| {
                    a.iter()
                        .map(|k| {
                            let e = expr(&k["e"]);
                            if k["d"] == "desc" {
                                format!("-{e}")
                            } else {
                                e
                            }
                        })
                        .collect()
                })
                .unwrap_or_default();
            format!("sort {{{}}}", ks.join(", "))
        }
        "take" => {
            let lo = s["lo"].as_i64().unwrap_or(1);
            let hi = s["hi"].as_i64().unwrap_or(1);
            if lo == 1 && hi < 1_000_000 && s["range"] != true {
                format!("take {hi}")
            } else {
                format!("take {}..{}", lo, bound(hi))
            }
        }
        "group" => {
            let by: Vec<String> = s["by"]
                .as_array()
                .map(|a| a.iter().map(expr).collect())
                .unwrap_or_default();
            format!("group {{{}}} ({})", by.join(", "), pipe(&s["pipe"], " | "))
        }
        "window" => {
            let sugar = s["sugar"].as_str().unwrap_or("");
            let lo = s["lo"].as_i64().unwrap_or(0);
            let hi = s["hi"].as_i64().unwrap_or(0);
            let spec = match sugar {
                "rolling" => format!("rolling:{}", 1 - lo),
                "expanding" => "expanding:true".to_string(),
                _ => format!("{}:{}..{}", s["fk"].as_str().unwrap_or("rows"), bound(lo), bound(hi)),
            };
            format!("window {} ({})", spec, pipe(&s["pipe"], " | "))
        }
        "join" => {
            let side = s["side"].as_str().unwrap_or("inner");
            let side_s = if side == "inner" && s["explicit_side"] != true {
                String::new()
            } else {
                format!("side:{side} ")
            };
            let w = s["with"].as_array().cloned().unwrap_or_default();
            let alias = s["alias"].as_str().unwrap_or("");
            let rel = if w.len() == 1 && w[0]["op"] == "from" && w[0]["alias"].as_str().unwrap_or("").is_empty() {
                let t = ident(w[0]["t"].as_str().unwrap_or("u"));
                if alias.is_empty() || alias == w[0]["t"].as_str().unwrap_or("") {
                    t
                } else {
                    format!("{} = {t}", ident(alias))
                }
            } else if alias.is_empty() {
                format!("({})", pipe(&s["with"], " | "))
            } else {
                format!("{} = ({})", ident(alias), pipe(&s["with"], " | "))
            };
            format!("join {side_s}{rel} ({})", expr(&s["on"]))
        }
        "append" => format!("append ({})", pipe(&s["with"], " | ")),
        "remove" => format!("remove ({})", pipe(&s["with"], " | ")),
        "intersect" => format!("intersect ({})", pipe(&s["with"], " | ")),
        "bad" => s["text"].as_str().unwrap_or("").to_string(),
        other => format!("# unknown step {other}"),
    }
}

pub fn pipe(steps: &J, sep: &str) -> String {
    steps
        .as_array()
        .map(|a| a.iter().map(step).collect::<Vec<_>>().join(sep))
        .unwrap_or_default()
}

/// `module default_db { let t <[{k = int, ...}]> ... }`
pub fn schema_decl(schema: &J) -> String {
    let mut out = String::from("module default_db {\n");
    if let Some(m) = schema.as_object() {
        for (t, cols) in m {
            let cs: Vec<String> = cols
                .as_array()
                .map(|a| {
                    a.iter()
                        .map(|c| format!("{} = int", ident(c.as_str().unwrap_or(""))))
                        .collect()
                })
                .unwrap_or_default();
            out.push_str(&format!("  let {} <[{{{}}}]>\n", ident(t), cs.join(", ")));
        }
    }
    out.push_str("}\n");
    out
}

fn decl(d: &J) -> String {
    let name = d["short"].as_str().or(d["name"].as_str()).unwrap_or("x");
    match d["kind"].as_str().unwrap_or("") {
        "let" => match d["surface"].as_str().unwrap_or("let") {
            "into" => format!("{}\ninto {}\n", pipe(&d["steps"], "\n"), ident(name)),
            _ => format!("let {} = (\n  {}\n)\n", ident(name), pipe(&d["steps"], "\n  ")),
        },
        "func" => {
            let mut ps: Vec<String> = d["params"].as_array().map(|a| a.iter().map(|p| p.as_str().unwrap_or("").to_string()).collect()).unwrap_or_default();
            if let Some(ns) = d["named"].as_array() {
                for n in ns {
                    ps.push(format!("{}:{}", n["n"].as_str().unwrap_or(""), expr(&n["d"])));
                }
            }
            format!("let {} = {} -> {}\n", ident(name), ps.join(" "), expr(&d["body"]))
        }
        _ => String::new(),
    }
}

pub fn program(p: &J, schema: &J) -> String {
    let mut out = String::new();
    if p["decl"] == true {
        out.push_str(&schema_decl(schema));
    }
    if let Some(ds) = p["decls"].as_array() {
        let mut i = 0;
        while i < ds.len() {
            let m = ds[i]["module"].as_str().unwrap_or("");
            if m.is_empty() {
                out.push_str(&decl(&ds[i]));
                i += 1;
            } else {
                // consecutive members of one module form one block
                let mut body = String::new();
                while i < ds.len() && ds[i]["module"].as_str().unwrap_or("") == m {
                    body.push_str(&decl(&ds[i]));
                    i += 1;
                }
                out.push_str(&format!("module {} {{\n  {}\n}}\n", ident(m), body.trim_end().replace('\n', "\n  ")));
            }
        }
    }
    out.push_str(&pipe(&p["steps"], "\n"));
    out.push('\n');
    out
}
