"""C14: formatting preserves the program and is idempotent (spec/FmtLaw.tla; expression sources from Expr.tla/ExprMC)."""
import sys, os, json, random, copy, re
sys.path.insert(0, os.path.join(os.path.dirname(os.path.abspath(__file__)), "..", "lib"))
from vlib import *
from progs import *
import l1, gen, corpus, l1props, c16, c02
from concurrent.futures import ThreadPoolExecutor

LITERALS = ["1", "0", "-1", "1.0", "1.5", "1e3", "2.5e-2", "1_000", "0x1f", "0b101", "0o17", "9223372036854775807", "true", "false", "null",
            "\"dq\"", "'sq'", "\"it's\"", "'say \"hi\"'", "'\"'", "\"'\"", "\"\"\"a\"b\"\"\"", "\"a\\\\b\"", "\"tab\\there\"", "\"nl\\nx\"", "\"\"", "r\"raw\\n\"",
            "\"{braces}\"", "\"uni\\u{e9}\"", "\"emoji 😀\"",
            "@2020-01-02", "@2020-01-02T03:04:05", "@2020-01-02T03:04:05Z", "@2020-01-02T03:04:05+02:00", "@03:04", "@03:04:05.123",
            "2days", "3weeks", "10years", "1hours", "f\"{a} and {b}\"", "f\"{{literal}} {a}\"", "s\"COALESCE({a}, 0)\"", "s\"a {{x}}\"",
            "s\"REGEXP_REPLACE({a}, '\\\\s+', ' ')\"", "f\"C:\\\\data\\\\{a}\"", "s\"\\\\\"", "f\"a\\tb{a}\"", "s\"it''s {a}\"", "f\"q\\\"{a}\\\"\"",
            "[1, 2, 3]", "{a, b}", "{x = a, y = b + 1}", "(a | in 1..3)", "(a | in ..3)", "1..2", "$1", "$param"]
IDENTS = ["a", "`my col`", "`select`", "`from`", "`let`", "`into`", "`case`", "`type`", "`module`", "`func`", "`import`", "`enum`", "`prql`",
          "`internal`", "`1abc`", "`a-b`", "`a.b`", "`A`", "`ü`", "`with space`", "`true`", "`null`", "`$x`", "x1", "_u", "`t`.`a`", "t.a", "this.a", "that"]
STMTS = [
    "from t | window rows:-1..0 expanding:false (derive {s = sum b})",        # two named arguments
    "from t | join side:left u (==k)",
    "let f = a b:2 c:3 -> a + b + c\nfrom t | derive {y = (f a c:1 b:5)}",
    "from t | take 3 | into x\nfrom x",
    "from t\nderive {\n  y = a # comment\n    + b,\n}",
    "from t | filter a > 1 && (b < 2 || k == 3) | sort {-a, b} | take 1..5",
    "from t | derive {x = (a | math.round 2), y = (text.upper \"s\")}",
    "from t | derive x = a + 1 | derive {y = -x, z = !(x > 1), w = +x}",
    "from t | derive {x = a - (b - 1), y = a / (b / 2), z = a - (b + 1), w = a / (b * 2), p = 2 ** 3 ** 2, q = (2 ** 3) ** 2}",
    "from t | derive {x = (a + b) * 2, y = -(a + b), z = a ?? b ?? 0, w = a == b && b != k}",
    "from t | derive {x = case [a > 1 => 1, true => 0] + 1, y = (sum a) / (count b)}",
    "from t | group {a} (aggregate {s = sum b}) | derive {very_long_column_name_for_wrapping_one = s + s + s + s + s + s + s + s + s + s + s + s + s + s + s + s + s + s + s + s + s + s + s + s + s}",
    "from t | select {aaaaaaaaaaaaaaaaaaaaaaaa = a, bbbbbbbbbbbbbbbbbbbbbbbbbbbbb = b, cccccccccccccccccccccccccc = k, dddddddddddddddddddddd = a + b}",
]

_nd = {}
def nondet_fmt(src, d):
    """is pl_to_prql itself non-deterministic on this source? (hash order of named arguments)"""
    if src not in _nd:
        p = os.path.join(d, "nd.ndjson")
        write_ndjson(p, [{"id": f"n{i}", "src": src} for i in range(12)])
        pv(["fmtrun", p, os.path.join(d, "nd.out")])
        texts = set(e.get("text") for e in read_ndjson(os.path.join(d, "nd.out")) if e.get("event") == "Apply" and e.get("f") == "format")
        _nd[src] = len(texts) > 1
    return _nd[src]

def check(tier):
    rep = Report("C14", tier)
    d = workdir("C14")
    build_harness()
    rnd = random.Random(seed())
    dbset = os.path.join(ROOT, "corpus", "dbs_quick.json")
    # expression trees of the specification, both renderings
    cfgp = os.path.join(d, "exprcfg.json")
    cfg = c02.expr_cfg(tier)
    cfg["ops"] = c02.OPS + ["~="]; cfg["unops"] = ["-", "!", "+"]
    json.dump(cfg, open(cfgp, "w"))
    out, info = tlc("ExprMC", "ExprMC.cfg", env={"EXPRCFG": cfgp}, workers=8, xmx="8g")
    if not info["no_error"]:
        raise ToolError("ExprMC: " + info.get("error_text", "")[:1500])
    trees = replay_lines(out)
    srcs = []
    pick = trees if tier == "thorough" else rnd.sample(trees, min(len(trees), 6000))
    for i, t in enumerate(pick):
        srcs.append({"id": f"e{i}m", "src": f"from t | select {{v = {t['min']}}}"})
        if i % 4 == 0:
            srcs.append({"id": f"e{i}f", "src": f"from t | derive {{v = {t['full']}}} | filter {t['min']}"})
    for i, x in enumerate(LITERALS):
        srcs.append({"id": f"l{i}", "src": f"from t | derive {{v = {x}}}"})
        srcs.append({"id": f"l{i}b", "src": f"from t | derive {{v = {x}, w = ({x})}} | filter (f {x} a)"})
    # string contents: one representative per character class the formatter has to escape or keep (control characters
    # incl. NUL, DEL and C1, separators, zero-width and combining characters, the BOM, quotes, backslash, braces), written
    # as an escape and - where the lexer takes it - verbatim, in plain, f- and s-strings, alone and between letters
    CHS = ["0", "1", "8", "c", "1b", "7f", "85", "a0", "ad", "301", "200b", "2028", "2029", "feff", "fffd", "1f600", "9", "a", "d", "22", "27", "5c", "7b", "7d"]
    n_ = 0
    for h in CHS:
        esc = "\\u{" + h + "}"
        for body in (esc, "a" + esc + "b"):
            srcs.append({"id": f"sc{n_}", "src": f"from t | derive {{v = \"{body}\"}}"}); n_ += 1
            srcs.append({"id": f"sc{n_}", "src": f"from t | derive {{v = '{body}'}} | filter v != \"{body}x\""}); n_ += 1
        if h not in ("7b", "7d", "22"):
            srcs.append({"id": f"sc{n_}", "src": f"from t | derive {{v = f\"{esc}{{a}}\"}}"}); n_ += 1
            srcs.append({"id": f"sc{n_}", "src": f"from t | derive {{v = s\"LENGTH('{esc}')\"}}"}); n_ += 1
        if int(h, 16) < 256:
            srcs.append({"id": f"sc{n_}", "src": f"from t | derive {{v = \"p\\x{int(h, 16):02x}q\"}}"}); n_ += 1
        ch = chr(int(h, 16))
        if ch not in "\"'\\{}\n\r\0":
            srcs.append({"id": f"sc{n_}", "src": f"from t | derive {{v = \"<{ch}>\"}}"}); n_ += 1
    # runs of quotes: strings that contain both kinds of quote, with runs of 1 to 6 of either (the formatter has to pick a
    # delimiter longer than every run of its quote character), at the start, in the middle and at the end
    n_ = 0
    for run in range(1, 7):
        for qc, oc in (('"', "'"), ("'", '"')):
            r = ("\\" + qc) * run        # written with escapes inside a string delimited by the other... both escaped to be safe
            for body in (f"x{oc} {r}", f"{r} y{oc}", f"a{oc}{r}b", f"{oc}{r}", f"{r}{oc}", f"{r} {oc}{oc} {r}"):
                body = body.replace(oc, "\\" + oc)
                srcs.append({"id": f"qr{n_}", "src": f"from t | derive {{v = \"{body}\"}}"}); n_ += 1
                srcs.append({"id": f"qr{n_}", "src": f"from t | select {{a = \"{body}\", b = \"{body[::-1] if False else body} z\"}}"}); n_ += 1
    # f-string interpolations with format specifications; ranges whose bounds are operator expressions; names that need
    # backticks in every declaration form
    for i, x in enumerate(["f\"{a:>10} and {b:.2f}\"", "f\"{a:05}\"", "f\"x{a}y{b:e}\""]):
        srcs.append({"id": f"fs{i}", "src": f"from t | derive {{v = {x}}}"})
    OPS = ["+", "-", "*", "/", "//", "%", "**", "??", "==", "&&"]
    for i, o in enumerate(OPS):
        srcs.append({"id": f"rg{i}a", "src": f"from t | derive {{v = 1 + (a {o} b)..c}}"})
        srcs.append({"id": f"rg{i}b", "src": f"from t | derive {{v = a..(b {o} c)}}"})
        srcs.append({"id": f"rg{i}c", "src": f"from t | filter (a | in (b {o} 1)..(c {o} 2))"})
        srcs.append({"id": f"rg{i}d", "src": f"from t | derive {{v = (a..b) {o} c, w = a {o} (b..c)}}"})
    for i, nm in enumerate(["`my mod`", "`select`", "`let`", "`a.b`", "`1x`", "`$p`", "plain"]):
        srcs.append({"id": f"dn{i}a", "src": f"module {nm} {{\n  let x = 1\n}}\nfrom t | derive {{v = {nm}.x}}"})
        srcs.append({"id": f"dn{i}b", "src": f"type {nm} = int\nfrom t"})
        srcs.append({"id": f"dn{i}c", "src": f"let {nm} = (from t)\nfrom {nm}"})
        srcs.append({"id": f"dn{i}d", "src": f"from t\ninto {nm}\nfrom {nm}"})
        srcs.append({"id": f"dn{i}e", "src": f"let {nm} = x y:1 -> x + y\nfrom t | derive {{v = {nm} a}}"})
        srcs.append({"id": f"dn{i}f", "src": f"module m {{\n  let {nm} = 2\n}}\nimport q = m.{nm}\nfrom t | derive {{v = q}}"})
    for i, x in enumerate(IDENTS):
        srcs.append({"id": f"i{i}", "src": f"from t | select {{{x}}}"})
        srcs.append({"id": f"i{i}b", "src": f"from t | derive {{z = {x} + 1}} | sort {{{x}}}"})
        if "." not in x:
            srcs.append({"id": f"i{i}c", "src": f"from t | derive {{{x} = 1}}"})
            srcs.append({"id": f"i{i}d", "src": f"let {x} = 1\nfrom t"})
    srcs += [{"id": f"t{i}", "src": s} for i, s in enumerate(STMTS)]
    srcs += [{"id": f"s{i}", "src": s} for i, s in enumerate(corpus.SYNTAX)]
    srcs += [{"id": f"h{i}", "src": s} for i, s in enumerate(c16.HAND)]
    srcs += [{"id": "q-" + n, "src": s} for n, s in corpus.repo_queries()]
    book = corpus.book_snippets()
    srcs += [{"id": "b-" + n, "src": s} for n, _, s in (book if tier == "thorough" else rnd.sample(book, min(len(book), 120)))]
    g = gen.G(seed(), safe=False, p_shadow=0.1)
    progs = [g.program(i) for i in range(400 if tier == "quick" else 6000)]
    for i, p in enumerate(progs):
        p["id"] = f"g{i}"; p["decl"] = (i % 2 == 0)
    write_ndjson(os.path.join(d, "progs.ndjson"), progs)
    pv(["render-ndjson", dbset, os.path.join(d, "progs.ndjson"), os.path.join(d, "gsrc.ndjson")])
    srcs += read_ndjson(os.path.join(d, "gsrc.ndjson"))
    per = 1500
    shards = [srcs[i:i + per] for i in range(0, len(srcs), per)]
    def run(i):
        sp = os.path.join(d, f"src{i}.ndjson"); write_ndjson(sp, shards[i])
        ev = os.path.join(d, f"ev{i}.ndjson")
        pv(["fmtrun", sp, ev])
        return ev, tlc("FmtTrace", "FmtTrace.cfg", env={"TRACE": ev}, workers=1, deque=True, xmx="6g")
    with ThreadPoolExecutor(max_workers=6) as ex:
        results = list(ex.map(run, range(len(shards))))
    src_of = {s["id"]: s["src"] for s in srcs}
    nvalid = 0; tstates = 0; noparse = 0
    for ev, (tout, tinfo) in results:
        tr = tuples(tout, "TRACE")
        if not tinfo["no_error"] or not tr or tr[0][1] != tr[0][2]:
            open(ev + ".tlc.out", "w").write(tout)
            raise ToolError("FmtTrace did not consume the trace: " + tinfo.get("error_text", tout[-1200:])[:1500])
        tstates += tinfo.get("distinct", 0)
        c = tuples(tout, "COUNTS"); nvalid += c[-1][1] if c else 0
        evs = read_ndjson(ev)
        noparse += sum(1 for e in evs if e["event"] == "NoParse")
        txt = {}
        cur = None
        for e in evs:
            if e["event"] == "Reset": cur = e["id"]
            elif e["event"] == "Apply" and e["f"] == "format": txt[cur] = e.get("text")
        for r in tuples(tout, "REJECT"):
            src = src_of.get(r[1], "")
            sig = {"what": "fmt-" + r[2], "src": src, "formatted": txt.get(r[1], "")}
            # only a call with two or more named arguments can be printed in two orders
            sig["nondet"] = "fmt" if len(re.findall(r"\b[a-z_]+:[^\s:]", src)) >= 2 and nondet_fmt(src, d) else "no"
            if sig["nondet"] == "no" and r[2] == "compile_formatted" and "sort" in src and not re.search(r"(?<![\w.])\d[\d_]*\.0+(?![\d])", src):
                import c15
                sig["nondet"] = c15.nondet(src, None, d)      # compile itself non-deterministic on this source (C11's finding)
            rep.violation({"property": "C14", "kind": "fmt-" + r[2], "prql": src, "formatted": txt.get(r[1]), "failing_step": r[2],
                           "trace_file": os.path.relpath(ev, ROOT), "line": r[3]}, sig)
    # binding demonstration: on two sources that format cleanly, change the re-parsed tree id / the second text id
    stp = os.path.join(d, "st.ndjson")
    write_ndjson(stp, [{"id": "st1", "src": "from t | select {a, b}"}, {"id": "st2", "src": "from t | filter a > 1 | take 3"}])
    pv(["fmtrun", stp, os.path.join(d, "st.ev")])
    evs = read_ndjson(os.path.join(d, "st.ev"))
    k = 0
    for e in evs:
        if e["event"] == "Apply" and e["f"] == "reparse" and k == 0:
            e["id"] += 500; k = 1
        elif e["event"] == "Apply" and e["f"] == "reformat" and k == 1:
            k = 2
        elif e["event"] == "Apply" and e["f"] == "reformat" and k == 2:
            e["id"] += 500; k = 3
    write_ndjson(os.path.join(d, "bad.ndjson"), evs)
    bout, _ = tlc("FmtTrace", "FmtTrace.cfg", env={"TRACE": os.path.join(d, "bad.ndjson")}, workers=1, deque=True)
    g0, _ = tlc("FmtTrace", "FmtTrace.cfg", env={"TRACE": os.path.join(d, "st.ev")}, workers=1, deque=True)
    if len(tuples(g0, "REJECT")) != 0 or len(tuples(bout, "REJECT")) != 2:
        raise ToolError(f"C14 selftest: expected 0 / 2 rejections, got {len(tuples(g0, 'REJECT'))} / {len(tuples(bout, 'REJECT'))}")
    cov = {"states": info["distinct"] + tstates, "transitions": info["generated"] + tstates, "traces_validated_against_impl": nvalid,
           "samples": [{"src": srcs[0]["src"]}, {"src": f"from t | derive {{v = {LITERALS[3]}}}"}, {"src": STMTS[0]}, {"src": srcs[-1]["src"]}],
           "explanation": f"{len(srcs)} sources ({len(pick)} expression trees of ExprMC in minimal / full rendering - every operator adjacency -, {len(LITERALS)} literal spellings, {len(IDENTS)} identifier spellings in 4 positions, statements with named arguments / functions / modules / wrapping, repository queries, book snippets, generated programs); {nvalid} of them parse and were taken through parse -> format -> parse -> format and compile of both texts, each diagram validated by FmtTrace ({noparse} sources do not parse and are outside the property)",
           "sources": len(srcs), "not_parsing": noparse}
    return rep.finish("model_checking", cov, ["the syntax tree is compared modulo `span` and `doc_comment` fields (positions and comments)",
                                               "compile of source and formatted text is compared for the generic dialect"])
