----------------------------- MODULE Literal -----------------------------
(* C08 - a PRQL string literal denotes one value (a sequence of code      *)
(* points) and the SQL emitted for it must denote exactly that value, as  *)
(* one string token, under the lexical rules of the target dialect.       *)
(*                                                                        *)
(* A literal is built piece by piece:                                     *)
(*   [k |-> "raw", c |-> code point]      a character written as itself   *)
(*   [k |-> "esc", e |-> "n" | "t" | ...] an escape sequence (strings.md) *)
(* inside a quote style [q |-> 39 | 34, n |-> 1 | 3] (single / double     *)
(* quote, one or three of them), optionally with the r prefix (raw        *)
(* string: escapes are not interpreted).                                  *)
EXTENDS Integers, Sequences, FiniteSets, TLC

\* the documented escape table
EscValue(e) ==
  CASE e = "\\" -> 92 [] e = "'" -> 39 [] e = "\"" -> 34 [] e = "b" -> 8 [] e = "f" -> 12
    [] e = "n" -> 10 [] e = "r" -> 13 [] e = "t" -> 9 [] e = "/" -> 47
    [] e = "x41" -> 65 [] e = "x7e" -> 126 [] e = "u{e9}" -> 233 [] e = "u{1F600}" -> 128512 [] e = "u{27}" -> 39
    [] e = "u{5c}" -> 92

\* the value a (non-raw) literal denotes
PieceValue(p) == IF p.k = "raw" THEN p.c ELSE EscValue(p.e)
Value(ps) == [i \in 1 .. Len(ps) |-> PieceValue(ps[i])]

\* the source text of an escape, as code points (used for raw strings, where it stays literal)
EscText(e) ==
  CASE e = "\\" -> <<92, 92>> [] e = "'" -> <<92, 39>> [] e = "\"" -> <<92, 34>> [] e = "b" -> <<92, 98>>
    [] e = "f" -> <<92, 102>> [] e = "n" -> <<92, 110>> [] e = "r" -> <<92, 114>> [] e = "t" -> <<92, 116>>
    [] e = "/" -> <<92, 47>> [] e = "x41" -> <<92, 120, 52, 49>> [] e = "x7e" -> <<92, 120, 55, 101>>
    [] e = "u{e9}" -> <<92, 117, 123, 101, 57, 125>> [] e = "u{27}" -> <<92, 117, 123, 50, 55, 125>>
    [] e = "u{5c}" -> <<92, 117, 123, 53, 99, 125>>
    [] e = "u{1F600}" -> <<92, 117, 123, 49, 70, 54, 48, 48, 125>>

\* may piece p follow pieces ps inside quote style st?  (so that the spelling really is ONE literal)
CanAppend(ps, p, st, raw) ==
  /\ p.k = "raw" => /\ p.c # 92                                    \* a backslash is written as an escape
                    /\ (st.n = 1 => p.c # st.q)                      \* the delimiter cannot appear raw in a 1-quote string
                    /\ (st.n = 3 /\ p.c = st.q) =>                   \* in a 3-quote string never two in a row
                          (ps # <<>> /\ ~(ps[Len(ps)].k = "raw" /\ ps[Len(ps)].c = st.q))
  \* raw strings have no escapes: a backslash is an ordinary character, the delimiter cannot be written at all
  \* (r-strings.md shows one-quote delimiters only; the lexer accepts neither quote character nor a
  \* line break inside a raw string - such spellings are rejected, not mis-read, so they are left out)
  /\ raw => /\ (p.k = "raw" \/ p.e \in {"n", "t", "x41", "u{e9}", "\\"})
            /\ (p.k = "raw" => p.c \notin {39, 34, 10, 13})
\* and the literal may be closed after ps
CanClose(ps, st) == ps # <<>> /\ ~(ps[Len(ps)].k = "raw" /\ ps[Len(ps)].c = st.q)

\* value of a raw string: every piece stands for its own source text
RECURSIVE RawValue(_)
RawValue(ps) == IF ps = <<>> THEN <<>>
                ELSE (IF Head(ps).k = "raw" THEN << Head(ps).c >> ELSE EscText(Head(ps).e)) \o RawValue(Tail(ps))

\* ---- emission, as documented for SQL: quote, value with the quote doubled, quote ----
RECURSIVE Doubled(_)
Doubled(v) == IF v = <<>> THEN <<>> ELSE (IF Head(v) = 39 THEN <<39, 39>> ELSE << Head(v) >>) \o Doubled(Tail(v))
Emit(v) == <<39>> \o Doubled(v) \o <<39>>

\* ---- the two families of SQL string lexers ----
\* returns [ok, v, rest]: the value of the string token at the head of txt and what follows it
RECURSIVE LexAnsi(_, _)
LexAnsi(txt, acc) ==      \* txt: after the opening quote
  IF txt = <<>> THEN [ok |-> FALSE, v |-> acc, rest |-> <<>>]
  ELSE IF Head(txt) = 39 THEN
         (IF Len(txt) >= 2 /\ txt[2] = 39 THEN LexAnsi(SubSeq(txt, 3, Len(txt)), Append(acc, 39))
          ELSE [ok |-> TRUE, v |-> acc, rest |-> Tail(txt)])
  ELSE LexAnsi(Tail(txt), Append(acc, Head(txt)))
RECURSIVE LexBackslash(_, _)
LexBackslash(txt, acc) ==
  IF txt = <<>> THEN [ok |-> FALSE, v |-> acc, rest |-> <<>>]
  ELSE IF Head(txt) = 92 THEN
         (IF Len(txt) >= 2 THEN LexBackslash(SubSeq(txt, 3, Len(txt)), Append(acc, txt[2]))   \* (\n etc. are not modelled apart)
          ELSE [ok |-> FALSE, v |-> acc, rest |-> <<>>])
  ELSE IF Head(txt) = 39 THEN
         (IF Len(txt) >= 2 /\ txt[2] = 39 THEN LexBackslash(SubSeq(txt, 3, Len(txt)), Append(acc, 39))
          ELSE [ok |-> TRUE, v |-> acc, rest |-> Tail(txt)])
  ELSE LexBackslash(Tail(txt), Append(acc, Head(txt)))

\* design-level statement: the emitted text is exactly one token with the same value
EmitOkAnsi(v) == LET r == LexAnsi(Tail(Emit(v)), <<>>) IN r.ok /\ r.v = v /\ r.rest = <<>>
EmitOkBackslash(v) == LET r == LexBackslash(Tail(Emit(v)), <<>>) IN r.ok /\ r.v = v /\ r.rest = <<>>
\* ---- the statement printer of the default options (format = true) ----
\* It tokenises the statement with its own lexer, whatever the dialect, and prints the tokens it found (the text of a token is
\* copied): a literal is kept iff that lexer finds its end where the emission put it.  Transcribed from the printer
\* (sqlformat 0.3.5, take_till_escaping('\'', ['\'', '\\'])): a quote or a backslash directly followed by a quote is consumed
\* together with that quote; any other quote ends the token.  (The first version of this operator took a backslash as
\* escaping the *next character* - LexBackslash - and the trace refuted it: 'a\\\\' is not kept although the two backslashes
\* pair up.)
RECURSIVE LexPrinter(_)
LexPrinter(txt) ==        \* txt: after the opening quote; result [ok, rest]
  IF txt = <<>> THEN [ok |-> FALSE, rest |-> <<>>]
  ELSE IF Head(txt) \in {39, 92} /\ Len(txt) >= 2 /\ txt[2] = 39 THEN LexPrinter(SubSeq(txt, 3, Len(txt)))
  ELSE IF Head(txt) = 39 THEN [ok |-> TRUE, rest |-> Tail(txt)]
  ELSE LexPrinter(Tail(txt))
PrinterKeepsText(txt) == LET r == LexPrinter(Tail(txt)) IN r.ok /\ r.rest = <<>>
PrinterKeeps(v) == PrinterKeepsText(Emit(v))
=======================================================================
