SPECIFICATION TraceSpec
CONSTANTS
  Repaired = TRUE
  RepairedSI = TRUE
  Mutant = "none"
  RepairedN88 = TRUE
  RepairedN115 = TRUE
POSTCONDITION TraceAccepted
CHECK_DEADLOCK FALSE
