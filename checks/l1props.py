"""C01 C03 C05 C10 (and later C04 C06): checks decided by the L1 language machine (spec/Prql.tla)."""
import sys, os, json, random, time
sys.path.insert(0, os.path.join(os.path.dirname(os.path.abspath(__file__)), "..", "lib"))
from vlib import *
from progs import *
import l1, l1check, gen

a, b, k, c = col("a"), col("b"), col("k"), col("c")
U3 = [from_("u"), select(item("k"), item("a"), item("c"))]

def alph_c01():
    return [
        select(item("k"), item("a")),
        select(item("a"), item(bin_("+", a, b), "x")),
        derive(item(bin_("*", b, lit(2)), "x")),
        derive(item(agg("sum", b), "s")),
        filter_(bin_(">", a, lit(0))),
        filter_(bin_("==", b, lit(None))),
        filter_(bin_("||", bin_("<", b, lit(2)), bin_("==", a, lit(None)))),
        sort(("asc", "a")),
        sort(("desc", "b"), ("asc", "k")),
        take(1, 2), take(2, 3, True), take(2, INF, True),
        aggregate(item(agg("sum", b), "s"), item(agg("count", k), "n")),
        aggregate(item(agg("max", a), "m"), item(agg("average", b), "v")),
        group(["a"], [aggregate(item(agg("sum", b), "s"), item(agg("count", k), "n"))]),
        group(["a"], [sort(("desc", "k")), take(1, 1)]),
        group(["a"], [derive(item(agg("min", k), "mk"))]),
        join("inner", [from_("u")], eqcol("k")),
        join("left", [from_("u")], bin_("==", col("a", "t"), col("a", "u"))),
        append(U3),
        # values that are non-NULL on a null-extended row, outer joins, aggregation over them
        derive(item(bin_("??", b, lit(1)), "p")),
        join("right", [from_("u")], eqcol("k"), explicit=True),
        join("full", [from_("u")], eqcol("k"), explicit=True),
        group(["c"], [aggregate(item(agg("sum", col("p")), "sp"), item(agg("count", col("p")), "np"))]),
        # stars in select lists
        select(item(bin_("-", a, lit(1)), "x"), item(star("t"))), select(item(star("u")), item(col("b", "t"))),
    ]

def alph_c03():
    return [
        sort(("asc", "a")), sort(("desc", "a"), ("asc", "k")), sort(("desc", "k")),
        sort(("asc", bin_("+", a, b)), ("desc", "k")), sort(("asc", "b"), ("desc", "a")),
        take(1, 2), take(2, 3, True), take(3, INF, True), take(1, 1), take(2, 2, True),
        select(item("k"), item("b")), select(item(bin_("*", k, lit(2)), "x"), item("a")),
        derive(item(bin_("-", lit(0), a), "n")),
        filter_(bin_("!=", b, lit(None))), filter_(bin_(">", k, lit(1))),
        group(["a"], [sort(("asc", "k")), take(1, 1)]),
        aggregate(item(agg("count", k), "n")),
        join("left", [from_("u")], eqcol("k")),
        join("inner", [from_("u")], bin_("==", col("a", "t"), col("a", "u"))),
    ]

def alph_c05():
    return [
        select(item("k"), item("a")), select(item("b"), item("k"), item("a")),
        select(item(col("a"), "p"), item(col("k"), "q")),
        select(item(col("a"), "A"), item("b")),   # alias differing from the source column by case only
        select(item(bin_("+", a, lit(1)), "x"), item("k")),
        select(item(bin_("+", a, lit(1))), item("k")),                # unnamed computed column
        derive(item(bin_("*", b, lit(2)), "y")), derive(item(bin_("*", b, lit(2)))),
        derive(item(agg("row_number", k), "rn")),
        sort(("desc", "b"), ("asc", "k")), sort(("asc", bin_("+", a, b))),
        take(1, 2), take(2, 3, True),
        filter_(bin_(">", k, lit(1))),
        group(["a"], [sort(("desc", "k")), take(1, 1)]),
        group(["a"], [aggregate(item(agg("count", k), "n"))]),
        group(["b", "a"], [derive(item(agg("max", k), "mk"))]),
        aggregate(item(agg("count", k), "n"), item(agg("sum", b))),
        join("inner", [from_("u")], eqcol("k")),
        join("left", [from_("u"), select(item("k"), item(col("c"), "cc"))], eqcol("k"), alias="u"),
        append(U3),
        exclude("a"), exclude(col("k", "t")), exclude(col("a", "t"), col("c", "u")), exclude(col("k", "u")),
        # stars in select lists: a computed column before / after the columns of an input, one input of a join
        select(item(bin_("+", a, lit(1)), "x"), item(star("t"))), select(item(star("t")), item(bin_("*", k, lit(2)), "z")),
        select(item(col("c", "u")), item(star("t"))), select(item(star("u")), item(col("b", "t"))),
    ]

def alph_c10():
    base = alph_c01()
    extra = [
        # ambiguous bare names in a join condition
        join("inner", [from_("u")], bin_("==", k, k)),
        join("left", [from_("u")], bin_("==", a, c), explicit=True),
        # a column computed on the left under the name of a column the joined relation brings: a later bare
        # reference has two candidates (one declared directly in the frame, one behind the joined relation)
        derive(item(bin_("+", a, lit(1)), "c")), select(item(k), item(bin_("*", b, lit(2)), "c")),
        select(item("c")), filter_(bin_(">", c, lit(0))), sort(("asc", "c")),
        # surplus positional argument
        bad("surplus-arg", "take 2 3"), bad("surplus-arg", "filter (a > 0) (b > 0)"),
        bad("surplus-arg", "sort {a} {b}"), bad("surplus-arg", "select {k} {a}"),
        bad("surplus-arg", "derive {x = (math.abs a b)}"),
        # unknown named argument
        bad("unknown-named-arg", "take 5 offset:2"), bad("unknown-named-arg", "sort {a} desc:true"),
        bad("unknown-named-arg", "filter (a > 0) strict:true"),
        bad("unknown-named-arg", "derive {x = (math.round 1 a digits:2)}"),
        bad("unknown-named-arg", "join u (==k) sid:left"),
        # scalar where a relation is required / relation where a scalar is required
        bad("scalar-as-relation", "join 5 (==k)"), bad("scalar-as-relation", "append 3"),
        bad("scalar-as-relation", "join (a + 1) (==k)"),
        # a call of a scalar function where a relation is required
        bad("scalar-as-relation", "append (min 3)"), bad("scalar-as-relation", "join (math.abs 3) (==k)"),
        # the same name computed on both sides of a join: a later bare reference has two candidates
        derive(item(lit(1), "zz")), join("inner", [from_("u"), derive(item(lit(2), "zz"))], eqcol("k"), alias="w"), select(item("zz")),
        bad("relation-as-scalar", "filter (from u)"), bad("relation-as-scalar", "derive {x = (from u | take 1)}"),
    ]
    return base[:14] + base[14:20] + extra

def slots_c03():
    """sort -> order-retaining step -> take -> order-resetting / windowing step (depth 5 chain)"""
    ta, tk = col("a", "t"), col("k", "t")
    return [
        at(sort(("desc", "a"), ("asc", "k")), 2), at(sort(("asc", "b"), ("desc", "k")), 2), at(sort(("desc", "k")), 2),
        at(join("left", [from_("u")], eqcol("k"), explicit=True), 3), at(join("inner", [from_("u")], eqcol("a")), 3),
        at(select(item("k"), item("b"), item("a")), 3), at(derive(item(bin_("*", b, lit(2)), "x")), 3),
        at(filter_(bin_(">", k, lit(1))), 3),
        at(take(2, 3, True), 4), at(take(1, 2), 4), at(take(2, INF, True), 4),
        at(group(["b"], [aggregate(item(agg("sum", col("a", "t")), "s"))]), 5),
        at(group(["b"], [aggregate(item(agg("sum", col("a")), "s"))]), 5),
        at(aggregate(item(agg("count", b), "n"), item(agg("max", b), "m")), 5),
        at(select(item("b")), 5), at(take(1, 1), 5),
        at(derive(item(agg("row_number", b), "rn")), 5),
    ]

def _c04_parts(tier):
    frames = [("none", 0, 0, ""), ("rows", -1, 1, ""), ("rows", -INF, 0, "expanding"), ("rows", -1, 0, "rolling"),
              ("rows", 0, INF, ""), ("rows", -2, -1, ""), ("rows", 1, 2, ""), ("rows", -INF, INF, ""), ("range", -1, 1, ""),
              ("rows", 0, 0, "rolling"), ("rows", 0, 0, ""), ("rows", -2, 0, "rolling"),      # rolling:1 = the current row only
              # one bound omitted, the other strictly beyond the current row (rows:1.. / rows:..-1 / range:2.. / range:..-1)
              ("rows", 1, INF, ""), ("rows", -INF, -1, ""), ("range", 2, INF, ""), ("range", -INF, -1, ""), ("rows", 2, INF, ""), ("rows", -INF, -2, ""),
              # bounds given the wrong way round: inclusive bounds that select no row (the resolver uses an inverted range as its
              # sentinel for "no frame given": F120)
              ("rows", 2, 1, ""), ("range", 1, -1, ""), ("rows", 0, -1, "")]
    fns = ["sum", "min", "max", "average", "count", "lag", "lead", "first", "last", "rank", "rank_dense", "row_number"]
    if tier == "quick":
        frames = [frames[i] for i in (0, 1, 2, 3, 5, 8, 9, 10, 12, 13, 15, 18)]
    sorts = [sort(("asc", "k")), sort(("desc", "k")), sort(("asc", "b"), ("asc", "k"))]
    def placed(f, where):
        e = agg(f, b, 1)
        if where == "derive": return derive(item(e, "w"))
        if where == "select": return select(item("k"), item(e, "w"))
        if where == "filter": return filter_(bin_(">=", e, lit(1)))
        return sort(("asc", e), ("asc", "k"))
    wsteps, gsteps = [], []
    for (fk, lo, hi, sugar) in frames:
        for f in fns:
            for where in ("derive", "select", "filter", "sort"):
                if where == "sort" and not (f in ("sum", "row_number") and fk in ("none", "rows") and lo in (0, -1)):
                    continue        # sorting by a windowed value: two representatives (known finding F41)
                if where == "filter" and tier == "quick" and f not in ("sum", "row_number", "lag", "count", "rank", "min"):
                    continue
                inner = placed(f, where)
                w = inner if fk == "none" else window(fk, lo, hi, [inner], sugar)
                wsteps.append(w)
                if where in ("derive", "filter"):
                    for srt in (sorts[:1] if tier == "quick" else sorts):
                        gsteps.append(group(["a"], [srt, w]))
    followers = [filter_(bin_(">", k, lit(1))), select(item("k")), take(1, 2),
                 derive(item(agg("sum", k), "tot")), aggregate(item(agg("count", k), "n"))]
    return sorts, wsteps, gsteps, followers

def slots_c04_top(tier):
    sorts, wsteps, gsteps, followers = _c04_parts(tier)
    return ([at(x, 2) for x in sorts] + [at(filter_(bin_("!=", a, lit(None))), 2), at(take(1, 3), 2)]
            + [at(w, 3) for w in wsteps] + [at(f, 4) for f in followers])

def slots_c04_group(tier):
    sorts, wsteps, gsteps, followers = _c04_parts(tier)
    return ([at(filter_(bin_("!=", a, lit(None))), 2), at(sort(("desc", "k")), 2)]
            + [at(g, 3) for g in gsteps] + [at(f, 4) for f in followers])

def slots_c04_join(tier):
    """sort -> join (which retains the order of its left input) -> window function: the order the function sees is the one
    in effect before the join (seeded change c04g-1: the flattener forgot the sort at a join)"""
    sorts, wsteps, gsteps, followers = _c04_parts(tier)
    ws = [w for w in wsteps if (w["op"] == "derive" or (w["op"] == "window" and w["pipe"][0]["op"] == "derive"))]
    if tier == "quick":
        ws = ws[::2]
    joins = [join("inner", [from_("u")], eqcol("k")), join("left", [from_("u")], eqcol("k"), explicit=True),
             join("inner", [from_("u"), select(item("k"), item("c"))], eqcol("k"), alias="u")]
    return [at(x, 2) for x in sorts] + [at(j, 3) for j in joins] + [at(w, 4) for w in ws]

def rename(x, tmap, cmap):
    """rename tables / columns in a step or expression record (C09: user objects named like generated ones)"""
    if isinstance(x, list):
        return [rename(y, tmap, cmap) for y in x]
    if isinstance(x, dict):
        y = {kk: rename(vv, tmap, cmap) for kk, vv in x.items()}
        if x.get("op") == "from":
            y["t"] = tmap.get(x["t"], x["t"])
        if x.get("t") == "col":
            y["name"] = cmap.get(x["name"], x["name"]); y["q"] = tmap.get(x["q"], x["q"])
        if x.get("t") == "eqcol":
            y["name"] = cmap.get(x["name"], x["name"])
        if x.get("op") == "join" and x.get("alias"):
            y["alias"] = tmap.get(x["alias"], x["alias"])
        if "n" in x and isinstance(x["n"], str) and "e" in x:
            y["n"] = cmap.get(x["n"], x["n"])
        return y
    return x

TMAP = {"t": "table_0", "u": "table_1"}
CMAP = {"a": "_expr_0", "b": "_expr_1", "c": "_expr_2", "x": "_expr_3"}
def alph_c09():
    base = alph_c05() + [
        select(item(bin_("+", a, lit(1))), item("a"), item("k")),                   # unnamed computed column next to a user column _expr_0
        derive(item(bin_("*", b, lit(2)))), derive(item(agg("sum", b))),
        filter_(bin_(">", agg("row_number", k), lit(1))),                             # windowed filter forces a sub-query
        group(["a"], [derive(item(agg("rank", k)))]),
        join("inner", [from_("u"), take(1, 2)], eqcol("k"), alias="u"),              # anonymous CTE next to user tables table_0 / table_1
    ]
    return rename(base, TMAP, CMAP)

CONFIG = {
    "C01": dict(relevant={"rows", "ExecError", "Panic", "rejected-wellformed"}, alphabet=alph_c01, literal_first=True,
                gen=dict(), depth={"quick": 4, "thorough": 5}, nrand={"quick": 600, "thorough": 12000}),
    "C03": dict(relevant={"order", "rows", "ExecError"}, alphabet=alph_c03, slots=(slots_c03, 5),
                gen=dict(sort_bias=0.35, p_group=0.1, p_append=0.03), depth={"quick": 4, "thorough": 5},
                nrand={"quick": 500, "thorough": 10000}),
    "C05": dict(relevant={"frame", "rqframe"}, alphabet=alph_c05, literal_first=True,
                gen=dict(p_join=0.3, p_exclude=0.12), depth={"quick": 4, "thorough": 5}, nrand={"quick": 500, "thorough": 10000}),
    "C04": dict(relevant={"rows", "order", "ExecError", "Panic", "rejected-wellformed"}, alphabet=None,
                slotmodels=[(slots_c04_top, 4), (slots_c04_group, 4), (slots_c04_join, 4)],
                gen=dict(p_window=0.5, p_group=0.3, p_join=0.05, p_append=0.0), depth={"quick": 0, "thorough": 0},
                nrand={"quick": 400, "thorough": 8000}),
    "C09": dict(relevant={"rows", "frame", "order", "ExecError", "Panic", "rejected-wellformed"}, alphabet=alph_c09, first="table_0",
                dbset="dbs_clash.json", gen=None, depth={"quick": 4, "thorough": 5}, nrand={"quick": 0, "thorough": 0}),
    "C10": dict(relevant={"accepted-illformed"}, alphabet=alph_c10,
                gen=dict(), depth={"quick": 4, "thorough": 5}, nrand={"quick": 300, "thorough": 5000}),
}

ASSUME = [
    "meaning of each transform transcribed from the PRQL book into spec/Values.tla + spec/Prql.tla (kept honest by the model's own invariants, checked by TLC on every run)",
    "results observed on SQLite (bundled, in-memory) for targets sqlite only; REALs enter the specification as rationals n/d (d<=10^6) and must be within 2^-40 relative distance",
    "division by zero and % by zero yield NULL (SQLite's documented behaviour; the book is silent)",
    "NULL placement under sort is accepted as smallest or largest, consistently within one program",
    "programs outside the fragment the specification gives a meaning to (status unsup) are counted but not judged",
    "scalar shims FLOOR/CEIL/SIGN/POW/SQRT/EXP/LN/LOG10 registered in SQLite",
]

def collect(ctx, progs, res):
    """programs the specification accepted on SQLite, with the column names SQLite returned (= the specified frame)"""
    bad = {pid for pid, _, _ in res["rejects"]} | res.get("skipped_ids", set())
    for p in progs:
        sd = res["side"].get(p["id"], {})
        if p["id"] not in bad and sd.get("names") is not None and not sd.get("error") and not sd.get("panic") and not sd.get("exec_error") and sd.get("judged", True):
            ctx["accepted"].append((p, sd["names"]))

def c05_dialect_frames(rep, tier, coverage, ctx):
    """C05 beyond SQLite: the columns of the statement emitted for every other dialect (computed by the scope monitor of
    spec/SqlScope.tla from the text read back with that dialect's parser: star expansion, EXCLUDE / EXCEPT lists, aliases)
    must be the frame the specification fixed (and SQLite returned) - for the declared program and its open-schema twin."""
    import scoperun, copy
    d = workdir("C05-dialects")
    rnd = random.Random(seed() + 5)
    acc = ctx["accepted"]
    # shapes with stars of two relations and exclusions first, then a sample of the rest
    ops = lambda x: {s["op"] for s in x[0]["steps"]}
    both = [x for x in acc if {"exclude", "join"} <= ops(x)]
    excl = [x for x in acc if "exclude" in ops(x) and "join" not in ops(x)]
    jn = [x for x in acc if "join" in ops(x) and "exclude" not in ops(x)]
    rest = [x for x in acc if not ({"exclude", "join"} & ops(x))]
    pick = lambda l, n: l if len(l) <= n else rnd.sample(l, n)
    m = 1 if tier != "thorough" else 8
    acc = pick(both, 300 * m) + pick(excl, 200 * m) + pick(jn, 150 * m) + pick(rest, 150 * m)
    progs, expect = [], {}
    for i, (p, names) in enumerate(acc):
        q = copy.deepcopy(p); q["id"] = f"f{i}"; q["decl"] = True
        o = copy.deepcopy(p); o["id"] = f"f{i}o"; o["decl"] = False
        progs += [q, o]
        expect[q["id"]] = names; expect[o["id"]] = names
    write_ndjson(os.path.join(d, "progs.ndjson"), progs)
    pv(["render-ndjson", os.path.join(ROOT, "corpus", "dbs_quick.json"), os.path.join(d, "progs.ndjson"), os.path.join(d, "src.ndjson")])
    TU = {"t": ["k", "a", "b"], "u": ["k", "a", "c"]}
    srcs = [dict(r, schema=TU) for r in read_ndjson(os.path.join(d, "src.ndjson"))]
    src_of = {r["id"]: r["src"] for r in srcs}
    prog_of = {p["id"]: p for p in progs}
    sr = scoperun.run(d, srcs, expect=expect)
    n = 0
    for rj in sr["rejects"]:
        if rj["verdict"] != "frame":
            continue            # scope / syntax verdicts are C07's
        n += 1
        import tags
        rep.violation({"property": "C05", "kind": "dialect-frame", "dialect": rj["dialect"], "program": prog_of[rj["id"]], "prql": src_of[rj["id"]],
                       "sql": rj["rec"].get("sql"), "expected_frame": expect[rj["id"]], "statement_columns": rj["detail"], "trace_file": rj["trace_file"], "line": rj["line"]},
                      {"what": "dialect-frame", "dialect": rj["dialect"], "sql": rj["rec"].get("sql") or "", "src": src_of[rj["id"]], "tags": sorted(tags.tags(prog_of[rj["id"]])),
                       "open": rj["id"].endswith("o"), "got": rj["detail"], "expected": json.dumps(expect[rj["id"]])})
    return {"dialect_frames": {"programs": len(acc), "with_open_twin": len(progs), "dialects": 12, "statements_judged": sr["judged"], "events": sr["events"],
                               "frame_rejections": n, "explanation": "result columns of the statement emitted for each of the 12 dialects, computed by SqlScope.tla from the re-parsed text, compared with the specified frame (SqlScopeTrace, rule FrameOk)"},
            "traces_validated_against_impl": coverage["traces_validated_against_impl"] + sr["judged"]}

def c01_loop_family(rep, tier, coverage, ctx):
    """loop (the book's pseudo-code, Loop in Prql.tla): initial relation x step pipeline x follower"""
    inits = [[fromlit(["k"], [[1]])], [fromlit(["k", "a"], [[1, 0], [2, None], [2, None]])], [from_("t"), select(item("k"))],
             [from_("t"), select(item("k"), item("a"))], [from_("t"), filter_(bin_(">", k, lit(1))), select(item("k"), item("a"))]]
    def steps_for(two):
        inc = lambda e: [item(e, "k")] + ([item("a")] if two else [])
        return [[filter_(bin_("<", k, lit(4))), select(*inc(bin_("+", k, lit(1))))],
                [filter_(bin_("<", k, lit(3))), select(*inc(bin_("+", k, lit(2))))],
                [filter_(bin_("<", k, lit(6))), select(*inc(bin_("*", k, lit(2))))],
                [select(*inc(bin_("+", k, lit(1)))), filter_(bin_("<", k, lit(4)))],
                [filter_(bin_("&&", bin_("<", k, lit(4)), bin_(">", k, lit(0)))), derive(item(bin_("+", k, lit(1)), "k2")), select(*([item(col("k2"), "k")] + ([item("a")] if two else [])))],
                [filter_(bin_("<", k, lit(0)))]]          # ends at once
    posts = [[], [sort(("asc", "k")), take(1, 3)], [aggregate(item(agg("count", k), "n"), item(agg("sum", k), "s"))], [filter_(bin_(">", k, lit(2)))],
             [group(["k"], [aggregate(item(agg("count", k), "n"))])], [derive(item(agg("sum", k), "tot"))], [select(item(bin_("*", k, lit(10)), "k10"))], [take(2, 4, True)]]
    progs = []
    for ini in inits:
        two = len(ini[-1].get("items", ini[-1].get("cols", []))) == 2
        for stp in steps_for(two):
            for po in posts:
                progs.append({"id": f"lp{len(progs)}", "decl": True, "steps": ini + [loop(stp)] + po})
    def fix(st_):
        st_.setdefault("at", [])
        for key in ("with", "pipe"):
            for x in st_.get(key, []) or []:
                fix(x)
    for p in progs:
        for st_ in p["steps"]:
            fix(st_)
    dbset = os.path.join(ROOT, "corpus", "dbs_quick.json" if tier == "quick" else "dbs_thorough.json")
    res = l1check.run(rep, "C01-loop", progs, dbset, CONFIG["C01"]["relevant"])
    return {"loop_family": {"programs": len(progs), "accepted": res["accepted"], "rejected": res["rejected"], "not_judged": res["skipped"]},
            "traces_validated_against_impl": coverage["traces_validated_against_impl"] + res["accepted"] + res["rejected"]}

def c01_setop_family(rep, tier, coverage, ctx):
    """remove / intersect (book page Append; SetOpT in Prql.tla): top prefix x operation x bottom relation x follower.
    The projections are chosen so that rows repeat (one column of t / u), which is where "removed one-for-one" differs
    from an anti-join and the minimum of the multiplicities from their product."""
    a, b, k, c = col("a"), col("b"), col("k"), col("c")
    tops = [([from_("t"), select(item("a"))], 1), ([from_("t"), select(item("a"), item("b"))], 2), ([from_("t"), select(item("k"), item("a"), item("b"))], 3),
            ([from_("t"), filter_(bin_(">", k, lit(1))), select(item("a"))], 1), ([from_("t"), select(item(bin_("%", k, lit(2)), "a"))], 1),
            ([from_("t"), sort(("desc", "k")), select(item("a"))], 1),
            ([fromlit(["a"], [[1], [1], [1], [2], [None]])], 1), ([from_("t"), derive(item(bin_("+", a, lit(1)), "x")), select(item("x"))], 1)]
    bots = {1: [[from_("u"), select(item("a"))], [from_("u"), select(item(col("c"), "a"))], [from_("u"), filter_(bin_("<", k, lit(3))), select(item("a"))],
                [fromlit(["a"], [[1], [1], [None]])], [from_("t"), select(item(col("b"), "a"))], [from_("u"), take(1, 2), select(item("a"))]],
            2: [[from_("u"), select(item("a"), item("c"))], [from_("t"), select(item("a"), item("b")), take(1, 2)], [fromlit(["a", "b"], [[1, 2], [1, 2], [1, None]])]],
            3: [[from_("u"), select(item("k"), item("a"), item("c"))], [from_("t"), filter_(bin_(">", a, lit(1)))]]}
    def posts(n):
        first = "a" if n < 3 else "k"
        f = col(first)
        return [[], [sort(("asc", first)), take(1, 2)], [aggregate(item(agg("count", f), "n"))], [filter_(bin_("!=", f, lit(None)))],
                [group([first], [aggregate(item(agg("count", f), "n"))])], [derive(item(bin_("*", f, lit(2)), "d"))], [take(1, 1)],
                [group([first], [take(1, 1)])], [derive(item(agg("count", f), "cnt"))]]
    progs = []
    for tp, n in tops:
        for op in (remove, intersect):
            for bt in bots[n]:
                for po in posts(n):
                    progs.append({"id": f"so{len(progs)}", "decl": True, "steps": tp + [op(bt)] + po})
    nprod = len(progs)
    # two operations in a row, an operation inside the bottom relation, widths that differ (no meaning given: not judged)
    one = [from_("t"), select(item("a"))]; ua = [from_("u"), select(item("a"))]; uc = [from_("u"), select(item(col("c"), "a"))]
    for o1 in (remove, intersect):
        for o2 in (remove, intersect, append):
            progs.append({"id": f"so{len(progs)}", "decl": True, "steps": one + [o1(ua), o2(uc)]})
            progs.append({"id": f"so{len(progs)}", "decl": True, "steps": one + [o1(ua + [o2(uc)])]})
            progs.append({"id": f"so{len(progs)}", "decl": True, "steps": one + [append(uc), o1(ua)]})
        progs.append({"id": f"so{len(progs)}", "decl": True, "steps": [from_("t"), select(item("a"), item("b")), o1(ua)]})
        # the bottom relation of an append ends in a set operation that SQLite can express (EXCEPT / INTERSECT after a
        # whole-row de-duplication): the statement must keep the grouping t UNION ALL (u EXCEPT c)
        dd = group(["a"], [take(1, 1)])
        progs.append({"id": f"so{len(progs)}", "decl": True, "steps": one + [append(ua + [dd, o1(uc)])]})
        progs.append({"id": f"so{len(progs)}", "decl": True, "steps": one + [append(ua + [dd, o1(uc)]), sort(("asc", "a"))]})
        progs.append({"id": f"so{len(progs)}", "decl": True, "steps": one + [dd, o1(ua + [append(uc)])]})
        progs.append({"id": f"so{len(progs)}", "decl": True, "steps": one + [dd, o1(ua + [dd, o1(uc)])]})
    if tier == "quick":
        rnd = random.Random(seed() + 11)
        progs = [p for i, p in enumerate(progs) if i % 2 == 0 or rnd.random() < 0.15 or i >= nprod]
    def fix(st_):
        st_.setdefault("at", [])
        for key in ("with", "pipe"):
            for x in st_.get(key, []) or []:
                fix(x)
    for p in progs:
        for st_ in p["steps"]:
            fix(st_)
    dbset = os.path.join(ROOT, "corpus", "dbs_quick.json" if tier == "quick" else "dbs_thorough.json")
    # design level: the machine's invariants and step laws (a remove never adds rows, the frame is the top's) on every
    # pipeline of the bound over an alphabet with both operations; its programs join the family
    ua1 = [from_("u"), select(item("a"))]
    alph = [select(item("a")), select(item(col("b"), "a")), remove(ua1), intersect(ua1), remove([from_("t"), select(item(col("b"), "a"))]),
            intersect([fromlit(["a"], [[1], [1], [None]])]), append(ua1), filter_(bin_(">", a, lit(1))), sort(("desc", "a")), take(1, 2),
            aggregate(item(agg("count", a), "n")), group(["a"], [take(1, 1)]), derive(item(agg("row_number", a), "rn"))]
    mprogs, minfo = l1.mc_generate("C01-setopmc", model([from_("t")], alph, 3 if tier == "quick" else 4), dbset, workers=8)
    mprogs = [p for p in mprogs if any(s_["op"] in ("remove", "intersect") for s_ in p["steps"])]
    if not mprogs:
        raise ToolError("set-operation model: no program with remove / intersect was generated")
    progs += mprogs
    res = l1check.run(rep, "C01-setop", progs, dbset, CONFIG["C01"]["relevant"])
    return {"setop_family": {"programs": len(progs), "model_states": minfo["distinct"], "model_programs": len(mprogs), "accepted": res["accepted"], "rejected": res["rejected"], "not_judged": res["skipped"],
                             "explanation": "remove / intersect (SetOpT of Prql.tla: bag difference one-for-one; intersection as minimum or product of multiplicities; NULL = NULL left open): top prefix x operation x bottom relation x follower, projections under which rows repeat"},
            "states": coverage.get("states", 0) + minfo["distinct"],
            "traces_validated_against_impl": coverage["traces_validated_against_impl"] + res["accepted"] + res["rejected"]}

def c01_extra(rep, tier, coverage, ctx):
    out = c01_loop_family(rep, tier, coverage, ctx)
    coverage.update(out)
    out.update(c01_setop_family(rep, tier, coverage, ctx))
    return out

def c10_let_family(rep, tier, coverage, ctx):
    """C10 across declarations: the frame of a let-bound (into) relation is the frame of its pipeline - a bare name that two of
    its columns carry is as ambiguous in the consumer as it is after the same pipeline written inline, a column its pipeline
    dropped is as unknown."""
    a, b, k, c = col("a"), col("b"), col("k"), col("c")
    inners = [[from_("t"), join("inner", [from_("u")], eqcol("k"))], [from_("t"), join("left", [from_("u")], eqcol("k"), explicit=True)],
              [from_("t"), join("inner", [from_("u")], eqcol("k")), filter_(bin_(">", b, lit(0)))],
              [from_("t"), select(item("k"), item("a"))], [from_("t"), exclude("a")], [from_("t"), group(["a"], [aggregate(item(agg("sum", b), "s"))])],
              [from_("t"), derive(item(bin_("+", a, lit(1)), "x")), select(item("x"), item("k"))],
              [from_("t"), join("inner", [from_("u"), select(item("k"), item("c"))], eqcol("k"), alias="u")]]
    uses = [[select(item(n))] for n in ("a", "k", "b", "c", "s", "x")] + [[filter_(bin_(">", col(n), lit(0)))] for n in ("a", "b", "c")] + \
           [[sort(("asc", n))] for n in ("a", "k", "c")] + [[derive(item(bin_("+", col(n), lit(1)), "z"))] for n in ("a", "b")] + \
           [[group([n], [aggregate(item(agg("count", col("b")), "n"))])] for n in ("a", "k")] + [[join("inner", [from_("u")], eqcol("k"))], [take(1, 2)]]
    progs = []
    for inner in inners:
        for use in uses:
            for surface in ("let", "into"):
                d = {"kind": "let", "name": "rel1", "short": "rel1", "steps": inner, "params": [], "named": [], "body": {"t": "lit"}, "surface": surface, "module": ""}
                progs.append({"id": f"sl{len(progs)}", "decl": True, "decls": [d], "steps": [from_("rel1")] + use})
            progs.append({"id": f"sl{len(progs)}", "decl": True, "steps": inner + use})          # the same pipeline inline (control)
    def fix_(st_):
        st_.setdefault("at", [])
        for key in ("with", "pipe"):
            for x in st_.get(key, []) or []:
                fix_(x)
    for p in progs:
        for st_ in p["steps"] + [y for d in p.get("decls", []) for y in d["steps"]]:
            fix_(st_)
    dbset = os.path.join(ROOT, "corpus", "dbs_quick.json")
    res = l1check.run(rep, "C10-let", progs, dbset, CONFIG["C10"]["relevant"])
    return {"let_family": {"programs": len(progs), "accepted": res["accepted"], "rejected": res["rejected"], "not_judged": res["skipped"],
                           "explanation": "let / into relation (joins of tables sharing column names, projections, exclusions, groups) x bare reference in the consumer, next to the same pipeline inline"},
            "traces_validated_against_impl": coverage["traces_validated_against_impl"] + res["accepted"] + res["rejected"]}

def c03_let_family(rep, tier, coverage, ctx):
    """C03 across declarations: a relation sorted inside a let (or a sort followed by group {} (take n)) and taken from
    in the consumer, followed by a transform that forces the take into a sub-query: sort x projection x take x follower."""
    a, b, k = col("a"), col("b"), col("k")
    sorts = [sort(("desc", "a"), ("asc", "k")), sort(("asc", "b"), ("desc", "k")), sort(("desc", "k")), sort(("asc", bin_("+", a, k)), ("asc", "k"))]
    projs = [None, select(item("k"), item("a"), item("b")), select(item("a"), item("k")), derive(item(bin_("*", k, lit(2)), "d"))]
    takes = [take(1, 2), take(2, 3, True), take(1, 1), take(2, INF, True)]
    after = [None, filter_(bin_(">", k, lit(0))), derive(item(bin_("+", k, lit(1)), "z")), sort(("asc", "k")), aggregate(item(agg("count", k), "n")),
             join("inner", [from_("u")], eqcol("k")), select(item("k")), group(["a"], [aggregate(item(agg("count", k), "n"))]), take(1, 1)]
    progs = []
    for so in sorts:
        for pr in projs:
            for tk in takes:
                for af in after:
                    if pr is not None and pr["op"] == "select" and len(pr["items"]) == 2 and af is not None and af["op"] == "join":
                        pass
                    inner = [from_("t"), so] + ([pr] if pr else [])
                    for surface in (("let",) if tier == "quick" and len(progs) % 3 else ("let", "into")):
                        d = {"kind": "let", "name": "rel1", "short": "rel1", "steps": inner, "params": [], "named": [], "body": {"t": "lit"}, "surface": surface, "module": ""}
                        progs.append({"id": f"let{len(progs)}", "decl": True, "decls": [d], "steps": [from_("rel1"), tk] + ([af] if af else [])})
    # the consumer sorts again before taking: the take must follow the new order, not the one inherited from the declaration
    resorts = [sort(("desc", "b"), ("asc", "k")), sort(("asc", "k"))]
    for so in sorts[:3]:
        for pr in projs[:2]:
            for rs in resorts:
                for tk in takes[:3]:
                    for af in (None, after[1], after[4], after[7], group(["a"], [aggregate(item(agg("sum", b), "s"), item(agg("max", k), "m"))])):
                        inner = [from_("t"), so] + ([pr] if pr else [])
                        d = {"kind": "let", "name": "rel1", "short": "rel1", "steps": inner, "params": [], "named": [], "body": {"t": "lit"}, "surface": "let", "module": ""}
                        progs.append({"id": f"let{len(progs)}", "decl": True, "decls": [d], "steps": [from_("rel1"), rs, tk] + ([af] if af else [])})
    def fix_(st_):
        st_.setdefault("at", [])
        for key in ("with", "pipe"):
            for x in st_.get(key, []) or []:
                fix_(x)
    for p in progs:
        for st_ in p["steps"] + p["decls"][0]["steps"]:
            fix_(st_)
    dbset = os.path.join(ROOT, "corpus", "dbs_quick.json" if tier == "quick" else "dbs_thorough.json")
    res = l1check.run(rep, "C03-let", progs, dbset, CONFIG["C03"]["relevant"])
    return {"let_family": {"programs": len(progs), "accepted": res["accepted"], "rejected": res["rejected"], "not_judged": res["skipped"],
                           "explanation": "relation sorted inside a let / into declaration, then take in the consumer, then a transform forcing a sub-query"},
            "traces_validated_against_impl": coverage["traces_validated_against_impl"] + res["accepted"] + res["rejected"]}

def c03_dialect_takes(rep, tier, coverage, ctx):
    """C03 beyond SQLite: for programs whose SQLite execution the specification accepted, the statement emitted for every
    other dialect must select the same row positions at the same places - the same sequence of (LIMIT, OFFSET) per query,
    whether spelled LIMIT/OFFSET, OFFSET..FETCH or TOP (rule TakesOk of spec/SqlScope.tla)."""
    import scoperun, copy
    d = workdir("C03-dialects")
    rnd = random.Random(seed() + 3)
    acc = [x for x in ctx["accepted"] if any(s["op"] in ("take", "sort") or (s["op"] in ("group", "window") and any(y["op"] == "take" for y in s["pipe"])) for s in x[0]["steps"])]
    acc = acc if len(acc) <= (500 if tier == "quick" else 5000) else rnd.sample(acc, 500 if tier == "quick" else 5000)
    progs = []
    for i, (p, names) in enumerate(acc):
        q = copy.deepcopy(p); q["id"] = f"k{i}"; q["decl"] = True; progs.append(q)
    write_ndjson(os.path.join(d, "progs.ndjson"), progs)
    pv(["render-ndjson", os.path.join(ROOT, "corpus", "dbs_quick.json"), os.path.join(d, "progs.ndjson"), os.path.join(d, "src.ndjson")])
    TU = {"t": ["k", "a", "b"], "u": ["k", "a", "c"]}
    srcs = [dict(r, schema=TU) for r in read_ndjson(os.path.join(d, "src.ndjson"))]
    src_of = {r["id"]: r["src"] for r in srcs}; prog_of = {p["id"]: p for p in progs}
    ref = scoperun.run(d, srcs, dialects="sqlite", nsh=4, tag="ref-", keep_events=True)
    # SQLite spells "no upper bound" LIMIT -1 (documented); as an expectation it is an absent limit
    expect = {pid: [["" if l == "-1" else l, o, dr] for l, o, dr in tk] for (pid, dl), tk in ref["takes_seen"].items()}
    others = "ansi,bigquery,clickhouse,duckdb,generic,glaredb,mssql,mysql,postgres,redshift,snowflake"
    judged = [s_ for s_ in srcs if s_["id"] in expect]
    # binding demonstration: the same program once more with a wrong expectation must be rejected by rule TakesOk
    probe = next((s_ for s_ in judged if any(l != "final" for l, _, _ in expect[s_["id"]])), None)
    probe2 = None
    if probe is not None:
        judged.append(dict(probe, id="selftest-takes"))
        expect["selftest-takes"] = [[(l + "1") if l and l != "final" else ("7" if not l else l), o, dr] for l, o, dr in expect[probe["id"]]]
        # ... and once with a wrong direction of the first ordering key
        probe2 = next((s_ for s_ in judged if any(dr for _, _, dr in expect[s_["id"]])), None)
        if probe2 is not None:
            judged.append(dict(probe2, id="selftest-order"))
            flip = lambda dr: ("d" if dr[0] == "a" else "a") + dr[1:] if dr else dr
            expect["selftest-order"] = [[l, o, flip(dr)] for l, o, dr in expect[probe2["id"]]]
    sr = scoperun.run(d, judged, dialects=others, expect_takes=expect)
    if probe is not None:
        st = [r for r in sr["rejects"] if r["id"] == "selftest-takes" and r["verdict"] == "takes"]
        if not st:
            raise ToolError("C03 selftest: a wrong (LIMIT, OFFSET) expectation was not rejected")
        if probe2 is not None and not [r for r in sr["rejects"] if r["id"] == "selftest-order" and r["verdict"] == "takes"]:
            raise ToolError("C03 selftest: a wrong ORDER BY direction expectation was not rejected")
        sr["rejects"] = [r for r in sr["rejects"] if r["id"] not in ("selftest-takes", "selftest-order")]
    n = 0
    import tags
    for rj in sr["rejects"]:
        if rj["verdict"] != "takes":
            continue
        n += 1
        rep.violation({"property": "C03", "kind": "dialect-takes", "dialect": rj["dialect"], "program": prog_of[rj["id"]], "prql": src_of[rj["id"]],
                       "sql": rj["rec"].get("sql"), "expected_limit_offset": expect[rj["id"]], "statement_limit_offset": rj["detail"]},
                      {"what": "dialect-takes", "dialect": rj["dialect"], "sql": rj["rec"].get("sql") or "", "src": src_of[rj["id"]], "tags": sorted(tags.tags(prog_of[rj["id"]])),
                       "got": rj["detail"], "expected": json.dumps(expect[rj["id"]])})
    return {"dialect_takes": {"programs": len(progs), "dialects": 11, "statements_judged": sr["judged"], "rejections": n,
                              "explanation": "(LIMIT, OFFSET) sequence of the statement for each other dialect equals that of the SQLite statement whose execution the specification accepted"},
            "traces_validated_against_impl": coverage["traces_validated_against_impl"] + sr["judged"]}

def c03_extra(rep, tier, coverage, ctx):
    out = c03_let_family(rep, tier, coverage, ctx)
    coverage.update(out)
    out.update(c03_dialect_takes(rep, tier, coverage, ctx))
    return out

CONFIG["C03"]["extra"] = c03_extra
CONFIG["C01"]["extra"] = c01_extra
CONFIG["C05"]["extra"] = c05_dialect_frames
CONFIG["C10"]["extra"] = c10_let_family

def check(pid, tier, extra=None):
    cfg = CONFIG[pid]
    ctx = {"accepted": []}
    rep = Report(pid, tier)
    dbset = os.path.join(ROOT, "corpus", cfg.get("dbset") or ("dbs_quick.json" if tier == "quick" else "dbs_thorough.json"))
    st = l1.selftest(os.path.join(ROOT, "corpus", "dbs_quick.json"))
    first = cfg.get("first", "t")
    states = transitions = traces = events = 0
    skipped = 0
    samples = []
    by_what = {}
    # (1) bounded-exhaustive: every pipeline over the alphabet up to the depth (and the slot models:
    # one alphabet per pipeline position, for deep chains without the blow-up)
    import inspect
    models = []
    if cfg.get("alphabet"):
        models.append(("mc", model([from_(first)], cfg["alphabet"](), cfg["depth"][tier])))
        if cfg.get("literal_first"):
            # the same pipelines (one transform shorter) over a relation literal with the columns of t:
            # NULLs, a duplicate row, a negative value; the same rows on every database instance
            lit_ = fromlit(["k", "a", "b"], [[1, 1, 2], [2, None, 0], [2, None, 0], [3, -2, None]])
            models.append(("mclit", model([lit_], cfg["alphabet"](), cfg["depth"][tier] - 1)))
    for n, (sl, sd) in enumerate(cfg.get("slotmodels", []) + ([cfg["slots"]] if "slots" in cfg else [])):
        models.append((f"slots{n}", model([from_("t")], sl(tier) if len(inspect.signature(sl).parameters) else sl(), sd)))
    nmc = 0
    nshapes = 0
    rnd = random.Random(seed())
    for mname, m in models:
        progs, info = l1.mc_generate(f"{pid}-{mname}", m, dbset, workers=8 if tier == "quick" else 14)
        states += info["distinct"]; transitions += info["generated"]
        res = l1check.run(rep, f"{pid}-{mname}", progs, dbset, cfg["relevant"])
        collect(ctx, progs, res)
        traces += res["accepted"] + res["rejected"]; skipped += res["skipped"]; events += res["events"]
        for kk, vv in res["by_what"].items():
            by_what[kk] = by_what.get(kk, 0) + vv
        for p in ([progs[-1]] + rnd.sample(progs, min(2, len(progs)))):
            sd_ = res["side"].get(p["id"], {})
            samples.append({"prql": sd_.get("src", "").split("}\n", 1)[-1], "sql": sd_.get("sql"), "model_status": p.get("status")})
        nmc += len(progs); nshapes += len(m["steps"])
    m = {"steps": [None] * nshapes, "depth": max(mm["depth"] for _, mm in models)}
    # (2) seeded random programs beyond the bound
    rprogs = []
    if cfg["gen"] is not None:
        g = gen.G(seed(), **cfg["gen"])
        rprogs = [g.program(i) for i in range(cfg["nrand"][tier])]
    res2 = l1check.run(rep, f"{pid}-rnd", rprogs, dbset, cfg["relevant"])
    collect(ctx, rprogs, res2)
    traces += res2["accepted"] + res2["rejected"]; skipped += res2["skipped"]; events += res2["events"]
    for kk, vv in res2["by_what"].items():
        by_what[kk] = by_what.get(kk, 0) + vv
    for p in rprogs[:2]:
        s = res2["side"].get(p["id"], {})
        samples.append({"prql": s.get("src", "").split("}\n", 1)[-1], "sql": s.get("sql")})
    coverage = {
        "states": states, "transitions": transitions, "traces_validated_against_impl": traces,
        "samples": samples, "exhaustive": True,
        "explanation": f"PrqlMC explored every pipeline of <= {m['depth']} transforms over {len(m['steps'])} step shapes (position-restricted where the model is a slot model) on {len(json.load(open(dbset))['dbs'])} database instances ({nmc} programs, each a state; machine invariants + step laws checked); every program plus {len(rprogs)} seeded random programs was compiled by the prqlc built from /repo, executed on SQLite per instance, and the {events} recorded events validated by PrqlTrace",
        "programs_mc": nmc, "programs_random": len(rprogs), "trace_events": events,
        "not_judged_unsup": skipped, "rejections_by_kind_all_properties": by_what,
        "relevant_kinds": sorted(cfg["relevant"]), "selftest": st,
    }
    extra = extra or cfg.get("extra")
    if extra is not None:
        import inspect as _i
        coverage.update(extra(rep, tier, coverage, ctx) if len(_i.signature(extra).parameters) > 3 else extra(rep, tier, coverage))
    if pid in ("C01", "C03", "C04"):
        # L2: the back-end machine (spec/Backend.tla) - design level, replay, trace validation of the real splits
        import backend
        cov, st_, n_ = backend.phase(rep, pid, tier)
        coverage.update(cov); coverage["states"] += st_; coverage["traces_validated_against_impl"] += n_
    if pid == "C09":
        # L2: the naming machine (spec/Names.tla) - design level, trace validation of the names the back end gave
        import backend
        cov, st_, n_ = backend.names_phase(rep, tier)
        coverage.update(cov); coverage["states"] += st_; coverage["traces_validated_against_impl"] += n_
    return rep.finish("model_checking", coverage, ASSUME)
