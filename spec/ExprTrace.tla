---------------------------- MODULE ExprTrace ----------------------------
(* Trace validation of the parse trees (C02, C14): for every tree of       *)
(* ExprMC and each of its renderings, the tree the real parser built must  *)
(* be the specification's tree.                                            *)
EXTENDS Expr, Json, IOUtils
Rec == ndJsonDeserialize(IOEnv.TRACE)
VARIABLES l, n, nrej
vars == <<l, n, nrej>>
TInit == l = 1 /\ n = 0 /\ nrej = 0
Ev == Rec[l]
Consume == l <= Len(Rec) /\ l' = l + 1

\* the tree modulo the fields only the specification carries (value, qualifier)
RECURSIVE Canon(_)
Canon(e) ==
  CASE e.t = "col" -> [t |-> "col", name |-> e.name]
    [] e.t = "lit" -> [t |-> "lit", tok |-> e.tok]
    [] e.t = "un"  -> [t |-> "un", op |-> e.op, e |-> Canon(e.e)]
    [] e.t = "bin" -> [t |-> "bin", op |-> e.op, l |-> Canon(e.l), r |-> Canon(e.r)]
    [] OTHER       -> [t |-> "other", tok |-> e.tok]

\* the real parser read rendering `variant` of tree Ev.tree as Ev.observed
ParseObserved ==
  /\ Consume /\ Ev.event = "ParseObserved" /\ n' = n + 1
  /\ LET ok == Ev.parsed /\ Canon(Ev.observed) = Canon(Ev.tree)
              \* and the rendering really is the specification's rendering of that tree
              /\ Ev.text = (IF Ev.variant = "min" THEN Ev.min ELSE Ev.full)
     IN IF ok THEN UNCHANGED nrej
        ELSE nrej' = nrej + 1 /\ PrintT(<<"REJECT", Ev.id, Ev.variant, Ev.text, l>>)
End == Consume /\ Ev.event = "End" /\ PrintT(<<"COUNTS", n, nrej>>) /\ UNCHANGED <<n, nrej>>
TNext == ParseObserved \/ End
TraceSpec == TInit /\ [][TNext]_vars
TraceAccepted ==
  LET d == TLCGet("stats").diameter IN
  /\ PrintT(<<"TRACE", d - 1, Len(Rec)>>)
  /\ d - 1 = Len(Rec)
=======================================================================
