"""The L2 back-end machine (spec/Backend.tla) as a phase of C01 / C03 / C04 / C07:
   design level  BackendMC: every abstract pipeline of the bounded alphabet through the transcribed split machine; every atomic
                 pipeline it emits must mean what its transforms mean in order (SQL's clause order, nesting of aggregate and
                 window functions), no transform lost, every split progresses; the machine as found must fail (F97/F98);
   replay        the model's pipelines rendered to RQ documents and compiled by the real back end (rq_to_sql);
   trace         hook events of split_off_back and of the SELECT assembly for programs x 12 dialects validated by BackendTrace
                 (REJECT = violation; DRIFT = the code no longer cuts where the machine cuts - reported, not a violation)."""
import os, sys, json, random
sys.path.insert(0, os.path.join(os.path.dirname(os.path.abspath(__file__)), "..", "lib"))
from vlib import *
import backendrun as B

# the inputs of the findings this machine produced (F97, F98 repaired; F99 known), and neighbours
HAND = [
    "from t | select {a} | sort a | take 3 | group a (take 1)",
    "from t | select {a} | sort a | take 3 | group a (take 1) | sort a",
    "from t | select {a, b} | sort b | take 2..4 | group {a, b} (take 1)",
    "from t | select {a, b} | group a (take 1) | group {a, b} (take 1)",
    "from t | select {a, b} | group a (sort b | take 1) | select {b} | group {b} (take 1)",
    "from t | select {a, b} | group a (take 1) | filter b > 1 | select {a}",
    "from t | select {a, b} | group a (take 1) | sort b | select {a}",
    "from t | select {a, b} | group a (take 1) | derive {c = b + 1} | take 5 | filter c > 2 | select {a}",
    "from t | select {a, b} | group {a, b} (take 1) | filter b > 1 | select {a}",
    "from t | select {k, a, b} | group a (take 1) | select {a}",
    "from t | select {a, b} | take 3 | group {a, b} (take 1)",
    "from t | select {a, b} | group {a, b} (take 1) | select {a}",
    "from t | select {k, a, b} | group {a, b} (take 1) | select {b, a}",
    "module default_db { let xx <[{a = int, x = int}]>\n let yy <[{a = int, x = int}]> }\nfrom xx | join side:left yy (xx.a == yy.a && xx.x == yy.x) | filter yy.a == null && yy.x == null && xx.x > 1 | select {xx.a, xx.x}",
    "module default_db { let xx <[{a = int, x = int}]>\n let yy <[{a = int, x = int}]> }\nfrom xx | group this (take 1) | remove yy | filter x > 1",
    "module default_db { let xx <[{a = int, x = int}]>\n let yy <[{a = int, x = int}]> }\nfrom xx | intersect yy | group this (take 1)",
]

def sort_family():
    """relations whose order is carried from CTE to CTE (spec/SortInfer.tla): a sorted prefix - let-bound or inline - with the
    sort key selected, hidden or computed, read once or twice, x consumers that take, re-sort, join, group, aggregate, append"""
    out = []
    sorts = ["a", "-b", "(a + b)", "a, -k"]
    projs = ["k, a", "k", "k, a, b"]
    cons = ["take 3", "filter k > 1 | take 2..3", "join u (==k) | take 5", "join y = x (==k) | take 5", "sort k | take 2",
            "group k (take 1)", "derive {r = k + 1} | take 2 | filter r > 1", "aggregate {n = count this}", "append (from x) | take 3",
            "select {k}", "take 4 | sort {-k} | take 2", "group k (sort a | take 1) | take 3", "join side:left u (==k) | sort {u.c} | take 2",
            "take 5 | join u (==k) | take 2", "group k (take 1) | take 2", "select {k} | group k (take 1) | derive {r = k + 1} | filter r > 1",
            "group this (take 1) | join u (==k)",
            # a re-sort whose stand-alone Sort the flattener drops (a group follows): only the take carries it
            "sort {-k} | take 2 | group k (aggregate {n = count this})", "filter k > 0 | sort {-k} | take 3 | group k (take 1)"]
    n = 0
    for s in sorts:
        for p in projs:
            if ("a" in s and "a" not in p and "(" not in s) and False:
                continue
            for c in cons:
                n += 1
                out.append({"id": f"sf{n}l", "src": f"let x = (from t | sort {{{s}}} | select {{{p}}})\nfrom x | {c}"})
                if "x" not in c.replace("(==k)", ""):
                    out.append({"id": f"sf{n}i", "src": f"from t | sort {{{s}}} | select {{{p}}} | {c}"})
            n += 1
            out.append({"id": f"sf{n}r", "src": f"let x = (from t | sort {{{s}}} | select {{{p}}})\nfrom u | join x (==k) | take 3"})
            n += 1
            out.append({"id": f"sf{n}t", "src": f"let x = (from t | sort {{{s}}} | take 4 | select {{{p}}})\nlet y = (from x | filter k > 0)\nfrom y | join z = y (==k) | take 2"})
    return out

NAME_SRCS = [
    "module m {\n  let foo = (from x | take 3)\n}\nfrom foo\njoin m.foo (==id)",
    "module m {\n  let foo = (from x | take 3)\n}\nfrom m.foo\njoin foo (==id)",
    "let foo = (from (from u | take 5) | join (from [{x = 1}]) (==x))\nfrom table_0 | join foo (==x)",
    "from table_0 = employees | join (from x | take 5) (==id) | select {table_0.id}",
    "from t | join t (this.boss == that.id) | join table_0 (this.t.id == that.id)",
    "from s1.orders | join s2.orders (==id) | join table_0 (this.s1.orders.id == that.id)",
    "from table_1 | take 3 | join table_0 (==id) | take 2 | join (from table_1 | take 1) (==id)",
    "module a { let r = (from x | take 5) }\nmodule b { let r = (from y | take 7) }\nfrom a.r | join b.r (==id) | join r (a.r.id == r.id)",
    "let table_0 = (from u | take 3)\nfrom t | take 2 | join u = table_0 (==k) | select {t.k, u.c}",
    "let table_1 = (from t | take 1)\nfrom table_1 | join (from u | take 2) (==k) | take 1 | join table_1 (==k)",
]

def names_phase(rep, tier, extra=()):
    """C09: the names the back end invents (spec/Names.tla): NamesMC at design level; the hook events `load` / `names` of
    programs x dialects validated by BackendTrace (event Names)"""
    d = workdir("C09-names")
    build_harness()
    rnd = random.Random(seed() + 99)
    nmc = B.names_mc(tier)
    if not nmc["holds"]:
        rep.violation({"property": "C09", "kind": "names-design", "tlc": nmc.get("error_text", "")[:6000],
                       "explanation": "NamesMC: the naming machine of spec/Names.tla gives names that do not satisfy its Verdict on a configuration of the bound"},
                      {"what": "names-design", "tlc": nmc.get("error_text", "")})
    import c07
    srcs, _, _, _ = c07.build_sources(tier, d, rnd, tag="C09-nm")
    sources = [{"id": s["id"], "src": s["src"]} for s in srcs]
    if tier == "quick":
        sources = rnd.sample(sources, min(len(sources), 500))
    sources += [{"id": f"nm{i}", "src": x} for i, x in enumerate(NAME_SRCS)] + [{"id": f"nx{i}", "src": x} for i, x in enumerate(extra)]
    r = B.run(d, sources, dialects="generic,postgres,mssql" if tier == "quick" else "all", tag="nm")
    n = 0
    for rec in r["rejects"]:
        if not rec["verdict"].startswith("names-"):
            continue
        n += 1
        rep.violation({"property": "C09", "kind": "backend-" + rec["verdict"], "dialect": rec["dialect"], "id": rec["id"], "prql": rec["source"].get("src"), "sql": rec["sql"],
                       "what_was_built": B.describe(rec), "event": rec["event"], "trace_file": rec["trace_file"], "line": rec["line"]},
                      {"what": "backend-" + rec["verdict"], "dialect": rec["dialect"], "sql": rec["sql"] or "", "src": rec["source"].get("src") or "", "built": B.describe(rec)})
    drift = [x for x in r["drift"] if x["event"]["ev"] == "Names"]
    if drift:
        log(f"[names] DRIFT: {len(drift)} naming(s) of the code differ from the machine of spec/Names.tla (not a violation); first: {drift[0]['id']} {B.describe(drift[0])}")
    return {"naming_machine": {"design_level": nmc, "programs": len(sources), "namings_validated": r["names"], "rejections": n, "drift": len(drift),
                               "explanation": "spec/Names.tla transcribes how table declarations and relation instances get their names (QueryLoader::load, assign_names, RelVarNameAssigner) and states what C09 asks of the result; NamesMC checks the machine on every configuration of the bound, BackendTrace (event Names) checks what the real compiler named and compares the declarations' names with the machine's"}}, (nmc.get("states") or 0) + r["states"], r["names"]

def _kinds(rec):
    e = rec["event"]
    if e["ev"] != "Split" or not rec.get("pair") or rec["pair"][0] == 0:
        return []
    i, j = rec["pair"]
    f = lambda t: t["cx"] if t["k"] == "Compute" else t["k"]
    return [f(e["atomic"][i - 1]), f(e["atomic"][j - 1])]

def relevant(pid, rec):
    v, ks = rec["verdict"], _kinds(rec)
    if pid == "C01":
        return True
    if pid == "C03":
        return v.startswith("sortinfer-") or v in ("assembly-limit", "assembly-offset", "assembly-order-by") or (v == "clause-order" and bool({"Take", "Sort"} & set(ks)))
    if pid == "C04":
        e = rec["event"]
        win = e["ev"] == "Split" and any(t["cx"] == "windowed" for t in e["atomic"])
        return (v == "nesting" and win) or (v == "clause-order" and "windowed" in ks)
    if pid == "C07":
        return v == "nesting"
    return False

def phase(rep, pid, tier, sources=None):
    d = workdir(f"{pid}-backend")
    build_harness()
    rnd = random.Random(seed() + 77)
    st = B.selftest(d)
    pipes, info = B.mc(tier, name=pid)
    if info.get("design_violation"):
        rep.violation({"property": pid, "kind": "backend-design", "tlc": info.get("error_text", "")[:6000],
                       "explanation": "BackendMC: the split machine of spec/Backend.tla emits an atomic pipeline that violates an invariant (EmittedOk / NoLoss / Progress / Closed)"},
                      {"what": "backend-design", "tlc": info.get("error_text", "")})
    # replay of the model's pipelines through the real back end
    n_r = 1500 if tier == "quick" else len(pipes)
    sample = pipes if len(pipes) <= n_r else rnd.sample(pipes, n_r)
    rq = [{"id": f"r{i}", "rq": B.rq_doc(p)} for i, p in enumerate(sample)]
    r1 = B.run(d, rq, dialects="sqlite,postgres,mssql" if tier == "quick" else "all", tag="mc") if rq else None
    # programs x dialects
    if sources is None:
        import c07
        srcs, _, _, _ = c07.build_sources(tier, d, rnd, tag=f"{pid}-be")
        sources = [{"id": s["id"], "src": s["src"]} for s in srcs]
        if tier == "quick":
            fixed = [s for s in sources if not s["id"].startswith("g")]
            gen_ = [s for s in sources if s["id"].startswith("g")]
            sources = rnd.sample(fixed, min(len(fixed), 700)) + rnd.sample(gen_, min(len(gen_), 900))
    sources = sources + [{"id": f"hand{i}", "src": x} for i, x in enumerate(HAND)] + [dict(x, id="self-" + x["id"]) for x in B.SELF_SRCS]
    # sort inference (spec/SortInfer.tla): the design-level check belongs to C03; its program family also to C01
    smc = None
    if pid == "C03":
        smc = B.sort_mc(tier)
        if not smc["holds"]:
            rep.violation({"property": pid, "kind": "sortinfer-design", "tlc": smc.get("error_text", "")[:6000],
                           "explanation": "SortMC: the sort-inference machine of spec/SortInfer.tla post-processes a query of the bound into one whose sorts do not satisfy the Verdict against the Meaning of the query"},
                          {"what": "sortinfer-design", "tlc": smc.get("error_text", "")})
    if pid in ("C01", "C03"):
        fam = sort_family()
        sources = sources + (fam if tier == "thorough" else rnd.sample(fam, 150))
    r2 = B.run(d, sources, dialects="all", tag="src")
    nrel = 0
    for r in (r1, r2):
        if r is None:
            continue
        for rec in r["rejects"]:
            if not relevant(pid, rec):
                continue
            nrel += 1
            src = rec["source"].get("src") or json.dumps(rec["source"].get("rq"))
            rep.violation({"property": pid, "kind": "backend-" + rec["verdict"], "dialect": rec["dialect"], "id": rec["id"], "prql": rec["source"].get("src"),
                           "rq": rec["source"].get("rq"), "sql": rec["sql"], "what_was_built": B.describe(rec), "pair": _kinds(rec), "event": rec["event"],
                           "trace_file": rec["trace_file"], "line": rec["line"]},
                          {"what": "backend-" + rec["verdict"], "dialect": rec["dialect"], "sql": rec["sql"] or "", "src": src, "built": B.describe(rec),
                           "stmt": rec["event"].get("sql", "")})
    drift = (r1["drift"] if r1 else []) + r2["drift"]
    if drift:
        log(f"[backend] DRIFT: {len(drift)} split(s) of the code differ from the machine of spec/Backend.tla (not a violation); first: "
            f"{drift[0]['id']} {drift[0]['dialect']} {B.describe(drift[0])}")
    cov = {"backend_machine": {
        "design_level": {"states": info.get("distinct"), "transitions": info.get("generated"), "pipelines": len(pipes),
                         "bound": info.get("bound"), "deeper": info.get("deeper"), "take_composition_law": info.get("window_law"),
                         "invariants": ["EmittedOk", "NoLoss", "Progress", "Closed"], "holds": not info.get("design_violation", False),
                         "machine_as_found_violates": info.get("unrepaired_machine_violates")},
        "replay_of_model_pipelines": None if r1 is None else {"pipelines": len(sample), "compilations": r1["compiled"] + r1["errors"] + r1["panics"], "splits": r1["splits"], "selects": r1["selects"], "drift": len(r1["drift"])},
        "programs": {"sources": len(sources), "dialects": 12, "compiled": r2["compiled"], "errors": r2["errors"], "panics": r2["panics"],
                     "splits_validated": r2["splits"], "selects_validated": r2["selects"], "sort_inferences_validated": r2["posts"] + (r1["posts"] if r1 else 0),
                     "drift": len(r2["drift"])},
        "sort_inference_machine": None if smc is None else dict(smc, explanation="spec/SortInfer.tla transcribes postprocess::infer_sorts (the sorting carried through each atomic pipeline and from CTE to CTE, materialised in front of LIMIT / DISTINCT ON and at the end) as a machine and states what C03 means for the same compiled query; SortMC checks machine against meaning on every query of the bound; BackendTrace (event Post) checks the real pass against the meaning and compares it with the machine"),
        "rejections_relevant_here": nrel, "selftest": st,
        "explanation": "spec/Backend.tla transcribes anchor::split_off_back (is_split_required, get_requirements, can_materialize, Complexity) as a machine; BackendMC checks on every abstract pipeline of the bound that each SELECT it cuts out evaluates, in SQL's clause order and under SQL's nesting rules, to what its transforms mean in order; BackendTrace validates the same on the splits and SELECT assemblies the real back end performed (hook events), and compares each real split with the machine's"}}
    states = (info.get("distinct") or 0) + (r1["states"] if r1 else 0) + r2["states"]
    states += (smc or {}).get("states") or 0
    return cov, states, (r1["splits"] + r1["selects"] + r1["posts"] if r1 else 0) + r2["splits"] + r2["selects"] + r2["posts"]
