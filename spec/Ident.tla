------------------------------ MODULE Ident ------------------------------
(* C09 - an identifier written in PRQL refers, in the emitted SQL, to the  *)
(* database object of exactly that name.                                   *)
(* A name is a record [s: the name, cps: its code points, lower: the name  *)
(* lower-cased].  The SQL token that stands for it must carry exactly that *)
(* name, and it must be QUOTED whenever the bare spelling would not mean   *)
(* "the object of that name" to the engine:                                *)
(*   - it is not a simple lower-case identifier (engines fold or reject    *)
(*     the bare form), or                                                  *)
(*   - it is a word the engine reserves or evaluates (SQL-92 reserved      *)
(*     words, niladic functions such as current_date).                     *)
EXTENDS Integers, Sequences, FiniteSets, TLC

IsLower(c) == c >= 97 /\ c <= 122
IsDigit(c) == c >= 48 /\ c <= 57
Simple(cps) == /\ cps # <<>>
               /\ (IsLower(cps[1]) \/ cps[1] = 95)
               /\ \A i \in 1 .. Len(cps) : IsLower(cps[i]) \/ IsDigit(cps[i]) \/ cps[i] = 95

\* words that never denote a column / table when written bare (sample of the SQL standard's reserved
\* words and of the niladic functions every engine evaluates)
MustQuote == {"select", "from", "where", "group", "order", "by", "table", "user", "current_date", "current_time",
              "current_timestamp", "current_user", "session_user", "null", "true", "false", "case", "when", "then",
              "else", "end", "and", "or", "not", "in", "is", "as", "on", "join", "left", "right", "union", "all",
              "distinct", "limit", "offset", "having", "with", "create", "insert", "update", "delete", "values", "into"}

NeedQuote(n) == ~Simple(n.cps) \/ n.lower \in MustQuote

\* quote characters an engine accepts for identifiers: 34 ", 96 `, 91 [
QuoteOk(d, q) ==
  CASE d \in {"mysql", "bigquery", "clickhouse"} -> q \in {96, 34}
    [] d = "mssql" -> q \in {34, 91}
    [] d = "sqlite" -> q \in {34, 96, 91}
    [] OTHER -> q = 34

\* tok: [found, value, quoted, q] - the token of the emitted SQL at the identifier's place
\* `$` inside a name: most engines accept it bare after the first character, the SQL standard (ansi)
\* does not; where it is accepted bare the tokenizer used as oracle may still split it, so only the
\* engine's verdict (SQLite) and the quoted form are judged
HasDollar(n) == \E i \in 1 .. Len(n.cps) : n.cps[i] = 36
TokenOk(d, n, tok) ==
  IF HasDollar(n) /\ d # "ansi" /\ ~tok.quoted /\ n.cps[1] # 36 THEN TRUE
  ELSE /\ tok.found /\ tok.value = n.s
       /\ NeedQuote(n) => (tok.quoted /\ QuoteOk(d, tok.q))
\* ---- the statement printer of the default options (format = true; see Literal.tla): quoted identifiers ----
\* Transcribed from sqlformat 0.3.5 (get_string_token): "..." ends at the first quote that is not consumed as the second half
\* of a pair "" or \" ; `...` knows the pair `` only, [...] the pair ]] only.  The printer keeps an identifier iff its lexer
\* finds the end where the emission (quote, name with the closing quote doubled, quote) put it.
RECURSIVE LexPrinterQ(_, _, _)
LexPrinterQ(txt, q, escs) ==      \* txt: after the opening quote; TRUE iff the token ends with the text
  IF txt = <<>> THEN FALSE
  ELSE IF Head(txt) \in escs /\ Len(txt) >= 2 /\ txt[2] = q THEN LexPrinterQ(SubSeq(txt, 3, Len(txt)), q, escs)
  ELSE IF Head(txt) = q THEN Tail(txt) = <<>>
  ELSE LexPrinterQ(Tail(txt), q, escs)
RECURSIVE DoubledQ(_, _)
DoubledQ(v, q) == IF v = <<>> THEN <<>> ELSE (IF Head(v) = q THEN <<q, q>> ELSE << Head(v) >>) \o DoubledQ(Tail(v), q)
PrinterKeepsIdent(n, q) ==
  LET close == IF q = 91 THEN 93 ELSE q
  IN LexPrinterQ(DoubledQ(n.cps, close) \o << close >>, close, IF q = 34 THEN {34, 92} ELSE {close})
=======================================================================
