---------------------------- MODULE Totality ----------------------------
(* C12 - no input makes a public entry point panic, abort or hang.        *)
(* Every entry point, applied to any input, RETURNS: a value or a list of *)
(* errors.  The monitor has actions for exactly these two outcomes; a     *)
(* panic, a crash of the process or a time-out has no action and is       *)
(* reported.  Growth: on a family of inputs of doubling size the time may *)
(* grow by at most a fixed factor per doubling (a small polynomial).      *)
EXTENDS Integers, Sequences, FiniteSets, TLC

Returned(r) == r.outcome \in {"ok", "err"}
\* index of the first result that did not return (0 = all returned)
FirstBad(rs) == IF \E i \in 1 .. Len(rs) : ~Returned(rs[i])
                THEN CHOOSE i \in 1 .. Len(rs) : ~Returned(rs[i]) /\ \A j \in 1 .. (i - 1) : Returned(rs[j])
                ELSE 0

\* time per doubling: T(2n) <= Factor * T(n) once T(n) is above the noise floor (microseconds)
Factor == 10        \* cubic growth (8x) plus slack
Floor == 20000
GrowthOk(prevUs, curUs) == prevUs < Floor \/ curUs <= Factor * prevUs
=======================================================================
