SPECIFICATION Spec
INVARIANT RoundTripMin
INVARIANT RoundTripFull
INVARIANT MinIsSmaller
INVARIANT Emit
CHECK_DEADLOCK FALSE
