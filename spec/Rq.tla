------------------------------- MODULE Rq -------------------------------
(* C16 - every relational query (RQ) the resolver returns is closed and  *)
(* consistently identified.  A monitor over a walk of the public RQ      *)
(* value (tables in declaration order, then the main relation; inside a  *)
(* pipeline, transforms in order).  The enabling condition of each       *)
(* action IS the invariant the property states.                          *)
EXTENDS Integers, Sequences, FiniteSets, TLC

\* monitor state
\*   declT : table ids declared so far
\*   defC  : column ids defined anywhere so far (each id is defined once)
\*   aggC  : ids defined by a Compute flagged is_aggregation
\*   vis   : ids visible at this point of the current pipeline
\*   pos   : number of transforms seen in the current pipeline (0 = none)
\*   last  : kind of the previous transform, ncols: declared arity
\*   inPipe, loopDepth
M0 == [declT |-> {}, defC |-> {}, aggC |-> {}, vis |-> {}, pos |-> 0, last |-> "", lastN |-> 0,
       ncols |-> 0, inPipe |-> FALSE, loop |-> 0, curT |-> -2]

Set(s) == { s[i] : i \in 1 .. Len(s) }
Distinct(s) == Cardinality(Set(s)) = Len(s)

\* may the monitor take event e in state m?  (the invariants)
Enabled(m, e) ==
  CASE e.ev = "TableDecl" -> ~m.inPipe /\ e.tid \notin m.declT           \* a table id is declared once
    [] e.ev = "Main"      -> ~m.inPipe
    [] e.ev = "PipeBegin" -> ~m.inPipe
    [] e.ev = "PipeEnd"   -> m.inPipe /\ m.loop = 0
                             /\ m.last = "Select" /\ m.lastN = m.ncols       \* ends with a select of the declared arity
    [] e.ev \in {"From", "Join", "Append"} ->
         /\ m.inPipe
         /\ (e.ev = "From") = (m.pos = 0 \/ (m.loop > 0 /\ m.last = "LoopBegin"))   \* a pipeline starts with from, and only there
         /\ e.tid \in m.declT                                               \* referenced table declared earlier
         /\ Distinct(e.defs) /\ Set(e.defs) \cap m.defC = {}                 \* fresh column ids per instance
         /\ Set(e.uses) \subseteq (m.vis \cup Set(e.defs))                   \* join condition sees both sides
    [] e.ev = "Compute"   ->
         /\ m.inPipe /\ m.pos > 0
         /\ Set(e.defs) \cap m.defC = {}                                     \* defined exactly once
         /\ Set(e.uses) \subseteq m.vis                                      \* uses (incl. window partition/sort/frame) visible
    [] e.ev \in {"Filter", "Sort", "Take", "Select"} ->
         m.inPipe /\ m.pos > 0 /\ Set(e.uses) \subseteq m.vis
    [] e.ev = "Aggregate" ->
         /\ m.inPipe /\ m.pos > 0
         /\ Set(e.uses) \subseteq m.vis /\ Set(e.compute) \subseteq m.vis
         /\ Set(e.compute) \subseteq m.aggC                                  \* aggregated columns are aggregation computes
    [] e.ev = "LoopBegin" -> m.inPipe /\ m.pos > 0
    [] e.ev = "LoopEnd"   -> m.inPipe /\ m.loop > 0
    [] OTHER -> FALSE

Step(m, e) ==
  CASE e.ev = "TableDecl" -> [m EXCEPT !.curT = e.tid, !.ncols = e.ncols,
                                       \* a non-pipeline relation is complete at its declaration
                                       !.declT = IF e.kind = "Pipeline" THEN m.declT ELSE m.declT \cup {e.tid}]
    [] e.ev = "Main"      -> [m EXCEPT !.curT = -1]
    [] e.ev = "PipeBegin" -> [m EXCEPT !.inPipe = TRUE, !.pos = 0, !.vis = {}, !.last = "", !.ncols = e.ncols, !.loop = 0]
    [] e.ev = "PipeEnd"   -> [m EXCEPT !.inPipe = FALSE, !.declT = IF m.curT >= 0 THEN m.declT \cup {m.curT} ELSE m.declT]
    [] e.ev \in {"From", "Join"} ->
         [m EXCEPT !.defC = m.defC \cup Set(e.defs), !.vis = m.vis \cup Set(e.defs), !.pos = m.pos + 1, !.last = e.ev]
    \* the ids of an appended table instance are defined, but they are not
    \* columns of the enclosing pipeline (rows are matched by position)
    [] e.ev = "Append" ->
         [m EXCEPT !.defC = m.defC \cup Set(e.defs), !.pos = m.pos + 1, !.last = e.ev]
    [] e.ev = "Compute"   ->
         [m EXCEPT !.defC = m.defC \cup Set(e.defs), !.vis = m.vis \cup Set(e.defs), !.pos = m.pos + 1, !.last = e.ev,
                   !.aggC = IF e.agg THEN m.aggC \cup Set(e.defs) ELSE m.aggC]
    [] e.ev = "Select"    -> [m EXCEPT !.pos = m.pos + 1, !.last = "Select", !.lastN = Len(e.uses)]
    [] e.ev = "LoopBegin" -> [m EXCEPT !.loop = m.loop + 1, !.pos = m.pos + 1, !.last = "LoopBegin"]
    [] e.ev = "LoopEnd"   -> [m EXCEPT !.loop = m.loop - 1, !.last = "LoopEnd"]
    [] OTHER              -> [m EXCEPT !.pos = m.pos + 1, !.last = e.ev]
=======================================================================
