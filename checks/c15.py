"""C15: staged compilation through JSON equals one-shot compile (spec/Stages.tla)."""
import sys, os, json, random, copy
sys.path.insert(0, os.path.join(os.path.dirname(os.path.abspath(__file__)), "..", "lib"))
from vlib import *
from progs import *
import l1, gen, corpus, l1props, c16
from concurrent.futures import ThreadPoolExecutor

_nd = {}
def nondet(src, dialect, d):
    """is prqlc::compile itself non-deterministic on this source? (then path disagreement is C11's finding)"""
    key = (src, dialect)
    if key not in _nd:
        p = os.path.join(d, "nd.prql"); open(p, "w").write(src)
        r = pv(["repeat", p, dialect or "-", "24"], check=False)
        try:
            j = json.loads(r.stdout)
            _nd[key] = ("sql" if j["outputs"][0].startswith("SQL") else "err") if j["distinct"] > 1 else "no"
        except Exception:
            _nd[key] = "no"
    return _nd[key]

# every optional / list-valued field of the PL and RQ nodes once empty (or at its default) and once not: what a serde
# attribute (skip_serializing_if, default) decides
EDGE = [
    "let top = n:5 rel -> (rel | take n)\nfrom t | top n:3",                       # a call whose arguments are all named
    "let top = n:5 rel -> (rel | take n)\nfrom t | top",                           # ... and none at all (bare reference through the pipe)
    "let two = -> 2\nfrom t | derive {v = two}",                                   # a function without parameters
    "let f = a b:1 c:2 -> a + b + c\nfrom t | derive {v = f k c:3, w = f k}",
    "let f = func a <int> -> <int> a + 1\nfrom t | derive {v = f k}",
    "from t | select {}", "from t | derive {}", "from t | derive {v = []}", "from t | derive {v = [1]}", "from t | derive {v = case []}",
    "from t | derive {v = (a | in ..)}", "from t | derive {v = (a | in 1..)}", "from t | derive {v = (a | in ..2)}",
    "from t | derive {v = f\"plain\"}", "from t | derive {v = f\"\"}", "from t | derive {v = s\"\"}", "from t | derive {v = \"\"}", "from t | derive {v = r\"\"}",
    "from t | derive {v = null, w = true, x = 1, y = 1.5, z = 'q', d = @2020-01-01, e = @10:00, g = @2020-01-01T10:00:00, h = 2days}",
    "module m {\n}\nfrom t", "module m {\n  module n {\n    let c = 1\n  }\n}\nfrom t | derive {v = m.n.c}",
    "module m {\n  let c = 1\n}\nimport m.c\nfrom t | derive {v = c}", "module m {\n  let c = 1\n}\nimport d = m.c\nfrom t | derive {v = d}",
    "type small = int\nfrom t", "let c <int> = 1\nfrom t | derive {v = c}", "let rel <[{k = int}]> = (from t | select {k})\nfrom rel",
    "prql target:sql.postgres\nfrom t", "prql version:\"0\"\nfrom t", "prql target:sql.sqlite version:\"0\"\nfrom t | take 1",
    "@{binding_strength=11}\nlet plus = a b -> a + b\nfrom t | derive {v = plus 1 2}", "#! doc\nlet c = 1\nfrom t | derive {v = c}",
    "from t | derive {total = sum a}", "from t | sort k | derive {r = sum a}", "from t | group k (derive {r = sum a})",
    "from t | window rows:-1..1 (derive {r = sum a})", "from t | window range:..0 (sort k | derive {r = sum a})", "from t | window expanding:true (derive {r = sum a})",
    "from t | take 3..", "from t | take ..3", "from t | take 2..3", "from t | sort {}", "from t | aggregate {n = count this}", "from t | group {} (aggregate {n = count this})",
    "from t | join side:full u (==k)", "from t | join u true", "from t | append u", "from t | select {k} | loop (filter k < 3 | select {k = k + 1})",
    "from []", "from [{a = 1}]", "from [{a = null, b = 'x'}]", "from s\"SELECT 1 AS a\"", "from (read_csv 'x.csv')", "from (from_text format:json '[]')",
    "from t | derive {v = a ?? null, w = -a, x = !true, y = a == null}", "from t | filter k > $1 | take 2",
    "let t2 = (from t | take 1)\nfrom t2 | join t2b = t2 (==k)", "from t\ninto res\nfrom res",
    "from t | derive {v = 1e999}", "from t | derive {v = -1e999}", "from t | filter a < 1e308",
]

def check(tier):
    rep = Report("C15", tier)
    d = workdir("C15")
    build_harness()
    out, info = tlc("StagesMC", "StagesMC.cfg", workers=1)
    if not info["no_error"]:
        raise ToolError("StagesMC: " + info.get("error_text", "")[:1500])
    paths = replay_lines(out)
    write_ndjson(os.path.join(d, "paths.ndjson"), paths)
    rnd = random.Random(seed())
    dbset = os.path.join(ROOT, "corpus", "dbs_quick.json")
    srcs = [{"id": f"s{i}", "src": s} for i, s in enumerate(corpus.SYNTAX)]
    srcs += [{"id": f"h{i}", "src": s} for i, s in enumerate(c16.HAND)]
    srcs += [{"id": f"ef{i}", "src": s} for i, s in enumerate(EDGE)]
    srcs += [{"id": "q-" + n, "src": s} for n, s in corpus.repo_queries()]
    book = corpus.book_snippets()
    srcs += [{"id": "b-" + n, "src": s} for n, _, s in (book if tier == "thorough" else rnd.sample(book, min(len(book), 80)))]
    g = gen.G(seed(), safe=False, p_shadow=0.1)
    progs = [g.program(i) for i in range(150 if tier == "quick" else 3000)]
    m = model([from_("t")], l1props.alph_c10(), 3)
    p1, info1 = l1.mc_generate("C15-mc", m, dbset, workers=8)
    progs += (p1 if tier == "thorough" else rnd.sample(p1, min(len(p1), 300)))
    for i, p in enumerate(progs):
        p["id"] = f"g{i}"
        if i % 3 == 0:
            p["decl"] = False
    write_ndjson(os.path.join(d, "progs.ndjson"), progs)
    pv(["render-ndjson", dbset, os.path.join(d, "progs.ndjson"), os.path.join(d, "gsrc.ndjson")])
    srcs += read_ndjson(os.path.join(d, "gsrc.ndjson"))
    dialects = [None, "sqlite", "postgres", "mssql"] if tier == "quick" else [None, "ansi", "bigquery", "clickhouse", "duckdb", "generic", "glaredb", "mssql", "mysql", "postgres", "redshift", "sqlite", "snowflake"]
    cfgs = [{"dialect": dl, "format": False, "signature": False} for dl in dialects]
    cfgs += [{"dialect": "postgres", "format": True, "signature": False}, {"dialect": None, "format": True, "signature": True}]
    json.dump(cfgs, open(os.path.join(d, "cfgs.json"), "w"))
    # shard sources
    per = 120
    shards = [srcs[i:i + per] for i in range(0, len(srcs), per)]
    def run(i):
        sp = os.path.join(d, f"src{i}.ndjson"); write_ndjson(sp, shards[i])
        ev = os.path.join(d, f"ev{i}.ndjson")
        pv(["stages", os.path.join(d, "paths.ndjson"), sp, os.path.join(d, "cfgs.json"), ev])
        return ev, tlc("StagesTrace", "StagesTrace.cfg", env={"TRACE": ev}, workers=1, deque=True, xmx="6g")
    with ThreadPoolExecutor(max_workers=6) as ex:
        results = list(ex.map(run, range(len(shards))))
    src_of = {s["id"]: s["src"] for s in srcs}
    nvalid = 0; tstates = 0
    for ev, (tout, tinfo) in results:
        tr = tuples(tout, "TRACE")
        if not tinfo["no_error"] or not tr or tr[0][1] != tr[0][2]:
            open(ev + ".tlc.out", "w").write(tout)
            raise ToolError("StagesTrace did not consume the trace: " + tinfo.get("error_text", tout[-1200:])[:1500])
        tstates += tinfo.get("distinct", 0)
        c = tuples(tout, "COUNTS"); nvalid += c[-1][1] if c else 0
        for r in tuples(tout, "REJECT"):
            sid, ci = r[1].rsplit("#", 1)
            nd = nondet(src_of.get(sid, ""), cfgs[int(ci)]["dialect"], d)
            rep.violation({"property": "C15", "kind": "stage-" + r[2] + "->" + str(r[3]), "prql": src_of.get(sid), "config": cfgs[int(ci)],
                           "function": r[2], "at_node": r[3], "trace_file": os.path.relpath(ev, ROOT), "line": r[4]},
                          {"what": "stages", "f": r[2], "dst": str(r[3]), "src": src_of.get(sid, ""), "nondet": nd})
    # binding demonstration: change one artefact id on a staged path -> the diagram no longer commutes
    evs = read_ndjson(results[0][0])[:3000]
    k = 0
    for e in evs:
        if e["event"] == "Apply" and e["f"] == "gen" and e["dst"] == "out":
            k += 1
            if k == 3:
                e["id"] += 1000; break
    write_ndjson(os.path.join(d, "bad.ndjson"), evs + [{"event": "End"}])
    bout, _ = tlc("StagesTrace", "StagesTrace.cfg", env={"TRACE": os.path.join(d, "bad.ndjson")}, workers=1, deque=True)
    base, _ = tlc("StagesTrace", "StagesTrace.cfg", env={"TRACE": results[0][0]}, workers=1, deque=True)
    if len(tuples(bout, "REJECT")) < 1:
        raise ToolError("C15 selftest: corrupted artefact id not rejected")
    cov = {"states": info["distinct"] + tstates, "transitions": info["generated"] + tstates, "traces_validated_against_impl": nvalid,
           "samples": [paths[0], paths[-1], {"src": srcs[5]["src"]}, {"src": srcs[-1]["src"]}], "exhaustive": False,
           "explanation": f"StagesMC: all {len(paths)} paths source->SQL|error with each JSON round trip taken 0..2 times; walked by pv for {len(srcs)} sources (syntax-rich set covering every PR node kind, erroneous sources, repository queries, book snippets, generated programs) x {len(cfgs)} configurations; {nvalid} (source, configuration) diagrams validated by StagesTrace",
           "sources": len(srcs), "configurations": cfgs, "paths": len(paths), "selftest": {"corrupted": 1, "rejected": len(tuples(bout, 'REJECT'))}}
    return rep.finish("model_checking", cov, ["artefact identity: PartialEq for PL/RQ values, bytes for JSON and SQL, (code, reason, span, hints) for errors (display/location are filled only where the source text is available)"])
