--------------------------- MODULE LiteralTrace ---------------------------
(* Trace validation for C08 (strings): for every literal of LiteralMC the   *)
(* value SQLite returned for the emitted expression, and the string token   *)
(* every dialect's tokenizer reads from the emitted SQL, must be the value  *)
(* the specification assigns; the statement around the literal must keep    *)
(* its shape (sentinel column w = 7, one row, same token kinds as for 'x'). *)
EXTENDS Literal, Json, IOUtils
Rec == ndJsonDeserialize(IOEnv.TRACE)
VARIABLES l, n, nrej
vars == <<l, n, nrej>>
TInit == l = 1 /\ n = 0 /\ nrej = 0
Ev == Rec[l]
Consume == l <= Len(Rec) /\ l' = l + 1

Refs == Consume /\ Ev.event = "Refs" /\ UNCHANGED <<n, nrej>>

Expected(lit) == IF lit.raw THEN RawValue(lit.pieces) ELSE Value(lit.pieces)
\* dialects whose lexers treat a backslash as an escape character (engine documentation)
BackslashDialects == {"mysql", "bigquery", "clickhouse", "snowflake", "redshift"}

DialectOk(dd, v) == dd.compiled /\ dd.shape_ok /\ dd.nstr = 1 /\ dd.val = v
SqliteOk(s, v) == s.ran /\ s.nrows = 1 /\ s.w = 7 /\ s.istext /\ s.v = v

\* first failing aspect, for the report
Fault(e) ==
  LET v == Expected(e.lit) IN
  IF ~SqliteOk(e.sqlite, v) THEN "sqlite-value"
  ELSE IF \E i \in 1 .. Len(e.dialects) : ~DialectOk(e.dialects[i], v)
    THEN "token:" \o (e.dialects[CHOOSE i \in 1 .. Len(e.dialects) : ~DialectOk(e.dialects[i], v)]).d
  ELSE "ok"

\* the statement as the default options print it (format = true) consists of the same tokens - kinds, words, numbers and
\* the code points of every string token - as the compact statement, under the tokenizer of its dialect
\* Literal.tla says which literals that printer can keep (PrinterKeeps: its lexer takes a backslash as an escape whatever the
\* dialect); a statement changed although the specification says the literal is kept is "format", one changed where the
\* specification predicts it is "printer" (finding F124, decided by the specification and not by a pattern on the text)
FmtFault(e) ==
  IF \E i \in 1 .. Len(e.dialects) : ~e.dialects[i].fmt_same
    THEN (IF PrinterKeeps(Expected(e.lit)) THEN "format:" ELSE "printer:")
         \o (e.dialects[CHOOSE i \in 1 .. Len(e.dialects) : ~e.dialects[i].fmt_same]).d
  ELSE "ok"

Lit ==
  /\ Consume /\ Ev.event = "Lit" /\ n' = n + 1
  /\ LET f == Fault(Ev)
         g == FmtFault(Ev) IN
     /\ nrej' = nrej + (IF f = "ok" THEN 0 ELSE 1) + (IF g = "ok" THEN 0 ELSE 1)
     /\ (f = "ok" \/ PrintT(<<"REJECT", Ev.id, f, ToJson(Ev.spelling), l>>))
     /\ (g = "ok" \/ PrintT(<<"REJECT", Ev.id, g, ToJson(Ev.spelling), l>>))
End == Consume /\ Ev.event = "End" /\ PrintT(<<"COUNTS", n, nrej>>) /\ UNCHANGED <<n, nrej>>
TNext == Refs \/ Lit \/ End
TraceSpec == TInit /\ [][TNext]_vars
TraceAccepted ==
  LET d == TLCGet("stats").diameter IN
  /\ PrintT(<<"TRACE", d - 1, Len(Rec)>>)
  /\ d - 1 = Len(Rec)
=======================================================================
