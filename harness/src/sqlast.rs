//! C07: compile each source for each dialect, re-parse the emitted text with sqlparser's parser
//! for that dialect and record the statement AST (serde form) for the scope walk of
//! lib/sqlwalk.py; for sqlite/generic also sqlite3_prepare against a schema.
use crate::{api, db};
use serde_json::{json, Value as J};
use sqlparser::dialect::*;
use std::io::Write;

pub fn dialect_of(d: &str) -> Box<dyn Dialect> {
    match d {
        "ansi" => Box::new(AnsiDialect {}),
        "bigquery" => Box::new(BigQueryDialect {}),
        "clickhouse" => Box::new(ClickHouseDialect {}),
        "duckdb" => Box::new(DuckDbDialect {}),
        "mssql" => Box::new(MsSqlDialect {}),
        "mysql" => Box::new(MySqlDialect {}),
        "postgres" | "glaredb" => Box::new(PostgreSqlDialect {}),
        "redshift" => Box::new(RedshiftSqlDialect {}),
        "sqlite" => Box::new(SQLiteDialect {}),
        "snowflake" => Box::new(SnowflakeDialect {}),
        _ => Box::new(GenericDialect {}),
    }
}

/// args: <sources.ndjson {"id","src"[,"schema":{table:[cols]}]}> <out.ndjson> [dialects comma separated | all] [default schema json file]
pub fn main(args: &[String]) -> i32 {
    let dialects: Vec<String> = match args.get(2).map(|s| s.as_str()) {
        None | Some("all") => api::DIALECTS.iter().map(|s| s.to_string()).collect(),
        Some(l) => l.split(',').map(|s| s.to_string()).collect(),
    };
    let default_schema: J = args
        .get(3)
        .map(|p| serde_json::from_str::<J>(&std::fs::read_to_string(p).expect("schema")).expect("json")["schema"].clone())
        .unwrap_or(J::Null);
    let mut out = std::io::BufWriter::new(std::fs::File::create(&args[1]).expect("out"));
    for l in std::fs::read_to_string(&args[0]).expect("sources").lines() {
        if l.trim().is_empty() {
            continue;
        }
        let rec: J = serde_json::from_str(l).expect("json");
        let src = rec["src"].as_str().unwrap_or("");
        let schema = if rec["schema"].is_object() { rec["schema"].clone() } else { default_schema.clone() };
        // base tables the program names: the extern references of its RQ
        let tables: Vec<String> = match api::guarded(|| prqlc::prql_to_pl(src).and_then(prqlc::pl_to_rq)) {
            api::Outcome::Ok(rq) => {
                let j = serde_json::to_value(&rq).unwrap_or(J::Null);
                j["tables"].as_array().map(|a| a.iter().filter_map(|t| {
                    t["relation"]["kind"]["ExternRef"]["LocalTable"].as_array().and_then(|p| p.last()).and_then(|x| x.as_str()).map(|x| x.to_string())
                }).collect()).unwrap_or_default()
            }
            _ => vec![],
        };
        for d in &dialects {
            let mut e = json!({"id": rec["id"], "dialect": d, "tables": tables});
            match api::compile(src, Some(d)) {
                api::Outcome::Err(m) => {
                    e["outcome"] = json!("err");
                    e["reason"] = json!(m.inner.first().map(|x| x.reason.clone()).unwrap_or_default());
                }
                api::Outcome::Panic { msg, file, line } => {
                    e["outcome"] = json!("panic");
                    e["reason"] = json!(format!("{file}:{line}:{msg}"));
                }
                api::Outcome::Ok(sql) => {
                    e["outcome"] = json!("sql");
                    e["sql"] = json!(sql);
                    // the statement as the default options print it (format = true): the same tokens under the dialect's tokenizer
                    match api::compile_formatted(src, Some(d)) {
                        api::Outcome::Ok(fsql) => {
                            let (a, b) = (crate::literal::tokens(d, &sql), crate::literal::tokens(d, &fsql));
                            let unreadable = |x: &(Vec<String>, Vec<Vec<u32>>)| x.0.first().map_or(false, |t| t.starts_with("TOKENIZE-ERROR"));
                            let same = (unreadable(&a) && unreadable(&b)) || a == b;
                            e["fmt_same"] = json!(same);
                            if !same {
                                e["fmt_sql"] = json!(fsql);
                            }
                        }
                        _ => {
                            e["fmt_same"] = json!(false);
                            e["fmt_sql"] = json!("(the formatted compilation did not return a statement)");
                        }
                    }
                    let dl = dialect_of(d);
                    let mut parsed = sqlparser::parser::Parser::parse_sql(&*dl, &sql);
                    if parsed.is_err() && d == "clickhouse" && sql.contains(" DIV ") {
                        // oracle limit L1 (corpus/oracle_limits.json): ClickHouse documents `a DIV b`, sqlparser's
                        // grammar for it lacks the operator; read it as the infix operator of the same precedence
                        parsed = sqlparser::parser::Parser::parse_sql(&*dl, &sql.replace(" DIV ", " / "));
                        e["oracle_limit"] = json!("L1");
                    }
                    match parsed {
                        Err(pe) => {
                            e["parse_error"] = json!(pe.to_string());
                        }
                        Ok(stmts) => {
                            e["parse_error"] = json!("");
                            e["nstmt"] = json!(stmts.len());
                            e["ast"] = serde_json::to_value(&stmts).unwrap_or(J::Null);
                        }
                    }
                    if (d == "sqlite" || d == "generic") && schema.is_object() {
                        let r = db::open(&schema, &J::Null).map_err(|x| x.to_string()).and_then(|c| {
                            let r = c.prepare(&sql).map(|st| st.column_count()).map_err(|x| x.to_string());
                            r
                        });
                        match r {
                            Ok(n) => {
                                e["prepare"] = json!("ok");
                                e["prepare_cols"] = json!(n);
                            }
                            Err(x) => {
                                e["prepare"] = json!(x);
                            }
                        }
                    }
                }
            }
            writeln!(out, "{}", e).unwrap();
        }
    }
    0
}

/// args: <in.ndjson {"name","sql"}> <out.ndjson> <dialect> : parse given SQL texts (self-tests, calibration)
pub fn main_parse(args: &[String]) -> i32 {
    let mut out = std::io::BufWriter::new(std::fs::File::create(&args[1]).expect("out"));
    let dl = dialect_of(&args[2]);
    let schema: J = args.get(3).map(|p| serde_json::from_str::<J>(&std::fs::read_to_string(p).expect("schema")).expect("json")).unwrap_or(J::Null);
    for l in std::fs::read_to_string(&args[0]).expect("in").lines() {
        if l.trim().is_empty() {
            continue;
        }
        let rec: J = serde_json::from_str(l).expect("json");
        let sql = rec["sql"].as_str().unwrap_or("");
        let mut e = json!({"name": rec["name"], "sql": sql});
        match sqlparser::parser::Parser::parse_sql(&*dl, sql) {
            Err(pe) => e["parse_error"] = json!(pe.to_string()),
            Ok(stmts) => {
                e["parse_error"] = json!("");
                e["nstmt"] = json!(stmts.len());
                e["ast"] = serde_json::to_value(&stmts).unwrap_or(J::Null);
            }
        }
        if schema.is_object() {
            let r = db::open(&schema, &J::Null).map_err(|x| x.to_string()).and_then(|c| {
                let r = c.prepare(sql).map(|st| st.column_count()).map_err(|x| x.to_string());
                r
            });
            e["prepare"] = match r {
                Ok(_) => json!("ok"),
                Err(x) => json!(x),
            };
        }
        writeln!(out, "{}", e).unwrap();
    }
    0
}
