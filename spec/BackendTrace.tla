---------------------------- MODULE BackendTrace ----------------------------
(* Trace validation of the SQL back end against Backend.tla.  Events come   *)
(* from the guarded hooks (pv backend): per compilation a Reset, then one   *)
(* Split per anchor::split_off_back call (input, output columns, preceding, *)
(* atomic) and one Select per SELECT assembled (compiled atomic pipeline +  *)
(* the clauses of the statement text read back with the dialect's parser).  *)
(*   Split  : the recorded atomic pipeline must satisfy AtomicOk (clause    *)
(*            order, nesting) and the split must not lose, duplicate or     *)
(*            reorder a transform          -> REJECT (a violation)          *)
(*            the recorded split is compared with the machine's Split(..)   *)
(*                                         -> DRIFT (model and code differ; *)
(*                                            not a violation by itself)    *)
(*   Select : the statement has the clauses ShapeOf(pipeline) -> REJECT     *)
(*   Post   : the query before and after postprocess::infer_sorts: the sorts *)
(*            emitted must satisfy SortInfer's Verdict against the Meaning of *)
(*            the query (REJECT); the result is compared with the Machine's   *)
(*            (DRIFT)                                                         *)
(*   Names  : the names given to table declarations and relation instances    *)
(*            must satisfy Names.tla's Verdict (REJECT); the declarations'     *)
(*            names are compared with the machine's (DRIFT)                    *)
EXTENDS Backend, SortInfer, Names, Json, IOUtils

Rec == ndJsonDeserialize(IOEnv.TRACE)
VARIABLES l, cur, judge, nsplit, nselect, npre, nrej, ndrift, npost, nnames
vars == <<l, cur, judge, nsplit, nselect, npre, nrej, ndrift, npost, nnames>>
TInit == l = 1 /\ cur = <<"", "">> /\ judge = FALSE /\ nsplit = 0 /\ nselect = 0 /\ npre = 0 /\ nrej = 0 /\ ndrift = 0 /\ npost = 0 /\ nnames = 0
Ev == Rec[l]
Consume == l <= Len(Rec) /\ l' = l + 1

DeclOf(e) == [c \in { e.decl[i].id : i \in 1 .. Len(e.decl) } |-> (CHOOSE i \in 1 .. Len(e.decl) : e.decl[i].id = c) ]
DeclCx(e) == [c \in { e.decl[i].id : i \in 1 .. Len(e.decl) } |-> e.decl[CHOOSE i \in 1 .. Len(e.decl) : e.decl[i].id = c].cx]
NonSel(p) == Filt(p, LAMBDA t : t.k # "Select")
Ids(p) == [i \in 1 .. Len(p) |-> <<p[i].k, p[i].id>>]

SplitVerdict(e) ==
  IF NonSel(e.preceding) \o NonSel(e.atomic) # NonSel(e.input) THEN "loss"
  ELSE Verdict(e.atomic)
\* does the machine cut where the code cut, and ask for the same columns?
Drift(e) ==
  LET m == Split(e.input, e.output, DeclCx(e))
  IN \/ Ids(NonSel(m.atomic)) # Ids(NonSel(e.atomic))
     \/ Len(m.preceding) # Len(e.preceding)
     \/ Set(m.atomic[1].cols) # Set(e.atomic[1].cols)
     \/ (e.preceding # <<>> /\ Set(m.preceding[Len(m.preceding)].cols) # Set(e.preceding[Len(e.preceding)].cols))

\* the clauses of the statement against the compiled pipeline
ShapeVerdict(e) ==
  LET s == ShapeOf(e.pipe) g == e.shape IN
  IF ~g.parsed THEN "ok"                                   \* syntax is C07's
  ELSE IF g.from # s.from THEN "from"
  ELSE IF g.joins # s.joins THEN "joins"
  ELSE IF g.where # s.where THEN "where"
  ELSE IF g.having # s.having THEN "having"
  ELSE IF g.group # s.group /\ ~(g.group = 99) THEN "group-by"
  ELSE IF g.distinct # s.distinct THEN "distinct"
  ELSE IF g.limit # s.limit THEN "limit"
  ELSE IF s.limit # 0 /\ g.offset # s.offset THEN "offset"
  \* dialects that spell LIMIT as FETCH need an ORDER BY and add a constant one when the pipeline has none
  ELSE IF g.order # s.order /\ ~(g.fetch /\ s.order = 0 /\ g.order = 1) THEN "order-by"
  ELSE "ok"

Reset == /\ Consume /\ Ev.ev = "Reset" /\ cur' = <<Ev.id, Ev.dialect>> /\ judge' = (Ev.outcome = "sql")
         /\ UNCHANGED <<nsplit, nselect, npre, nrej, ndrift, npost, nnames>>
\* preprocess: what became of each RQ transform (group-takes, appends), and where the Computes went
PreEv ==
  /\ Consume /\ Ev.ev = "Pre"
  /\ IF ~judge THEN UNCHANGED <<npre, nrej, ndrift>>
     ELSE LET v == PreVerdict(Ev.input, Ev.output) d == PreDrift(Ev.output) IN
          /\ npre' = npre + 1
          /\ nrej' = nrej + (IF v = "ok" THEN 0 ELSE 1)
          /\ ndrift' = ndrift + (IF d THEN 1 ELSE 0)
          /\ (v # "ok" => PrintT(<<"REJECT", cur[1], cur[2], "preprocess-" \o v, l, <<0, 0>>>>))
          /\ (d => PrintT(<<"DRIFT", cur[1], cur[2], l, "reorder">>))
  /\ UNCHANGED <<cur, judge, nsplit, nselect, npost, nnames>>
SplitEv ==
  /\ Consume /\ Ev.ev = "Split"
  /\ IF ~judge THEN UNCHANGED <<nsplit, nrej, ndrift>>
     ELSE LET v == SplitVerdict(Ev) d == Drift(Ev) IN
          /\ nsplit' = nsplit + 1
          /\ nrej' = nrej + (IF v = "ok" THEN 0 ELSE 1)
          /\ ndrift' = ndrift + (IF d THEN 1 ELSE 0)
          /\ (v # "ok" => PrintT(<<"REJECT", cur[1], cur[2], v, l, FirstBadPair(Ev.atomic)>>))
          /\ (d => PrintT(<<"DRIFT", cur[1], cur[2], l, LET m == Split(Ev.input, Ev.output, DeclCx(Ev)) IN
                                 <<Ids(NonSel(m.atomic)), Len(m.preceding), m.atomic[1].cols, IF m.preceding = <<>> THEN <<>> ELSE m.preceding[Len(m.preceding)].cols>>>>))
  /\ UNCHANGED <<cur, judge, nselect, npre, npost, nnames>>
SelectEv ==
  /\ Consume /\ Ev.ev = "Select"
  /\ IF ~judge THEN UNCHANGED <<nselect, nrej>>
     ELSE LET v == ShapeVerdict(Ev) IN
          /\ nselect' = nselect + 1
          /\ nrej' = nrej + (IF v = "ok" THEN 0 ELSE 1)
          /\ (v # "ok" => PrintT(<<"REJECT", cur[1], cur[2], "assembly-" \o v, l, <<0, 0>>>>))
  /\ UNCHANGED <<cur, judge, nsplit, npre, ndrift, npost, nnames>>
\* sort inference: the emitted sorts against the meaning of the query; the code's result against the machine's
PostEv ==
  /\ Consume /\ Ev.ev = "Post"
  /\ IF ~judge THEN UNCHANGED <<npost, nrej, ndrift>>
     ELSE LET R == SetOf(Ev.R) A == SetOf(Ev.A) D == SetOf(Ev.D)
              vs == QueryVerdicts(Ev.before, Ev.after, R, A, D)
              dr == DriftAt(Ev.before, Ev.after, R, A)
          IN /\ npost' = npost + 1
             /\ nrej' = nrej + Cardinality(vs)
             /\ ndrift' = ndrift + (IF dr = {} THEN 0 ELSE 1)
             /\ \A x \in vs : PrintT(<<"REJECT", cur[1], cur[2], "sortinfer-" \o x[2], l, x[1]>>)
             /\ (dr # {} => PrintT(<<"DRIFT", cur[1], cur[2], l, <<"sortinfer", dr>>>>))
  /\ UNCHANGED <<cur, judge, nsplit, nselect, npre, nnames>>
\* the names given by QueryLoader::load / assign_names / RelVarNameAssigner
NamesEv ==
  /\ Consume /\ Ev.ev = "Names"
  /\ IF ~judge THEN UNCHANGED <<nnames, nrej, ndrift>>
     ELSE LET cfg == [decls |-> [i \in 1 .. Len(Ev.decls) |-> [name |-> Ev.decls[i].name, extern |-> Ev.decls[i].extern]],
                      selects |-> [k \in 1 .. Len(Ev.selects) |-> [i \in 1 .. Len(Ev.selects[k]) |-> [alias |-> Ev.selects[k][i].alias, src |-> Ev.selects[k][i].src]]]]
              real == [decls |-> [i \in 1 .. Len(Ev.decls) |-> [name |-> Ev.decls[i].out, extern |-> Ev.decls[i].extern]],
                       selects |-> [k \in 1 .. Len(Ev.selects) |-> [i \in 1 .. Len(Ev.selects[k]) |-> [alias |-> Ev.selects[k][i].out, src |-> Ev.selects[k][i].src]]]]
              v == NamesVerdict(cfg, real)
              m == AssignDecls(Load(cfg.decls), 0).decls
              dr == [i \in 1 .. Len(m) |-> m[i].name] # [i \in 1 .. Len(real.decls) |-> real.decls[i].name]
          IN /\ nnames' = nnames + 1
             /\ nrej' = nrej + (IF v = "ok" THEN 0 ELSE 1)
             /\ ndrift' = ndrift + (IF dr THEN 1 ELSE 0)
             /\ (v # "ok" => PrintT(<<"REJECT", cur[1], cur[2], "names-" \o v, l, <<0, 0>>>>))
             /\ (dr => PrintT(<<"DRIFT", cur[1], cur[2], l, <<"names", [i \in 1 .. Len(m) |-> m[i].name]>>>>))
  /\ UNCHANGED <<cur, judge, nsplit, nselect, npre, npost>>
End == Consume /\ Ev.ev = "End" /\ PrintT(<<"COUNTS", nsplit, nselect, nrej, ndrift, npre, npost, nnames>>) /\ UNCHANGED <<cur, judge, nsplit, nselect, npre, nrej, ndrift, npost, nnames>>

TNext == Reset \/ PreEv \/ SplitEv \/ SelectEv \/ PostEv \/ NamesEv \/ End
TraceSpec == TInit /\ [][TNext]_vars
TraceAccepted ==
  LET d == TLCGet("stats").diameter IN
  /\ PrintT(<<"TRACE", d - 1, Len(Rec)>>)
  /\ d - 1 = Len(Rec)
=============================================================================
