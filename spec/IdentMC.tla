----------------------------- MODULE IdentMC -----------------------------
(* Every name of at most MaxLen characters over the identifier alphabet,    *)
(* plus the words the specification says must be quoted (in lower, upper    *)
(* and capitalised spelling).  One state per name; every name is printed    *)
(* for replay through prqlc (as a column, a table, an alias).               *)
EXTENDS Ident, Json, IOUtils
Cfg == JsonDeserialize(IOEnv.IDENTCFG)      \* [chars: Seq(code point), maxlen, words: Seq([s, cps, lower])]
VARIABLES cps, word
vars == <<cps, word>>
Init == cps = <<>> /\ word = 0
Grow == /\ word = 0 /\ Len(cps) < Cfg.maxlen
        /\ \E i \in 1 .. Len(Cfg.chars) : cps' = Append(cps, Cfg.chars[i])
        /\ UNCHANGED word
PickWord == /\ cps = <<>> /\ word = 0 /\ \E i \in 1 .. Len(Cfg.words) : word' = i /\ cps' = Cfg.words[i].cps
Next == Grow \/ PickWord
Spec == Init /\ [][Next]_vars

\* sanity of the classification itself: a simple name that is not reserved never needs quoting, a name with a
\* character outside [a-z0-9_] always does
ClassOk == (cps # <<>> /\ \E i \in 1 .. Len(cps) : ~(IsLower(cps[i]) \/ IsDigit(cps[i]) \/ cps[i] = 95)) => ~Simple(cps)
\* (a backtick cannot be written inside a PRQL identifier; such names are not emitted)
Emit == (cps # <<>> /\ ~(\E i \in 1 .. Len(cps) : cps[i] = 96)) => PrintT(<<"REPLAY", ToJson([cps |-> cps, word |-> word])>>)
=======================================================================
