--------------------------- MODULE SpansTrace ---------------------------
EXTENDS Spans, Json, IOUtils
Rec == ndJsonDeserialize(IOEnv.TRACE)
VARIABLES l, n, nrej
vars == <<l, n, nrej>>
TInit == l = 1 /\ n = 0 /\ nrej = 0
Ev == Rec[l]
Consume == l <= Len(Rec) /\ l' = l + 1

FirstFault(e) ==
  IF \E i \in 1 .. Len(e.msgs) : MsgFault(e.msgs[i]) # "ok"
    THEN MsgFault(e.msgs[CHOOSE i \in 1 .. Len(e.msgs) : MsgFault(e.msgs[i]) # "ok"])
  ELSE IF e.nmsgs = 0 THEN "no-message"
  \* (a message need not carry a span; if one does, some located message must be at the offending text)
  ELSE IF e.has_planted /\ (\E i \in 1 .. Len(e.msgs) : e.msgs[i].has_span)
          /\ ~(\E i \in 1 .. Len(e.msgs) : PointsAt(e.msgs[i], e.planted)) THEN "not-at-offending-text"
  ELSE "ok"
Errors ==
  /\ Consume /\ Ev.event = "Errors" /\ n' = n + 1
  /\ LET f == FirstFault(Ev) IN
     IF f = "ok" THEN UNCHANGED nrej ELSE nrej' = nrej + 1 /\ PrintT(<<"REJECT", Ev.id, f, l>>)
\* an erroneous source must be refused; a panic is never a located error
NoError == Consume /\ Ev.event = "NoError" /\ n' = n + 1 /\ nrej' = nrej + 1 /\ PrintT(<<"REJECT", Ev.id, "accepted", l>>)
Panic == Consume /\ Ev.event = "Panic" /\ n' = n + 1 /\ nrej' = nrej + 1 /\ PrintT(<<"REJECT", Ev.id, "panic", l>>)
End == Consume /\ Ev.event = "End" /\ PrintT(<<"COUNTS", n, nrej>>) /\ UNCHANGED <<n, nrej>>
TNext == Errors \/ NoError \/ Panic \/ End
TraceSpec == TInit /\ [][TNext]_vars
TraceAccepted ==
  LET d == TLCGet("stats").diameter IN
  /\ PrintT(<<"TRACE", d - 1, Len(Rec)>>)
  /\ d - 1 = Len(Rec)
=======================================================================
