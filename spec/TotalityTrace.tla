-------------------------- MODULE TotalityTrace --------------------------
EXTENDS Totality, Json, IOUtils
Rec == ndJsonDeserialize(IOEnv.TRACE)
VARIABLES l, n, nrej, fam, prevUs
vars == <<l, n, nrej, fam, prevUs>>
TInit == l = 1 /\ n = 0 /\ nrej = 0 /\ fam = "" /\ prevUs = 0
Ev == Rec[l]
Consume == l <= Len(Rec) /\ l' = l + 1

Input ==
  /\ Consume /\ Ev.event = "Input" /\ n' = n + 1 /\ UNCHANGED <<fam, prevUs>>
  /\ LET i == FirstBad(Ev.results) IN
     IF i = 0 THEN UNCHANGED nrej
     ELSE nrej' = nrej + 1 /\ PrintT(<<"REJECT", Ev.id, Ev.results[i].stage, Ev.results[i].site, l>>)
\* the harness process died (stack exhaustion / abort) or ran out of time on this input
Died ==
  /\ Consume /\ Ev.event = "Died" /\ n' = n + 1 /\ nrej' = nrej + 1 /\ UNCHANGED <<fam, prevUs>>
  /\ PrintT(<<"REJECT", Ev.id, Ev.how, "", l>>)
\* one member of a growth family (members of a family come in order of doubling size)
Growth ==
  /\ Consume /\ Ev.event = "Growth" /\ n' = n + 1
  /\ fam' = Ev.family /\ prevUs' = Ev.us
  /\ IF fam # Ev.family \/ GrowthOk(prevUs, Ev.us) THEN UNCHANGED nrej
     ELSE nrej' = nrej + 1 /\ PrintT(<<"REJECT", Ev.id, "growth", ToString(prevUs) \o "->" \o ToString(Ev.us), l>>)
End == Consume /\ Ev.event = "End" /\ PrintT(<<"COUNTS", n, nrej>>) /\ UNCHANGED <<n, nrej, fam, prevUs>>
TNext == Input \/ Died \/ Growth \/ End
TraceSpec == TInit /\ [][TNext]_vars
TraceAccepted ==
  LET d == TLCGet("stats").diameter IN
  /\ PrintT(<<"TRACE", d - 1, Len(Rec)>>)
  /\ d - 1 = Len(Rec)
=======================================================================
