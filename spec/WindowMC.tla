----------------------------- MODULE WindowMC -----------------------------
(* The arithmetic of chained takes (Window of Backend.tla, the model of     *)
(* gen_expr::range_of_ranges) against what a chain of takes MEANS: applying *)
(* the takes one after the other to a sequence of rows returns exactly the  *)
(* rows at positions Window(takes).lo .. Window(takes).hi of that sequence. *)
(* Checked for every chain of up to three takes with bounds up to Max over  *)
(* sequences of up to N rows.                                               *)
EXTENDS Backend
CONSTANTS Max, N
Bounds == { [lo |-> a, hi |-> b] : a \in {-1} \cup (1 .. Max), b \in {-1} \cup (0 .. Max) }
Chains == { <<>> } \cup { <<x>> : x \in Bounds } \cup { <<x, y>> : x \in Bounds, y \in Bounds }
          \cup { <<x, y, z>> : x \in Bounds, y \in Bounds, z \in {[lo |-> -1, hi |-> 2], [lo |-> 2, hi |-> -1], [lo |-> 2, hi |-> 3]} }
\* one take on a sequence: the rows at positions lo .. hi (open bounds: from the first / to the last)
TakeOne(s, t) == LET lo == IF t.lo = -1 THEN 1 ELSE t.lo
                     hi == IF t.hi = -1 \/ t.hi > Len(s) THEN Len(s) ELSE t.hi
                 IN IF hi < lo THEN <<>> ELSE SubSeq(s, lo, hi)
RECURSIVE TakeAll(_, _)
TakeAll(s, ts) == IF ts = <<>> THEN s ELSE TakeAll(TakeOne(s, Head(ts)), Tail(ts))
Rows(n) == [i \in 1 .. n |-> i]
Slice(s, w) == TakeOne(s, w)
\* what the SELECT assembled from the chain returns: LIMIT / OFFSET of ShapeOf
AsTakes(ts) == [i \in 1 .. Len(ts) |-> [T("Take") EXCEPT !.lo = ts[i].lo, !.hi = ts[i].hi]]
LimitOffset(s, sh) == LET from == sh.offset + 1
                          to == IF sh.limit = -1 THEN Len(s) ELSE IF from + sh.limit - 1 > Len(s) THEN Len(s) ELSE from + sh.limit - 1
                      IN IF to < from THEN <<>> ELSE SubSeq(s, from, to)
VARIABLE c
Init == c \in Chains
Next == UNCHANGED c
Spec == Init /\ [][Next]_c
WindowLaw == \A n \in 0 .. N : TakeAll(Rows(n), c) = Slice(Rows(n), Window(c, [lo |-> 1, hi |-> -1]))
ShapeLaw  == c # <<>> => \A n \in 0 .. N : TakeAll(Rows(n), c) = LimitOffset(Rows(n), ShapeOf(AsTakes(c)))
=============================================================================
