---------------------------- MODULE RewriteMC ----------------------------
(* The rewrite graph: start from a base program, apply up to Depth        *)
(* rewrites.  Invariant: the denotation (frame names, possible worlds on  *)
(* every database instance, order in effect) never changes.  Every        *)
(* reachable program is printed for replay.                               *)
EXTENDS Rewrite, Json, IOUtils

DbSet == JsonDeserialize(IOEnv.DBSET)
Cfg   == JsonDeserialize(IOEnv.REWRITECFG)     \* [bases: Seq(program), depth]
Dbs == DbSet.dbs
Schema == DbSet.schema
Depth == Cfg.depth

VARIABLES p, base, n
vars == <<p, base, n>>

Init == \E b \in Idx(Cfg.bases) : base = b /\ p = Cfg.bases[b] /\ n = 0

\* declarations -> initial state
RECURSIVE Declare(_, _)
Declare(st, ds) ==
  IF ds = <<>> THEN st
  ELSE LET d == Head(ds) IN
       Declare(IF d.kind = "let"
                 THEN [st EXCEPT !.env = Append(st.env, [name |-> d.name, short |-> d.short, steps |-> d.steps])]
                 ELSE [st EXCEPT !.fns = Append(st.fns, [name |-> d.name, params |-> d.params, named |-> d.named, body |-> d.body])],
               Tail(ds))
Final(q) == RunPipe(Declare(InitState(Len(Dbs)), q.decls), q.steps, Dbs, Schema)
Denote(q) == LET f == Final(q) IN
  [status |-> f.status, names |-> [i \in Idx(f.frame) |-> f.frame[i].name], W |-> f.W, dirs |-> f.dirs, loose |-> f.loose]

FrameAt(q, i) == RunPipe(Declare(InitState(Len(Dbs)), q.decls), SubSeq(q.steps, 1, i), Dbs, Schema).frame

Rewrites(q) ==
  { NameWithLet(q, i, sf) : i \in { i \in 1 .. (Len(q.steps) - 1) : CanName(q, i) },
                             sf \in (IF NDecl(q) = 0 THEN {"let", "into", "module"} ELSE {"let", "module"}) }
  \cup { SplitFilter(q, i) : i \in { i \in Idx(q.steps) : CanSplit(q, i) } }
  \cup { InsertFilterTrue(q, i) : i \in { i \in Idx(q.steps) : i = Len(q.steps) \/ i = 1 } }
  \cup { InsertAfter(q, i, SelectAll(FrameAt(q, i))) : i \in { i \in Idx(q.steps) : CanSelectAll(FrameAt(q, i)) /\ i >= Len(q.steps) - 1 } }
  \cup { RepeatSort(q, i) : i \in { i \in Idx(q.steps) : q.steps[i].op = "sort" } }
  \cup { ExtractItem(q, i, 1, sty) : i \in { i \in Idx(q.steps) : q.steps[i].op \in {"derive", "select"}
                                                                     /\ Extractable(q.steps[i].items[1].e) },
                                      sty \in {"pos", "pipe", "named"} }
  \cup { ExtractFilter(q, i, sty) : i \in { i \in Idx(q.steps) : q.steps[i].op = "filter" /\ Extractable(q.steps[i].e) },
                                    sty \in {"pos", "named"} }
  \cup { MoveToModule(q, j) : j \in { j \in Idx(q.decls) : CanMove(q, j) } }

OkRewrite(q, r) == r # q

Next == /\ n < Depth
        /\ \E r \in Rewrites(p) : OkRewrite(p, r) /\ p' = r
        /\ n' = n + 1 /\ UNCHANGED base
Spec == Init /\ [][Next]_vars

\* denotation a with its columns brought into the order of b's names (defined when both have the same,
\* pairwise distinct, names)
SameNameSet(a, b) == /\ Len(a.names) = Len(b.names)
                     /\ { a.names[i] : i \in Idx(a.names) } = { b.names[i] : i \in Idx(b.names) }
                     /\ \A i, j \in Idx(a.names) : i # j => a.names[i] # a.names[j]
Reorder(a, b) ==
  LET m == Len(b.names)
      perm == [i \in 1 .. m |-> CHOOSE j \in 1 .. m : a.names[j] = b.names[i]]
  IN [a EXCEPT !.names = b.names,
               !.W = [d \in Idx(a.W) |-> { [w EXCEPT !.rows = [r \in Idx(w.rows) |-> [w.rows[r] EXCEPT !.v = [i \in 1 .. m |-> w.rows[r].v[perm[i]]]]]] : w \in a.W[d] }]]
\* the law: every rewrite preserves the denotation of the base program.  Naming a prefix with let /
\* into makes its computed columns columns of an input, and the resolver's `this.*` rule (see Group in
\* Prql.tla) then orders the partition of a later group differently: the result is the same relation
\* with its columns in another order (a defect of its own, F87).  The law is therefore stated up to
\* column order and the reordering is reported separately (Reordered).
Preserved == LET a == Denote(p)  b == Denote(Cfg.bases[base]) IN
             a = b \/ (a.status = "ok" /\ b.status = "ok" /\ SameNameSet(a, b) /\ Reorder(a, b) = b)
Reordered == Denote(p) # Denote(Cfg.bases[base])
BaseOk == Denote(Cfg.bases[base]).status = "ok"
Emit == (n > 0) => PrintT(<<"REPLAY", ToJson([base |-> base, n |-> n, decls |-> p.decls, steps |-> p.steps, reordered |-> Reordered])>>)
=======================================================================
