"""Driver of the L1 binding: PrqlMC (TLC) -> programs -> pv run -> PrqlTrace (TLC)."""
import json, os, subprocess, time
from vlib import *

def mc_generate(name, model, dbset, workers=8, timeout=1800):
    """Explore the bounded L1 machine; returns (programs, info).  Every reachable state is one
    program; TLC checks the machine's own invariants on all of them."""
    d = workdir(name)
    ap = os.path.join(d, "alphabet.json")
    json.dump(model, open(ap, "w"))
    out, info = tlc("PrqlMC", "PrqlMC.cfg", env={"DBSET": dbset, "ALPHABET": ap}, workers=workers,
                    timeout=timeout, xmx="12g")
    if not info["no_error"]:
        open(os.path.join(d, "mc.out"), "w").write(out)
        raise ToolError("PrqlMC reported an error (the model's own invariants): " + info.get("error_text", "")[:1500])
    progs = replay_lines(out)
    for i, p in enumerate(progs):
        p["id"] = f"{name}-{i}"
        p["decl"] = True
    return progs, info

def run_and_validate(name, progs, dbset, target="sqlite", shard=4000, par=6):
    """pv run + PrqlTrace.  Returns dict(rejects=[(id, what)], counts, side={id: info}, events)."""
    d = workdir(name)
    build_harness()
    shards = [progs[i:i + shard] for i in range(0, len(progs), shard)] or [[]]
    procs = []
    for i, sh in enumerate(shards):
        pp = os.path.join(d, f"progs{i}.ndjson")
        write_ndjson(pp, sh)
        procs.append(subprocess.Popen([PV, "run", dbset, pp, os.path.join(d, f"events{i}.ndjson"),
                                       os.path.join(d, f"side{i}.ndjson"), target],
                                      stdout=subprocess.PIPE, stderr=subprocess.PIPE, text=True))
        if len(procs) >= par:
            for p in procs:
                p.wait()
                if p.returncode != 0:
                    raise ToolError("pv run failed: " + p.stderr.read()[-2000:])
            procs = []
    for p in procs:
        p.wait()
        if p.returncode != 0:
            raise ToolError("pv run failed: " + p.stderr.read()[-2000:])
    rejects, counts, nevents = [], [0, 0, 0], 0
    side = {}
    # validate shards with a few TLC processes in parallel
    from concurrent.futures import ThreadPoolExecutor
    def validate(i):
        ev = os.path.join(d, f"events{i}.ndjson")
        out, info = tlc("PrqlTrace", "PrqlTrace.cfg", env={"TRACE": ev}, workers=1, deque=True, xmx="8g")
        return i, out, info
    with ThreadPoolExecutor(max_workers=par) as ex:
        results = list(ex.map(validate, range(len(shards))))
    for i, out, info in results:
        tr = tuples(out, "TRACE")
        if not info["no_error"] or not tr or tr[0][1] != tr[0][2]:
            open(os.path.join(d, f"trace{i}.out"), "w").write(out)
            raise ToolError(f"PrqlTrace did not consume the trace (shard {i}): " + info.get("error_text", out[-1500:])[:2000])
        nevents += tr[0][2]
        c = tuples(out, "COUNTS")
        if c:
            for j in range(3):
                counts[j] += c[-1][1 + j]
        for r in tuples(out, "REJECT"):
            rejects.append((r[1], r[2], {"frame": json.loads(r[4]), "src": json.loads(r[5])}))
        for s in read_ndjson(os.path.join(d, f"side{i}.ndjson")):
            side[s["id"]] = s
    return {"rejects": rejects, "accepted": counts[0], "rejected": counts[1], "skipped": counts[2],
            "events": nevents, "side": side}
