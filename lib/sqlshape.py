"""Driver of spec/SqlShape.tla: operator templates of std.sql.prql, operator trees, `pv sqlshape`, trace validation."""
import os, re, json, random
from vlib import *

STD = "/repo/prqlc/prqlc/src/sql/std.sql.prql"
ALT = os.environ.get("VERIF_REPO")
OPS_T = ["div_f", "div_i", "mod", "coalesce", "neg", "not"]
DIALECTS = ["ansi", "bigquery", "clickhouse", "duckdb", "generic", "glaredb", "mssql", "mysql", "postgres", "redshift", "sqlite", "snowflake"]

FUNCS = ["math.abs", "math.floor", "math.ceil", "math.exp", "math.ln", "math.log10", "math.log", "math.sqrt", "math.degrees", "math.radians",
         "math.cos", "math.sin", "math.tan", "math.atan", "math.pow", "math.round",
         "text.lower", "text.upper", "text.ltrim", "text.trim", "text.length", "text.extract", "text.replace", "text.starts_with", "text.contains", "text.ends_with"]

def _defs():
    path = STD
    if ALT and ALT != "/repo" and os.path.exists(os.path.join(ALT, "prqlc/prqlc/src/sql/std.sql.prql")):
        path = os.path.join(ALT, "prqlc/prqlc/src/sql/std.sql.prql")
    text = open(path).read()
    defs = {}          # (module path, name) -> (params, body text | None)
    stack = []
    for line in text.split("\n"):
        m = re.match(r"^(\s*)module (\w+) \{", line)
        if m:
            stack.append(m.group(2)); continue
        if re.match(r"^\s*\}\s*$", line) and stack:
            stack.pop(); continue
        m = re.match(r'^\s*let (\w+) = (.*?)-> (?:<[^>]*>\s*)?(s"""(.*)"""|s"((?:[^"\\]|\\.)*)"|null)\s*$', line)
        if m:
            body = m.group(4) if m.group(4) is not None else m.group(5)
            params = [x.strip("`") for x in re.sub(r"<[^>]*>", "", m.group(2)).split()]
            defs[(tuple(stack), m.group(1))] = (params, body)
    return defs

def templates():
    """(dialect, op) -> template text with the operands as identifiers zz<param>zz, read from std.sql.prql: the definition in
    the dialect's module if there is one, the general one otherwise; `null` bodies are not templates.  Also the parameter
    order of each function (how a call is written)."""
    defs = _defs()
    out, params = [], {}
    for d in DIALECTS:
        for op in OPS_T + FUNCS:
            path = tuple(op.split(".")[:-1]); name = op.split(".")[-1]
            own = defs.get(((d,) + path, name)); gen_ = defs.get((path, name))
            if gen_ is not None:
                params[op] = gen_[0]
            pick = own if own is not None else gen_
            if pick is None or pick[1] is None:
                continue
            sql = re.sub(r"\{(\w+)(?::\d+)?\}", lambda mm: "zz" + mm.group(1) + "zz", pick[1])
            out.append({"dialect": d, "op": op, "text": sql})
    return out, params

BIN = ["+", "-", "*", "/", "//", "%", "==", "!=", "<", "<=", ">", ">=", "&&", "||", "??"]
UN = ["-", "!"]
def col(n): return {"t": "col", "q": "", "name": n}
def lit(n): return {"t": "lit", "v": {"k": "null" if n is None else "num", "n": n or 0, "d": 1, "s": ""}}
def bin_(op, l, r): return {"t": "bin", "op": op, "l": l, "r": r}
def un(op, e): return {"t": "un", "op": op, "e": e}

def show(t):
    if t["t"] == "col": return t["name"]
    if t["t"] == "lit": return "null" if t["v"]["k"] == "null" else (f"({t['v']['n']})" if t["v"]["n"] < 0 else str(t["v"]["n"]))
    if t["t"] == "un": return f"({t['op']}{show(t['e'])})"
    if t["t"] == "call": return "(" + t["f"] + "".join(" " + show(x["e"]) for x in t["args"]) + ")"
    return f"({show(t['l'])} {t['op']} {show(t['r'])})"

def call(f, params, *args):
    return {"t": "call", "f": f, "args": [{"name": p, "e": a} for p, a in zip(params, args)]}

def between_like(t):
    """and(gte(x, _), lte(x, _)) is compiled to BETWEEN: not in this family"""
    if t["t"] == "bin":
        if t["op"] == "&&" and t["l"]["t"] == "bin" and t["r"]["t"] == "bin" and {t["l"]["op"], t["r"]["op"]} <= {">=", "<="}:
            return True
        return between_like(t["l"]) or between_like(t["r"])
    if t["t"] == "un": return between_like(t["e"])
    if t["t"] == "call": return any(between_like(x["e"]) for x in t["args"])
    return False

def trees(tier, rnd, params):
    a, b, k = col("a"), col("b"), col("k")
    out = []
    # std functions: as an operand of every operator class on either side, under the unary operators, and with operator
    # expressions as their own arguments
    for f in FUNCS:
        ps = params.get(f)
        if ps is None:
            continue
        plain = call(f, ps, *([lit(2)] * (len(ps) - 1) + [a]))
        for p in ("*", "/", "%", "-", "+", "==", "&&", "??", "//"):
            out.append(bin_(p, k, plain)); out.append(bin_(p, plain, k))
        out.append(un("-", plain)); out.append(un("!", plain))
        # (operator expressions as arguments: for the numeric functions; a text pattern that is a sum has no meaning)
        for inner in ((bin_("+", a, b), bin_("%", a, b), un("-", a), bin_("==", a, b), bin_("//", a, b)) if f.startswith("math.") else (bin_("??", a, b), un("-", a))):
            out.append(call(f, ps, *([lit(2)] * (len(ps) - 1) + [inner])))
            if len(ps) > 1:
                out.append(call(f, ps, *([inner] + [lit(3)] * (len(ps) - 2) + [a])))
    for p in BIN:                       # every (parent, child, side)
        for c in BIN:
            out.append(bin_(p, bin_(c, a, b), k)); out.append(bin_(p, k, bin_(c, a, b)))
        for u in UN:
            out.append(bin_(p, un(u, a), b)); out.append(bin_(p, a, un(u, b))); out.append(un(u, bin_(p, a, b)))
    for u in UN:
        for v in UN:
            out.append(un(u, un(v, a)))
    for c in BIN:                       # literals, negative literals, null tests
        out.append(bin_(c, a, lit(-2))); out.append(bin_(c, lit(-2), a)); out.append(un("-", bin_(c, a, lit(2))))
    for op in ("==", "!="):
        out += [bin_(op, a, lit(None)), bin_(op, lit(None), a), bin_(op, bin_("+", a, b), lit(None)), un("!", bin_(op, a, lit(None))),
                bin_("&&", bin_(op, a, lit(None)), bin_(">", b, k)), bin_(op, un("-", a), lit(None)), bin_(op, bin_("%", a, b), lit(None))]
    # depth 3: a child of a child, on either side
    deep = []
    for p in BIN:
        for c in BIN:
            for g in BIN:
                deep.append(bin_(p, k, bin_(c, bin_(g, a, b), k))); deep.append(bin_(p, bin_(c, a, bin_(g, b, k)), a))
    out += deep if tier == "thorough" else rnd.sample(deep, 600)
    return [t for t in out if not between_like(t)]

CMP = {"==", "!=", "<", "<=", ">", ">="}
def adj_tags(t, out=None):
    """operator adjacencies of the tree, in the vocabulary known findings are written in"""
    out = set() if out is None else out
    kids = [("l", t.get("l")), ("r", t.get("r"))] if t["t"] == "bin" else [("e", t.get("e"))] if t["t"] == "un" else []
    for side, c in kids:
        if c["t"] in ("bin", "un"):
            p_, c_ = t["op"] + ("u" if t["t"] == "un" else ""), c["op"] + ("u" if c["t"] == "un" else "")
            out.add(f"adj:{p_}>{c_}:{side}")
            if t["t"] == "bin" and c["t"] == "bin" and t["op"] in CMP and c["op"] in CMP:
                out.add("cmp-in-cmp")
            if t["t"] == "bin" and t["op"] == "*" and side == "r":
                # a % anywhere on the left spine of the right operand, through operators of the same level
                x = c
                while x["t"] == "bin" and x["op"] in ("*", "/", "%"):
                    if x["op"] == "%":
                        out.add("mod-right-of-mul")
                    x = x["l"]
            if c["t"] == "bin" and c["op"] == "//" and ((t["t"] == "bin" and t["op"] in ("*", "/", "//", "%")) or t["t"] == "un"):
                out.add("divi-operand")
        if c["t"] != "col" and c["t"] != "lit":
            adj_tags(c, out)
    if t["t"] == "call":
        out.add("call:" + t["f"])
        for x in t["args"]:
            if x["e"]["t"] not in ("col", "lit"):
                out.add("call-arg-op"); adj_tags(x["e"], out)
    for side, c in kids:
        if c["t"] == "call":
            out.add(f"adj:{t['op']}>{c['f']}:{side}"); adj_tags(c, out)
    return out

def run(d, tier):
    rnd = random.Random(seed() + 2)
    tm, params = templates()
    ts = trees(tier, rnd, params)
    srcs = [{"id": f"x{i}", "src": f"from t | select {{v = {show(t)}}}"} for i, t in enumerate(ts)]
    ip = os.path.join(d, "shape.in.json"); op = os.path.join(d, "shape.out.ndjson")
    json.dump({"templates": tm, "sources": srcs, "dialects": DIALECTS}, open(ip, "w"))
    pv(["sqlshape", ip, op])
    evs = read_ndjson(op)
    tmpl = [e for e in evs if e["ev"] == "Template"]
    exprs = {}
    for e in evs:
        if e["ev"] == "Expr":
            exprs.setdefault(e["id"], []).append(e)
    trace = [dict(e, id="", tree={"t": "none"}, outcome="", sql="", detail="") for e in tmpl]
    blank = {"ev": "", "id": "", "dialect": "", "op": "", "text": "", "ast": {"k": "none", "op": "", "a": []}, "error": "", "tree": {"t": "none"}, "outcome": "", "sql": "", "detail": ""}
    trace = []
    for e in tmpl:
        x = dict(blank); x.update({k: v for k, v in e.items() if v is not None}); trace.append(x)
    for i, t in enumerate(ts):
        x = dict(blank); x.update({"ev": "Tree", "id": f"x{i}", "tree": t}); trace.append(x)
        for e in exprs.get(f"x{i}", []):
            x = dict(blank); x.update({k: v for k, v in e.items() if v is not None}); trace.append(x)
    x = dict(blank); x["ev"] = "End"; trace.append(x)
    tp = os.path.join(d, "shape.trace.ndjson"); write_ndjson(tp, trace)
    out, info = tlc("SqlShape", "SqlShape.cfg", env={"TRACE": tp}, workers=1, deque=True, xmx="8g")
    tr = tuples(out, "TRACE")
    if not info["no_error"] or not tr or tr[0][1] != tr[0][2]:
        open(tp + ".tlc.out", "w").write(out)
        raise ToolError("SqlShape did not consume the trace: " + info.get("error_text", out[-1200:])[:1500])
    c = tuples(out, "COUNTS")[-1]
    rej = []
    by = {(e["id"], e["dialect"]): e for es in exprs.values() for e in es}
    for r in tuples(out, "REJECT"):
        e = by[(r[1], r[2])]
        i = int(r[1][1:])
        rej.append({"id": r[1], "dialect": r[2], "tree": ts[i], "prql": srcs[i]["src"], "sql": e["sql"], "parsed": e["ast"], "specified": json.loads(r[5]) if len(r) > 5 else None})
    for x in rej:
        x["tags"] = sorted(adj_tags(x["tree"]))
    return {"rejects": rej, "judged": c[1], "skipped": c[3], "trees": len(ts), "templates": len(tmpl), "template_errors": [t for t in tmpl if t.get("error")], "states": info.get("distinct", 0), "trace": tp}
