"""Shared driver of the SQL scope monitor (spec/SqlScope.tla): sources -> `pv sqlast` (compile for each dialect, re-parse
with the dialect's parser, SQLite prepare for sqlite/generic) -> lib/sqlwalk.py walks -> SqlScopeTrace.
Used by C07 (scope, syntax, dialect features) and by C05 (result columns per dialect, via `expect`)."""
import os, re, json
from vlib import *
import sqlwalk

def run(d, srcs, dialects="all", expect=None, nsh=12, tag="", expect_takes=None, keep_events=False):
    """srcs: [{"id","src"[,"schema"]}]; an id ending in "o" directly after its base id is that program's open-schema twin.
    expect: {id: [column names]} - when given, the statement's result columns must be those (frame rule).
    Returns rejects [{"id","dialect","verdict","detail","rec","trace_file","line"}] and counters."""
    src_of = {r["id"]: r for r in srcs}
    per = (len(srcs) + nsh - 1) // nsh
    shards = [srcs[i * per:(i + 1) * per] for i in range(nsh)]
    for i in range(nsh - 1):          # keep a twin in the shard of its declared program
        while shards[i + 1] and shards[i + 1][0]["id"].endswith("o") and shards[i] and shards[i][-1]["id"] + "o" == shards[i + 1][0]["id"]:
            shards[i].append(shards[i + 1].pop(0))
    shards = [s for s in shards if s]
    from concurrent.futures import ThreadPoolExecutor
    takes_seen = {}
    def one(i):
        ip = os.path.join(d, f"{tag}src{i}.ndjson"); op = os.path.join(d, f"{tag}ast{i}.ndjson")
        write_ndjson(ip, shards[i])
        pv(["sqlast", ip, op, dialects])
        evs = []; stats = {"compiled": 0, "err": 0, "panic": 0, "unjudged_sstring": 0, "prepared": 0}
        recs = {}
        outcome = {}
        for r in read_ndjson(op):
            s = src_of[r["id"]]
            outcome[(r["id"], r["dialect"])] = r["outcome"]
            if r["id"].endswith("o") and r["id"][:-1] in src_of and outcome.get((r["id"][:-1], r["dialect"])) != "sql":
                # an open program is only judged where its declared twin compiles: otherwise it may name columns the
                # tables do not have, which the compiler cannot know
                stats["unjudged_open_twin"] = stats.get("unjudged_open_twin", 0) + 1
                continue
            if r.get("oracle_limit"):
                stats["oracle_limit_" + r["oracle_limit"]] = stats.get("oracle_limit_" + r["oracle_limit"], 0) + 1
            if r.get("prepare") not in (None, "ok") and re.search("no such function|no such table: read_(csv|json|parquet)", r["prepare"]):
                # which functions an SQLite build has is not a matter of syntax or scope
                r["prepare"] = "ok"; stats["prepare_missing_function_unjudged"] = stats.get("prepare_missing_function_unjudged", 0) + 1
            if r["dialect"] == "generic" and r.get("prepare") not in (None, "ok") and not re.search("no such column|no such table|ambiguous column", r["prepare"]):
                # sql.generic is not SQLite: only binding errors of the prepare are evidence about it
                r["prepare"] = "ok"; stats["generic_prepare_syntax_unjudged"] = stats.get("generic_prepare_syntax_unjudged", 0) + 1
            has_s = re.search(r'\bs"|\bs\'', s["src"]) is not None
            r["world"] = "open" if has_s else "closed"
            r["schema"] = s.get("schema")
            stats["compiled" if r["outcome"] == "sql" else r["outcome"]] += 1
            if r.get("prepare") is not None:
                stats["prepared"] += 1
            if has_s and r["outcome"] == "sql" and (r.get("parse_error") or r.get("prepare") not in (None, "ok")):
                stats["unjudged_sstring"] += 1      # SQL text supplied by the user
                continue
            recs[(r["id"], r["dialect"])] = {k: r.get(k) for k in ("sql", "parse_error", "prepare", "reason", "fmt_sql")}
            if expect is not None and r["id"] in expect:
                # a generated name / an expression text stands for a column the program did not name
                r["expect"] = [n if re.fullmatch(r"[A-Za-z][A-Za-z0-9_]*", n) else ("" if not re.fullmatch(r"_(?!expr_\d+$)\w+", n) else n) for n in expect[r["id"]]]
                r["ordered"] = not r["id"].endswith("o")
            if expect_takes is not None and r["id"] in expect_takes:
                r["expect_takes"] = expect_takes[r["id"]]
            w_ = sqlwalk.walk(r)
            if keep_events:
                takes_seen[(r["id"], r["dialect"])] = [[e["name"], e["q"], e["kind"]] for e in w_ if e["ev"] == "Take"]
            evs += w_
        evs.append(sqlwalk.E("Stop"))
        tp = os.path.join(d, f"{tag}walk{i}.ndjson"); write_ndjson(tp, evs)
        out, tinfo = tlc("SqlScopeTrace", "SqlScopeTrace.cfg", env={"TRACE": tp}, workers=1, deque=True, xmx="6g")
        return tp, out, tinfo, stats, recs, len(evs)
    with ThreadPoolExecutor(max_workers=6) as ex:
        results = list(ex.map(one, range(len(shards))))
    tot = {}; nev = 0; nq = 0; nskip = 0; tstates = 0
    rejects = []
    for tp, out, tinfo, stats, recs, n in results:
        tr = tuples(out, "TRACE")
        if not tinfo["no_error"] or not tr or tr[0][1] != tr[0][2]:
            open(tp + ".tlc.out", "w").write(out)
            raise ToolError("SqlScopeTrace did not consume the trace: " + tinfo.get("error_text", out[-1200:])[:1500])
        for k, v in stats.items():
            tot[k] = tot.get(k, 0) + v
        nev += n; tstates += tinfo.get("distinct", 0)
        c = tuples(out, "COUNTS"); nq += c[-1][1]; nskip += c[-1][3]
        for r in tuples(out, "REJECT"):
            pid_, dialect, verdict, detail = r[1], r[2], r[3], r[4]
            rec = recs.get((pid_, dialect), {})
            if verdict == "walk":
                raise ToolError(f"recorder/monitor mismatch on {pid_} {dialect}: {detail}: {rec.get('sql')}")
            rejects.append({"id": pid_, "dialect": dialect, "verdict": verdict, "detail": detail, "rec": rec,
                            "trace_file": os.path.relpath(tp, ROOT), "line": r[5]})
    return {"takes_seen": takes_seen, "rejects": rejects, "stats": tot, "events": nev, "judged": nq, "skipped": nskip, "states": tstates}
