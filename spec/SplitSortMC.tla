---------------------------- MODULE SplitSortMC ----------------------------
(* C03 at design level, end to end through the back end: "rows appear in    *)
(* the order of the most recent sort still in effect ... regardless of how  *)
(* many sub-queries the emitted SQL uses".                                  *)
(*                                                                          *)
(* BackendMC grows every abstract pipeline of its alphabet and cuts it into *)
(* atomic pipelines with the split machine of Backend.tla (Part A).  Here   *)
(* the atomic pipelines of one compilation are assembled into the compiled  *)
(* query (the parts cut off become CTEs, each later part reads the one      *)
(* before), the sort-inference machine of SortInfer.tla (Part E) is run on  *)
(* it, and the result is judged against the Meaning of the ORIGINAL, uncut  *)
(* pipeline:                                                                *)
(*   SplitKeepsOrder   the orders in effect at the takes and at the end of  *)
(*                     the cut query are those of the uncut pipeline        *)
(*   SortsMeetMeaning  every SELECT's ORDER BY begins with the order in     *)
(*                     effect at each of its LIMITs, DISTINCT ON gets its   *)
(*                     inner sort, the statement ends in the final order,   *)
(*                     no SELECT DISTINCT gets a column added               *)
EXTENDS BackendMC, SortInfer

VARIABLE atoms          \* the atomic pipelines cut so far, main relation first
varsX == <<vars, atoms>>

InitX == Init /\ atoms = <<>>
NextX == \/ ScanFinish /\ atoms' = Append(atoms, Atomic(st, out))
         \/ /\ \/ AddFilter \/ AddCompute("plain") \/ AddCompute("nongroup") \/ AddCompute("windowed") \/ AddAggregate \/ AddSort
               \/ AddTake \/ AddDistinct \/ AddDistinctOn \/ AddJoin \/ AddUnion \/ Close \/ ScanStart \/ ScanPop \/ Finished
            /\ UNCHANGED atoms
SpecX == InitX /\ [][NextX]_varsX

\* ---------------------------------------------------------------- Backend records -> SortInfer records
KeysOf(cols) == [i \in 1 .. Len(cols) |-> Key(cols[i], FALSE)]
\* the user sort in effect before position i of p, as the resolver's flattening sees it (what rq::Take.sort holds)
RECURSIVE UserSort(_, _)
UserSort(p, i) ==
  IF i = 0 THEN <<>>
  ELSE LET t == p[i] IN
       IF t.k = "Sort" /\ t.sup THEN KeysOf(t.cols)
       ELSE IF t.k \in {"Aggregate", "Distinct", "DistinctOn", "Union", "Except", "Intersect"} THEN <<>>
       ELSE UserSort(p, i - 1)
ToP(p, i) ==
  LET t == p[i] IN
  CASE t.k = "From" -> [P("From") EXCEPT !.riid = 1]
    [] t.k = "Join" -> [P("Join") EXCEPT !.riid = 10 + i, !.side = t.side]
    [] t.k = "Sort" -> [P("Sort") EXCEPT !.keys = KeysOf(t.cols)]
    [] t.k = "Take" -> [P("Take") EXCEPT !.keys = IF t.sorted THEN UserSort(p, i - 1) ELSE <<>>]
    [] t.k = "Aggregate" -> [P("Aggregate") EXCEPT !.part = t.part]
    [] t.k = "Distinct" -> P("Distinct")
    [] t.k = "DistinctOn" -> [P("DistinctOn") EXCEPT !.part = t.part]
    [] t.k \in {"Union", "Except", "Intersect"} -> P("Union")
    [] t.k = "Select" -> [P("Select") EXCEPT !.cols = t.cols]
    [] OTHER -> P("Other")
\* the uncut pipeline: its Select (the last transform of `pipe`) in front, as in an atomic pipeline
Body_(p) == SelectSeq([i \in 1 .. Len(p) |-> ToP(p, i)], LAMBDA t : t.k # "Select")
Uncut == << [P("Select") EXCEPT !.cols = pipe[Len(pipe)].cols] >> \o Body_(pipe)

\* the compiled query: atoms[n] is the deepest part.  The non-Select transforms of the parts, deepest first, are those of
\* the pipeline in order (NoLoss), so the body is cut into chunks of the parts' sizes
NS(A) == Len(SelectSeq(A, LAMBDA t : t.k # "Select"))
RECURSIVE Offset(_)
Offset(j) == IF j >= Len(atoms) THEN 0 ELSE NS(atoms[j + 1]) + Offset(j + 1)      \* transforms in the parts deeper than j
Chunk(j) == SubSeq(Body_(pipe), Offset(j) + 1, Offset(j) + NS(atoms[j]))
Tid(j) == 100 + j
Part(j) == LET c == Chunk(j)
               from == IF c # <<>> /\ c[1].k = "From" THEN <<>> ELSE << [P("From") EXCEPT !.src = Tid(j + 1), !.riid = 100 + j] >>
           IN << [P("Select") EXCEPT !.cols = atoms[j][1].cols] >> \o from \o c
Compiled == [ctes |-> [k \in 1 .. Len(atoms) - 1 |-> [tid |-> Tid(Len(atoms) + 1 - k), pipes |-> << Part(Len(atoms) + 1 - k) >>]],
             main |-> Part(1)]

AtEnd == phase = "next" /\ work = <<>> /\ atoms # <<>>
\* the orders in effect in the cut query, part by part, are those of the uncut pipeline
RECURSIVE CutTakes(_, _)
CutTakes(q, n) == IF n > Len(q.ctes) + 1 THEN <<>>
                  ELSE MeanPipe(PipeAt(q, <<n, 1>>), MeanEnv(q, {}, {}, n)).takes \o CutTakes(q, n + 1)
SplitKeepsOrder ==
  AtEnd => LET q == Compiled
               u == MeanPipe(Uncut, [ctes |-> EmptyFn, R |-> {}, A |-> {}])
           IN /\ CutTakes(q, 1) = u.takes
              /\ MeanPipe(q.main, MeanEnv(q, {}, {}, Len(q.ctes) + 1)).ord = u.ord
SortsMeetMeaning ==
  AtEnd => LET q == Compiled
               a == InferQuery(q, {})
           IN QueryVerdicts(q, [ctes |-> a.ctes, main |-> a.main], {}, {}, {}) = {}
ViewX == <<View, atoms>>
=============================================================================
