//! `pv errors`: erroneous sources -> ErrorMessages (reason, span, location, display), recorded for SpansTrace.tla
use crate::api;
use serde_json::{json, Value as J};
use std::io::Write;
use std::path::PathBuf;

fn chars_of(s: &str) -> Vec<J> {
    s.chars().map(|c| json!([c.len_utf8(), c == '\n'])).collect()
}

/// gutter lines of an ariadne report: ` 6 │ text`
fn display_lines(d: &str) -> Vec<J> {
    let mut out = vec![];
    for line in d.lines() {
        if let Some(i) = line.find('│') {
            let (g, rest) = line.split_at(i);
            let g = g.trim();
            if !g.is_empty() && g.chars().all(|c| c.is_ascii_digit()) {
                let text = rest.trim_start_matches('│');
                let text = text.strip_prefix(' ').unwrap_or(text);
                // multi-line labels draw `╭─▶ `, `├─▶ `, `│ ` in front of the quoted text
                let text = text.trim_start_matches(|c: char| "╭├╰│─▶┬┴┼".contains(c));
                let text = if text.len() < rest.len() - 2 { text.strip_prefix(' ').unwrap_or(text) } else { text };
                out.push(json!({"n": g.parse::<i64>().unwrap_or(-1), "text": text.trim_end()}));
            }
        }
    }
    out
}

fn messages(e: &prqlc::ErrorMessages, tree: &prqlc::SourceTree, files: &[(String, String)]) -> Vec<J> {
    e.inner.iter().map(|m| {
        let path = m.span.and_then(|s| tree.get_path(s.source_id)).map(|p| p.to_string_lossy().to_string());
        let content = path.as_ref().and_then(|p| files.iter().find(|(fp, _)| fp == p)).map(|(_, c)| c.clone());
        json!({
            "reason": m.reason, "reason_len": m.reason.trim().chars().count(),
            "has_span": m.span.is_some(),
            "span": m.span.map(|s| json!([s.start, s.end])).unwrap_or(json!([0, 0])),
            "source_id": m.span.map(|s| s.source_id).unwrap_or(0),
            "path": path.clone().unwrap_or_default(), "path_known": content.is_some() || m.span.is_none(),
            "chars": content.as_ref().map(|c| chars_of(c)).unwrap_or_default(),
            "src_lines": content.as_ref().map(|c| c.split('\n').map(|l| l.trim_end_matches('\r').trim_end().to_string()).collect::<Vec<_>>()).unwrap_or_default(),
            "has_location": m.location.is_some(),
            "location": m.location.as_ref().map(|l| json!([[l.start.0, l.start.1], [l.end.0, l.end.1]])).unwrap_or(json!([[0, 0], [0, 0]])),
            "has_display": m.display.is_some(),
            "display_lines": m.display.as_ref().map(|d| display_lines(d)).unwrap_or_default(),
            "display": m.display.clone().unwrap_or_default(),
        })
    }).collect()
}

/// args: <cases.ndjson {"id","files":[{"path","content"}],"root":path|null,"dialect":..,"planted":{"path","start","end"}|null}> <out.ndjson>
pub fn main(args: &[String]) -> i32 {
    let mut out = std::io::BufWriter::new(std::fs::File::create(&args[1]).expect("out"));
    for line in std::fs::read_to_string(&args[0]).expect("cases").lines() {
        if line.trim().is_empty() {
            continue;
        }
        let c: J = serde_json::from_str(line).expect("json");
        let files: Vec<(String, String)> = c["files"].as_array().unwrap().iter()
            .map(|f| (f["path"].as_str().unwrap_or("").to_string(), f["content"].as_str().unwrap_or("").to_string())).collect();
        let dialect = c["dialect"].as_str();
        let single = files.len() == 1 && files[0].0.is_empty();
        let tree = if single {
            prqlc::SourceTree::from(files[0].1.clone())
        } else {
            prqlc::SourceTree::new(files.iter().map(|(p, s)| (PathBuf::from(p), s.clone())), c["root"].as_str().map(PathBuf::from))
        };
        let res: api::Outcome<String> = if single {
            api::compile(&files[0].1, dialect)
        } else {
            let o = api::options(dialect);
            api::guarded(|| {
                let pl = prqlc::prql_to_pl_tree(&tree)?;
                let rq = prqlc::pl_to_rq_tree(pl, &[], &["default_db".to_string()]).map_err(|e| e.composed(&tree))?;
                prqlc::rq_to_sql(rq, &o).map_err(|e| e.composed(&tree))
            })
        };
        let ev = match res {
            api::Outcome::Ok(_) => json!({"event":"NoError","id":c["id"]}),
            api::Outcome::Err(e) => json!({"event":"Errors","id":c["id"],"planted":c["planted"],"has_planted":!c["planted"].is_null(),
                                          "msgs":messages(&e, &tree, &files),"nmsgs":e.inner.len()}),
            api::Outcome::Panic { msg, file, line } => json!({"event":"Panic","id":c["id"],"msg":msg,"file":file,"line":line}),
        };
        writeln!(out, "{}", ev).unwrap();
    }
    writeln!(out, "{}", json!({"event":"End"})).unwrap();
    0
}
