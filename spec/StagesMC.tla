---------------------------- MODULE StagesMC ----------------------------
(* All paths through the API graph from the source to SQL-or-error, with  *)
(* each JSON round trip taken 0..MaxLoop times.  One state per path       *)
(* prefix; complete paths are printed for `pv stages` to walk.            *)
EXTENDS Stages, Json

MaxLoop == 2
VARIABLES node, path, loops
vars == <<node, path, loops>>

Init == node = "src" /\ path = <<>> /\ loops = [n \in {"pl", "rq"} |-> 0]

Take(f) ==
  /\ node = Funs[f][1]
  /\ node' = Funs[f][2]
  /\ path' = Append(path, f)
  \* a JSON loop is from_x followed by to_x; count it when it closes
  /\ loops' = IF f = "to_pl" THEN [loops EXCEPT !["pl"] = @ + 1]
              ELSE IF f = "to_rq" THEN [loops EXCEPT !["rq"] = @ + 1] ELSE loops
  /\ (f = "from_pl") => loops["pl"] < MaxLoop
  /\ (f = "from_rq") => loops["rq"] < MaxLoop

Next == \E f \in FunNames : Take(f)
Spec == Init /\ [][Next]_vars

\* every path ends in "out"; no path is stuck elsewhere (graph sanity)
Progress == node # "out" => ENABLED Next
Emit == (node = "out") => PrintT(<<"REPLAY", ToJson([path |-> path])>>)
=======================================================================
