#!/usr/bin/env python3
"""Writes corpus/dbs_quick.json and corpus/dbs_thorough.json: the database instances of the models.
t(k,a,b), u(k,a,c); k unique; a shared between t and u; NULLs, duplicates, ties, empty tables."""
import json, itertools, random
N=None
def V(x):
    if x is None: return {"k":"null","n":0,"d":1,"s":""}
    if isinstance(x,str): return {"k":"text","n":0,"d":1,"s":x}
    if isinstance(x,tuple): return {"k":"num","n":x[0],"d":x[1],"s":""}
    return {"k":"num","n":x,"d":1,"s":""}
def T(rows): return [[V(x) for x in r] for r in rows]
schema={"t":["k","a","b"],"u":["k","a","c"]}
quick=[
 # D1: general: duplicates in a, NULLs in a and b, a tie in (a,b)
 {"t":T([(1,1,2),(2,1,N),(3,2,0),(4,N,-2)]), "u":T([(1,1,5),(2,2,N),(3,3,1)])},
 # D2: empty t
 {"t":T([]), "u":T([(1,1,1),(2,1,2)])},
 # D3: empty u, t with duplicate non-key content and a zero
 {"t":T([(1,2,1),(2,2,1),(3,0,5)]), "u":T([])},
 # D4: ties in a, negative values, u has duplicate a and NULL a
 {"t":T([(4,-2,1),(3,-2,2),(2,1,2),(1,1,N)]), "u":T([(1,-2,0),(2,-2,1),(3,N,2)])},
]
json.dump({"schema":schema,"dbs":quick},open('/verif/corpus/dbs_quick.json','w'))
rnd=random.Random(7)
dom=[N,-2,0,1,2]
thor=list(quick)
for i in range(8):
    nt=rnd.choice([1,2,3,4,4]); nu=rnd.choice([0,1,2,3])
    thor.append({"t":T([(k+1,rnd.choice(dom),rnd.choice(dom+[(5,2)])) for k in range(nt)]),
                 "u":T([(k+1,rnd.choice(dom),rnd.choice(dom)) for k in range(nu)])})
json.dump({"schema":schema,"dbs":thor},open('/verif/corpus/dbs_thorough.json','w'))
print(len(quick),len(thor))
