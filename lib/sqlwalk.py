"""Projection of a SQL statement AST (serde form of sqlparser 0.60, produced by `pv sqlast` after
re-parsing prqlc's output with the parser of the selected dialect) to the event walk that
spec/SqlScope.tla monitors.  Pure recording: scopes and verdicts are the specification's."""

class Unknown(Exception):
    pass

def ident(i):
    return i["value"]

def objname(parts):
    out = []
    for p in parts:
        if "Identifier" in p:
            out.append(p["Identifier"]["value"])
        else:
            out.append(str(p))
    return out

def E(ev, **kw):
    base = {"ev": ev, "name": "", "q": "", "clause": "", "kind": "", "alias": "", "cols": [], "n": 0, "flag": False, "tabs": [], "expect": [], "has_expect": False, "ordered": True, "expect_takes": [], "has_takes": False}
    base.update(kw)
    return base

class Walker:
    def __init__(self):
        self.ev = []
        self.features = []

    def feat(self, name):
        self.ev.append(E("Feature", name=name))

    # ---------------------------------------------------------------- expressions
    def expr(self, e, clause):
        """emit Ref events for every column reference inside e (pre-order), Sub* events for sub-queries"""
        if isinstance(e, list):
            for x in e:
                self.expr(x, clause)
            return
        if not isinstance(e, dict):
            return
        for k, v in e.items():
            if k == "Identifier" and isinstance(v, dict) and "value" in v and "quote_style" in v:
                if v["quote_style"] is None and v["value"][:1] in "$@?:":
                    continue        # a query parameter the dialect's parser reads as a word
                self.ev.append(E("Ref", q="", name=v["value"], clause=clause, flag=v["quote_style"] is not None))
            elif k == "CompoundIdentifier":
                parts = [ident(i) for i in v]
                self.ev.append(E("Ref", q=".".join(parts[:-1]), name=parts[-1], clause=clause, n=len(parts)))
            elif k == "CompoundFieldAccess":
                self.expr(v.get("root"), clause)
            elif k == "Function":
                nm = objname(v["name"])
                self.ev.append(E("Call", name=".".join(nm).lower(), clause=clause))
                for kk, vv in v.items():
                    if kk in ("name",):
                        continue
                    if kk == "over" and isinstance(vv, dict) and "NamedWindow" in vv:
                        continue
                    self.expr(vv, clause)
            elif k in ("Subquery", "subquery") and isinstance(v, dict) and "body" in v:
                self.query(v, isolated=False)
                self.ev.append(E("SubqueryEnd", clause=clause))
            elif k in ("data_type", "span", "select_token", "token", "quote_style", "field", "Value", "value", "TypedString",
                       "with_fill", "leading_field", "last_field"):
                if k in ("Value", "value", "TypedString") and isinstance(v, (dict, list)):
                    # literals: nothing to bind (a placeholder is a value)
                    continue
                continue
            elif k == "Wildcard" or k == "QualifiedWildcard":
                if k == "QualifiedWildcard":
                    # count(t.*)-style argument
                    nm = objname(v[0]) if isinstance(v, list) else objname(v)
                    self.ev.append(E("Ref", q=".".join(nm), name="*", clause=clause))
                continue
            else:
                self.expr(v, clause)

    # ---------------------------------------------------------------- relations
    def table_factor(self, tf):
        (k, v), = tf.items()
        if k == "Table":
            nm = objname(v["name"])
            al = v.get("alias")
            if v.get("args") is not None:
                # table function
                self.expr(v["args"], "from")
                self.ev.append(E("From", kind="func", name=".".join(nm), alias=ident(al["name"]) if al else nm[-1],
                                 cols=[ident(c["name"]) if isinstance(c, dict) and "name" in c else ident(c) for c in (al or {}).get("columns", [])]))
                return
            # an unaliased table is referred to by its name as written (`a.b.c`.x)
            self.ev.append(E("From", kind="table", name=nm[-1], n=len(nm), q=".".join(nm[:-1]),
                             alias=ident(al["name"]) if al else ".".join(nm), flag=al is not None,
                             cols=[colname(c) for c in (al or {}).get("columns", [])]))
        elif k == "Derived":
            if v.get("lateral"):
                self.feat("lateral")
            self.query(v["subquery"], isolated=not v.get("lateral"))
            al = v.get("alias")
            self.ev.append(E("From", kind="derived", name="", alias=ident(al["name"]) if al else "", flag=al is not None,
                             cols=[colname(c) for c in (al or {}).get("columns", [])]))
        elif k == "NestedJoin":
            self.table_with_joins(v["table_with_joins"])
            if v.get("alias"):
                raise Unknown("aliased nested join")
        elif k in ("UNNEST", "TableFunction", "Function"):
            self.expr(v, "from")
            al = v.get("alias")
            self.ev.append(E("From", kind="func", name=k, alias=ident(al["name"]) if al else "", cols=[]))
        else:
            raise Unknown("table factor " + k)

    def table_with_joins(self, twj):
        self.table_factor(twj["relation"])
        for j in twj["joins"]:
            self.table_factor(j["relation"])
            op = j["join_operator"]
            if isinstance(op, str):
                self.ev.append(E("Join", kind=op))
                continue
            (jk, jv), = op.items()
            self.ev.append(E("Join", kind=jk))
            if isinstance(jv, dict):
                if "On" in jv:
                    self.expr(jv["On"], "on")
                elif "Using" in jv:
                    for c in jv["Using"]:
                        self.ev.append(E("Ref", q="", name=objname(c)[-1] if isinstance(c, list) else str(c), clause="using"))
            elif jv not in ("None", "Natural", None):
                raise Unknown("join constraint " + str(jv)[:40])

    # ---------------------------------------------------------------- selects / queries
    def select(self, s, outer_order=None, isolated=True):
        self.ev.append(E("Open", flag=isolated))
        for twj in s["from"]:
            self.table_with_joins(twj)
        self.ev.append(E("FromEnd", n=len(s["from"])))
        d = s.get("distinct")
        if isinstance(d, dict) and "On" in d:
            self.feat("distinct-on")
            self.expr(d["On"], "distinct-on")
        if s.get("top"):
            self.feat("top")
        self.expr(s.get("selection"), "where")
        if s.get("prewhere"):
            self.expr(s["prewhere"], "where")
        for it in s["projection"]:
            self.proj_item(it)
        gb = s.get("group_by")
        if isinstance(gb, dict) and "Expressions" in gb:
            self.expr(gb["Expressions"][0], "groupby")
        elif gb not in (None, "All") and not (isinstance(gb, dict) and "All" in gb):
            raise Unknown("group by " + str(gb)[:40])
        self.expr(s.get("having"), "having")
        self.expr(s.get("qualify"), "having")
        if s.get("qualify"):
            self.feat("qualify")
        for w in s.get("named_window", []):
            self.expr(w, "window")
        self.expr(s.get("sort_by"), "orderby")
        if outer_order is not None:
            self.expr(outer_order, "orderby")
        for k in ("cluster_by", "distribute_by", "lateral_views"):
            if s.get(k):
                raise Unknown(k)
        self.ev.append(E("Close"))

    def proj_item(self, it):
        if isinstance(it, str):
            raise Unknown("projection " + it)
        (k, v), = it.items()
        if k == "UnnamedExpr":
            self.expr(v, "select")
            if "Identifier" in v and isinstance(v["Identifier"], dict) and "value" in v["Identifier"]:
                self.ev.append(E("Proj", kind="col", name=v["Identifier"]["value"]))
            elif "CompoundIdentifier" in v:
                self.ev.append(E("Proj", kind="col", q=".".join(ident(i) for i in v["CompoundIdentifier"][:-1]), name=ident(v["CompoundIdentifier"][-1])))
            else:
                self.ev.append(E("Proj", kind="anon"))
        elif k == "ExprWithAlias":
            self.expr(v["expr"], "select")
            self.ev.append(E("Proj", kind="named", name=ident(v["alias"])))
        elif k in ("Wildcard", "QualifiedWildcard"):
            opts = v if k == "Wildcard" else v[1]
            q = ""
            if k == "QualifiedWildcard":
                t = v[0]
                if isinstance(t, dict) and "ObjectName" in t:
                    q = ".".join(objname(t["ObjectName"]))
                else:
                    raise Unknown("qualified wildcard on expression")
            exc = []
            ex = opts.get("opt_exclude")
            if ex:
                self.feat("star-exclude")
                (ek, evv), = ex.items()
                exc += [ident(evv)] if ek == "Single" else [ident(i) for i in evv]
            ex = opts.get("opt_except")
            if ex:
                self.feat("star-except")
                exc += [ident(ex["first_element"])] + [ident(i) for i in ex["additional_elements"]]
            for kk in ("opt_ilike", "opt_rename", "opt_replace"):
                if opts.get(kk):
                    raise Unknown(kk)
            self.ev.append(E("Proj", kind="qstar" if q else "star", q=q, cols=exc))
        else:
            raise Unknown("projection " + k)

    def set_expr(self, b, outer_order=None, isolated=True):
        (k, v), = b.items()
        if k == "Select":
            self.select(v, outer_order, isolated)
        elif k == "Query":
            if outer_order is not None:
                # ORDER BY applied to a parenthesised query: names only its output columns
                self.query(v, isolated)
                self.expr(outer_order, "setorder")
            else:
                self.query(v, isolated)
        elif k == "SetOperation":
            self.set_expr(v["left"], None, isolated)
            self.set_expr(v["right"], None, isolated)
            self.ev.append(E("SetOp", kind=v["op"].lower(), name=str(v["set_quantifier"]).lower()))
            if outer_order is not None:
                self.expr(outer_order, "setorder")
        elif k == "Values":
            rows = v["rows"]
            for r in rows:
                self.expr(r, "values")
            self.ev.append(E("Values", n=len(rows[0]) if rows else 0))
            if outer_order is not None:
                self.expr(outer_order, "setorder")
        else:
            raise Unknown("set expr " + k)

    def query(self, q, isolated=True):
        self.qdepth = getattr(self, "qdepth", 0) + 1
        outermost = self.qdepth == 1
        w = q.get("with")
        if w:
            self.ev.append(E("With", flag=bool(w.get("recursive"))))
            for c in w["cte_tables"]:
                nm = ident(c["alias"]["name"])
                self.ev.append(E("CteBegin", name=nm, flag=bool(w.get("recursive"))))
                self.query(c["query"], True)
                self.ev.append(E("CteEnd", name=nm, cols=[colname(x) for x in c["alias"].get("columns", [])]))
        ob = q.get("order_by")
        order = None
        dirs = ""
        if ob:
            kind = ob.get("kind")
            if isinstance(kind, dict) and "Expressions" in kind:
                order = [o["expr"] for o in kind["Expressions"]]
                # one letter per key: a(scending) / d(escending); the constant key T-SQL needs next to OFFSET..FETCH is no order
                const = lambda x: isinstance(x, dict) and "Value" in x and "Placeholder" in str(x["Value"])
                dirs = "".join("d" if (o.get("options") or {}).get("asc") is False else "a" for o in kind["Expressions"] if not const(o["expr"]))
            else:
                raise Unknown("order by " + str(kind)[:30])
        lc = q.get("limit_clause")
        if lc:
            (lk, lv), = lc.items()
            if lk == "LimitOffset":
                if lv.get("limit") is not None:
                    self.feat("limit")
                if lv.get("offset") is not None:
                    self.feat("offset" if lv.get("limit") is not None else "offset-without-limit")
                if lv.get("limit_by"):
                    self.feat("limit-by")
            else:
                self.feat("limit-comma")
        # row-position selection of this query: LIMIT / OFFSET / FETCH / TOP as written (digits), number of ORDER BY keys
        def num(e):
            if e is None:
                return ""
            if isinstance(e, dict) and "Value" in e:
                v = e["Value"].get("value", {})
                return v["Number"][0] if isinstance(v, dict) and "Number" in v else "?"
            if isinstance(e, dict) and "UnaryOp" in e and e["UnaryOp"].get("op") == "Minus":
                return "-" + num(e["UnaryOp"].get("expr"))
            return "?"
        lim = off = ""
        if lc and "LimitOffset" in lc:
            lim = num(lc["LimitOffset"].get("limit")); off = num((lc["LimitOffset"].get("offset") or {}).get("value"))
        if q.get("fetch"):
            lim = num(q["fetch"].get("quantity"))
        body = q.get("body", {})
        if isinstance(body, dict) and "Select" in body and body["Select"].get("top"):
            tq = body["Select"]["top"].get("quantity")
            lim = num(tq.get("Expr") if isinstance(tq, dict) and "Expr" in tq else (tq.get("Constant") if isinstance(tq, dict) else None)) if tq else "?"
            if isinstance(tq, dict) and "Constant" in tq:
                lim = str(tq["Constant"])
        if lim or off:
            self.ev.append(E("Take", name=lim, q=off if off not in ("0",) else "", n=len(order or []), kind=dirs))
        if outermost:
            # the order the statement's result is returned in
            self.ev.append(E("Take", name="final", q="", n=len(order or []), kind=dirs))
        if q.get("fetch"):
            self.feat("fetch")
            if lc is None or (lc.get("LimitOffset", {}).get("offset") is None):
                self.feat("fetch-without-offset")
            if order is None:
                self.feat("fetch-without-order")
        self.set_expr(q["body"], order, isolated)
        if w:
            self.ev.append(E("WithEnd"))
        self.qdepth -= 1
        for k in ("locks", "pipe_operators"):
            if q.get(k):
                raise Unknown(k)

def colname(c):
    if isinstance(c, dict) and "name" in c:
        return ident(c["name"])
    return ident(c)

def walk(rec):
    """rec: one line of `pv sqlast` -> event list (Begin ... End)"""
    ev = [E("Begin", name=str(rec["id"]), kind=rec["outcome"], q=rec["dialect"],
            flag=rec.get("parse_error", "") == "" and rec["outcome"] == "sql",
            n=rec.get("nstmt", 0), clause=("prepare-failed" if rec.get("prepare") not in (None, "ok") else ("printed-differs" if rec.get("fmt_same") is False else "")),
            alias=rec.get("world", "closed"))]
    # base tables: those the program names (extern references of its RQ); columns known when a schema is given
    sch = rec.get("schema") or {}
    if rec.get("expect") is not None:
        ev[0]["expect"] = list(rec["expect"]); ev[0]["has_expect"] = True; ev[0]["ordered"] = bool(rec.get("ordered", True))
    if rec.get("expect_takes") is not None:
        ev[0]["expect_takes"] = [list(x) for x in rec["expect_takes"]]; ev[0]["has_takes"] = True
    names = []
    for t in rec.get("tables", []):
        names += [t] + ([t.rsplit(".", 1)[1]] if "." in t else [])     # `a.b` is read back as b qualified by a
    ev[0]["tabs"] = [{"name": t, "closed": t in sch, "cols": list(sch.get(t, []))} for t in names]
    if rec["outcome"] == "sql" and rec.get("parse_error", "") == "" and rec.get("nstmt") == 1:
        st = rec["ast"][0]
        if "Query" not in st:
            ev.append(E("NotAQuery", name=next(iter(st))))
        else:
            w = Walker()
            try:
                w.query(st["Query"], True)
                ev += w.ev
            except Unknown as x:
                ev.append(E("Unknown", name=str(x)))
    ev.append(E("End"))
    return ev
