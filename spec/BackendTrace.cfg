SPECIFICATION TraceSpec
CONSTANTS
  Repaired = TRUE
  RepairedSI = TRUE
POSTCONDITION TraceAccepted
CHECK_DEADLOCK FALSE
