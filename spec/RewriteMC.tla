---------------------------- MODULE RewriteMC ----------------------------
(* The rewrite graph: start from a base program, apply up to Depth        *)
(* rewrites.  Invariant: the denotation (frame names, possible worlds on  *)
(* every database instance, order in effect) never changes.  Every        *)
(* reachable program is printed for replay.                               *)
EXTENDS Rewrite, Json, IOUtils

DbSet == JsonDeserialize(IOEnv.DBSET)
Cfg   == JsonDeserialize(IOEnv.REWRITECFG)     \* [bases: Seq(program), depth]
Dbs == DbSet.dbs
Schema == DbSet.schema
Depth == Cfg.depth

VARIABLES p, base, n
vars == <<p, base, n>>

Init == \E b \in Idx(Cfg.bases) : base = b /\ p = Cfg.bases[b] /\ n = 0

\* declarations -> initial state
RECURSIVE Declare(_, _)
Declare(st, ds) ==
  IF ds = <<>> THEN st
  ELSE LET d == Head(ds) IN
       Declare(IF d.kind = "let"
                 THEN [st EXCEPT !.env = Append(st.env, [name |-> d.name, short |-> d.short, steps |-> d.steps])]
                 ELSE [st EXCEPT !.fns = Append(st.fns, [name |-> d.name, params |-> d.params, named |-> d.named, body |-> d.body])],
               Tail(ds))
Final(q) == RunPipe(Declare(InitState(Len(Dbs)), q.decls), q.steps, Dbs, Schema)
Denote(q) == LET f == Final(q) IN
  [status |-> f.status, names |-> [i \in Idx(f.frame) |-> f.frame[i].name], W |-> f.W, dirs |-> f.dirs, loose |-> f.loose]

FrameAt(q, i) == RunPipe(Declare(InitState(Len(Dbs)), q.decls), SubSeq(q.steps, 1, i), Dbs, Schema).frame

Rewrites(q) ==
  { NameWithLet(q, i, sf) : i \in { i \in 1 .. (Len(q.steps) - 1) : CanName(q, i) },
                             sf \in (IF NDecl(q) = 0 THEN {"let", "into", "module"} ELSE {"let", "module"}) }
  \cup { SplitFilter(q, i) : i \in { i \in Idx(q.steps) : CanSplit(q, i) } }
  \cup { InsertFilterTrue(q, i) : i \in { i \in Idx(q.steps) : i = Len(q.steps) \/ i = 1 } }
  \cup { InsertAfter(q, i, SelectAll(FrameAt(q, i))) : i \in { i \in Idx(q.steps) : CanSelectAll(FrameAt(q, i)) /\ i >= Len(q.steps) - 1 } }
  \cup { RepeatSort(q, i) : i \in { i \in Idx(q.steps) : q.steps[i].op = "sort" } }
  \cup { ExtractItem(q, i, 1, sty) : i \in { i \in Idx(q.steps) : q.steps[i].op \in {"derive", "select"}
                                                                     /\ Extractable(q.steps[i].items[1].e) },
                                      sty \in {"pos", "pipe", "named"} }
  \cup { ExtractFilter(q, i, sty) : i \in { i \in Idx(q.steps) : q.steps[i].op = "filter" /\ Extractable(q.steps[i].e) },
                                    sty \in {"pos", "named"} }
  \cup { MoveToModule(q, j) : j \in { j \in Idx(q.decls) : CanMove(q, j) } }

OkRewrite(q, r) == r # q

Next == /\ n < Depth
        /\ \E r \in Rewrites(p) : OkRewrite(p, r) /\ p' = r
        /\ n' = n + 1 /\ UNCHANGED base
Spec == Init /\ [][Next]_vars

\* the law: every rewrite preserves the denotation of the base program
Preserved == Denote(p) = Denote(Cfg.bases[base])
BaseOk == Denote(Cfg.bases[base]).status = "ok"
Emit == (n > 0) => PrintT(<<"REPLAY", ToJson([base |-> base, n |-> n, decls |-> p.decls, steps |-> p.steps])>>)
=======================================================================
