------------------------------ MODULE Number ------------------------------
(* C08, numeric literals.  A decimal literal is written as                 *)
(*   ip [ "." fp ] [ "e" ex ]      with optional "_" between digits        *)
(* and denotes ip.fp * 10^ex exactly.  Without fraction and exponent it is *)
(* an integer (when it fits 64 bits) and must be emitted with exactly its  *)
(* digits; otherwise it is a float and the emitted token must denote the   *)
(* same decimal value.  Values are handled as DIGIT SEQUENCES, so no       *)
(* magnitude is out of reach of TLC's 32-bit integers.                     *)
EXTENDS Integers, Sequences, FiniteSets, TLC

RECURSIVE StripLeadingZeros(_)
StripLeadingZeros(ds) == IF Len(ds) > 1 /\ Head(ds) = 0 THEN StripLeadingZeros(Tail(ds)) ELSE ds
RECURSIVE StripTrailingZeros(_)
StripTrailingZeros(ds) == IF ds # <<>> /\ ds[Len(ds)] = 0 THEN StripTrailingZeros(SubSeq(ds, 1, Len(ds) - 1)) ELSE ds

\* comparison of canonical digit sequences (no leading zeros)
RECURSIVE LexLeq(_, _)
LexLeq(x, y) == IF x = <<>> THEN TRUE ELSE IF x[1] # y[1] THEN x[1] < y[1] ELSE LexLeq(Tail(x), Tail(y))
Leq(x, y) == Len(x) < Len(y) \/ (Len(x) = Len(y) /\ LexLeq(x, y))
I64Max == <<9,2,2,3,3,7,2,0,3,6,8,5,4,7,7,5,8,0,7>>

IsInteger(lit) == lit.fp = <<>> /\ ~lit.hasexp
\* canonical decimal of the value: [int |-> digits, frac |-> digits (no trailing zeros)]
\* ip.fp * 10^ex : shift the decimal point ex places
Zeros(k) == [i \in 1 .. k |-> 0]
Canon(lit) ==
  LET all == lit.ip \o lit.fp              \* digits, point after Len(ip)
      pt == Len(lit.ip) + lit.ex           \* position of the point after the shift
      padded == IF pt > Len(all) THEN all \o Zeros(pt - Len(all)) ELSE IF pt < 0 THEN Zeros(-pt) \o all ELSE all
      pt2 == IF pt < 0 THEN 0 ELSE pt
  IN [int |-> StripLeadingZeros(IF pt2 = 0 THEN <<0>> ELSE SubSeq(padded, 1, pt2)),
      frac |-> StripTrailingZeros(SubSeq(padded, pt2 + 1, Len(padded)))]

\* a float has ~15.9 decimal digits: beyond 15 significant digits only the leading 15 and the
\* magnitude can be required of a value that went through an f64
RECURSIVE LeadingZeros(_)
LeadingZeros(ds) == IF ds # <<>> /\ Head(ds) = 0 THEN 1 + LeadingZeros(Tail(ds)) ELSE 0
Sig(c) == IF c.int = <<0>> THEN SubSeq(c.frac, LeadingZeros(c.frac) + 1, Len(c.frac)) ELSE c.int \o c.frac
Mag(c) == IF c.int = <<0>> THEN -LeadingZeros(c.frac) ELSE Len(c.int)
\* the value went through an f64 and was printed with 15 significant digits, ROUNDED: its first 15
\* digits are those of the literal, or those plus one unit in the last place (with carry, possibly
\* into a new leading digit)
Pad15(ds) == IF Len(ds) >= 15 THEN SubSeq(ds, 1, 15) ELSE ds \o Zeros(15 - Len(ds))
RECURSIVE Inc(_)
Inc(ds) == IF ds = <<>> THEN <<1>>
           ELSE LET n == Len(ds) IN
                IF ds[n] < 9 THEN SubSeq(ds, 1, n - 1) \o <<ds[n] + 1>> ELSE Inc(SubSeq(ds, 1, n - 1)) \o <<0>>
Norm(ds, mag) == IF Len(ds) = 16 THEN [d |-> SubSeq(ds, 1, 15), m |-> mag + 1] ELSE [d |-> ds, m |-> mag]
Lead(c) == [d |-> Pad15(Sig(c)), m |-> Mag(c)]
SameFloat(c1, c2) ==
  IF Len(StripTrailingZeros(Sig(c1))) <= 15 /\ Len(StripTrailingZeros(Sig(c2))) <= 15 THEN c1 = c2
  ELSE LET a == Lead(c1)  b == Lead(c2) IN
       a = b \/ Norm(Inc(a.d), a.m) = b \/ Norm(Inc(b.d), b.m) = a

\* what the emitted SQL token must denote
ExpectInt(lit) == StripLeadingZeros(lit.ip)
FitsI64(lit) == Leq(StripLeadingZeros(lit.ip), I64Max)
=======================================================================
