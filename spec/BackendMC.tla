----------------------------- MODULE BackendMC -----------------------------
(* Bounded model of the back-end machine: every abstract (preprocessed)    *)
(* pipeline over the alphabet below is grown transform by transform, then  *)
(* compiled by the machine of Backend.tla (one Pop per scanned transform,  *)
(* Finish, the preceding part compiled in turn).  Invariants: every atomic *)
(* pipeline emitted means what its transforms mean in order (AtomicOk), no *)
(* transform is lost or duplicated by a split, every split makes progress. *)
(* One REPLAY line per complete pipeline: rendered to an RQ document and   *)
(* compiled by the real back end, whose hook events BackendTrace checks.   *)
EXTENDS Backend, Json

CONSTANTS MaxLen,      \* transforms between From and the final Select
          MaxComp,     \* Computes per pipeline
          Kinds,       \* subset of the step alphabet
          Emit,        \* print REPLAY lines
          Report       \* print BAD lines for atomic pipelines that fail AtomicOk and go on (survey mode)

VARIABLES phase, pipe, vis, nid, ncomp, srt, grouped, work, st, out, input, natom
vars == <<phase, pipe, vis, nid, ncomp, srt, grouped, work, st, out, input, natom>>

Base == <<1, 2>>
From == [T("From") EXCEPT !.sup = FALSE, !.cols = Base]
Init == /\ phase = "grow" /\ pipe = <<From>> /\ vis = Base /\ nid = 3 /\ ncomp = 0 /\ srt = FALSE /\ grouped = FALSE
        /\ work = <<>> /\ st = S0(<<>>) /\ out = <<>> /\ input = <<>> /\ natom = 0

Body == Len(pipe) - 1
CanGrow == phase = "grow" /\ Body < MaxLen
Add(t) == pipe' = Append(pipe, t)
Same == UNCHANGED <<work, st, out, input, natom>>

AddFilter == /\ CanGrow /\ "Filter" \in Kinds
             /\ \E c \in Set(vis) : Add([T("Filter") EXCEPT !.refs = <<c>>])
             /\ UNCHANGED <<phase, vis, nid, ncomp, srt, grouped>> /\ Same
AddCompute(cx) ==
  /\ CanGrow /\ ncomp < MaxComp
  /\ \E c \in Set(vis) :
       \/ cx = "plain" /\ Add([T("Compute") EXCEPT !.id = nid, !.cx = cx, !.refs = <<c>>])
       \/ cx = "nongroup" /\ Add([T("Compute") EXCEPT !.id = nid, !.cx = cx, !.refs = <<c>>])
       \/ cx = "windowed" /\ \E w \in Set(vis) : Add([T("Compute") EXCEPT !.id = nid, !.cx = cx, !.refs = <<c>>, !.wrefs = <<w>>])
  /\ vis' = Append(vis, nid) /\ nid' = nid + 1 /\ ncomp' = ncomp + 1
  /\ UNCHANGED <<phase, srt, grouped>> /\ Same
\* aggregate {x = f c} / group p (aggregate {x = f c}): an aggregation Compute followed by the Aggregate
AddAggregate ==
  /\ CanGrow /\ "Aggregate" \in Kinds /\ ncomp < MaxComp /\ Body + 2 <= MaxLen
  /\ \E c \in Set(vis), p \in {<<>>} \cup { <<x>> : x \in Set(vis) } :
       /\ pipe' = pipe \o << [T("Compute") EXCEPT !.id = nid, !.cx = "aggregation", !.refs = <<c>>],
                              [T("Aggregate") EXCEPT !.part = p, !.comp = <<nid>>] >>
       /\ vis' = Append(p, nid)
  /\ nid' = nid + 1 /\ ncomp' = ncomp + 1 /\ srt' = FALSE /\ grouped' = TRUE
  /\ UNCHANGED phase /\ Same
AddSort == /\ CanGrow /\ "Sort" \in Kinds
           /\ \E c \in Set(vis) : Add([T("Sort") EXCEPT !.cols = <<c>>])
           /\ srt' = TRUE /\ UNCHANGED <<phase, vis, nid, ncomp, grouped>> /\ Same
AddTake == /\ CanGrow /\ "Take" \in Kinds
           /\ Add([T("Take") EXCEPT !.sorted = srt, !.lo = -1, !.hi = 3])
           /\ UNCHANGED <<phase, vis, nid, ncomp, srt, grouped>> /\ Same
\* group this (take 1): preprocess::distinct turns it into DISTINCT
AddDistinct == /\ CanGrow /\ "Distinct" \in Kinds
               /\ Add([T("Distinct") EXCEPT !.sup = FALSE])
               /\ srt' = FALSE /\ UNCHANGED <<phase, vis, nid, ncomp, grouped>> /\ Same
\* group c (take 1) on a dialect with DISTINCT ON: a PQ Sort and the DistinctOn
AddDistinctOn == /\ CanGrow /\ "DistinctOn" \in Kinds /\ Body + 2 <= MaxLen
                 /\ \E c \in Set(vis) :
                      pipe' = pipe \o << [T("Sort") EXCEPT !.sup = FALSE], [T("DistinctOn") EXCEPT !.sup = FALSE, !.part = <<c>>] >>
                 /\ srt' = FALSE /\ UNCHANGED <<phase, vis, nid, ncomp, grouped>> /\ Same
AddJoin == /\ CanGrow /\ "Join" \in Kinds
           /\ \E c \in Set(vis), side \in {"Inner", "Left", "Right"} :
                Add([T("Join") EXCEPT !.sup = FALSE, !.refs = <<c, nid>>, !.cols = <<nid>>, !.side = side])
           /\ vis' = Append(vis, nid) /\ nid' = nid + 1
           /\ UNCHANGED <<phase, ncomp, srt, grouped>> /\ Same
\* append / remove / intersect as preprocess leaves them: PQ set operations
AddUnion == /\ CanGrow /\ "Union" \in Kinds
            /\ \E k \in {"Union", "Except", "Intersect"} \cap Kinds : Add([T(k) EXCEPT !.sup = FALSE])
            /\ srt' = FALSE /\ UNCHANGED <<phase, vis, nid, ncomp, grouped>> /\ Same

Decl(p) == LET cs == { i \in 1 .. Len(p) : p[i].k = "Compute" }
           IN [c \in { p[i].id : i \in cs } |-> p[CHOOSE i \in cs : p[i].id = c].cx]
NonSelect(p) == Filt(p, LAMBDA t : t.k # "Select")

\* close the pipeline with its Select (the whole frame, or its last column only), reorder, start compiling
Close ==
  /\ phase = "grow" /\ Body >= 1
  /\ \E sel \in {vis, <<vis[Len(vis)]>>} :
       LET p == Reorder(Append(pipe, [T("Select") EXCEPT !.cols = sel]))
       IN /\ pipe' = p /\ work' = << [p |-> p, out |-> sel] >>
          /\ (Emit => PrintT(<<"REPLAY", ToJson(p)>>))
  /\ phase' = "next"
  /\ UNCHANGED <<vis, nid, ncomp, srt, grouped, st, out, input, natom>>

\* extract_atomic on the next pipeline waiting (the main one, then each preceding part)
ScanStart == /\ phase = "next" /\ work # <<>>
             /\ st' = Start(Head(work).p, Head(work).out) /\ out' = Head(work).out /\ input' = Head(work).p
             /\ work' = Tail(work) /\ phase' = "scan"
             /\ UNCHANGED <<pipe, vis, nid, ncomp, srt, grouped, natom>>
ScanPop == /\ phase = "scan" /\ ~Done(st)
           /\ st' = Pop(st, Decl(pipe))
           /\ UNCHANGED <<phase, pipe, vis, nid, ncomp, srt, grouped, work, out, input, natom>>
ScanFinish == /\ phase = "scan" /\ Done(st)
              /\ natom' = natom + 1
              /\ work' = IF Preceding(st) = <<>> THEN work
                         ELSE Append(work, [p |-> Preceding(st), out |-> Missing(st)])
              /\ phase' = "next"
              /\ UNCHANGED <<pipe, vis, nid, ncomp, srt, grouped, st, out, input>>
Finished == phase = "next" /\ work = <<>> /\ UNCHANGED vars

Next == \/ AddFilter \/ AddCompute("plain") \/ AddCompute("nongroup") \/ AddCompute("windowed") \/ AddAggregate \/ AddSort \/ AddTake
        \/ AddDistinct \/ AddDistinctOn \/ AddJoin \/ AddUnion \/ Close \/ ScanStart \/ ScanPop \/ ScanFinish \/ Finished
Spec == Init /\ [][Next]_vars

\* ---------------------------------------------------------------- invariants
\* the atomic pipeline of a finished scan means what its transforms mean in order
Kinds_(A) == [i \in 1 .. Len(A) |-> IF A[i].k = "Compute" THEN A[i].cx ELSE A[i].k]
EmittedOk == (phase = "scan" /\ Done(st)) =>
               \/ AtomicOk(Atomic(st, out))
               \/ Report /\ PrintT(<<"BAD", Verdict(Atomic(st, out)), Kinds_(Atomic(st, out)), FirstBadPair(Atomic(st, out)), ToJson(input)>>)
\* a split neither loses nor duplicates nor reorders a transform
NoLoss == (phase = "scan" /\ Done(st)) => NonSelect(st.rest) \o Rev(st.cur) = NonSelect(input)
\* a scan that leaves a preceding part has absorbed at least one transform
Progress == (phase = "scan" /\ Done(st) /\ st.rest # <<>>) => Len(st.cur) >= 1
\* the columns the atomic pipeline asks of the preceding part are produced there
Closed == (phase = "scan" /\ Done(st) /\ st.rest # <<>>) =>
             \A c \in Set(Missing(st)) : \/ \E i \in 1 .. Len(st.rest) : st.rest[i].k = "Compute" /\ st.rest[i].id = c
                                         \/ \E i \in 1 .. Len(st.rest) : st.rest[i].k \in {"From", "Join"} /\ c \in Set(st.rest[i].cols)
View == <<phase, pipe, vis, nid, ncomp, srt, work, st, out>>
=============================================================================
