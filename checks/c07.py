"""C07: every accepted program compiles to SQL the selected dialect parses and binds
(spec/SqlScope.tla, SqlScopeTrace; recorder lib/sqlwalk.py; `pv sqlast`)."""
import sys, os, json, random, glob, copy, csv, re
sys.path.insert(0, os.path.join(os.path.dirname(os.path.abspath(__file__)), "..", "lib"))
from vlib import *
from progs import *
import l1, gen, sqlwalk, l1props, corpus, c16

DECL = "module default_db {\n  let t <[{k = int, a = int, b = int}]>\n  let u <[{k = int, a = int, c = int}]>\n}\n"
TU = {"t": ["k", "a", "b"], "u": ["k", "a", "c"]}

EXPRS = [
    "math.abs a", "math.floor a", "math.ceil a", "math.pi", "math.exp a", "math.ln a", "math.log10 a", "math.log 2 a", "math.sqrt a",
    "math.degrees a", "math.radians a", "math.cos a", "math.acos a", "math.sin a", "math.asin a", "math.tan a", "math.atan a",
    "math.pow 2 a", "math.round 2 a",
    "text.lower s", "text.upper s", "text.ltrim s", "text.rtrim s", "text.trim s", "text.length s", "text.extract 1 2 s",
    "text.replace 'a' 'b' s", "text.starts_with 'a' s", "text.contains 'a' s", "text.ends_with 'a' s",
    "date.to_text '%Y-%m-%d' d", "date.to_text '%d/%m/%y %H:%M:%S' d", "date.to_text '%A %B %-d' d",
    "a // 2", "a % 2", "a ** 2", "a / 2", "a ?? 0", "-a", "!(a > 1)", "s ~= 'x'", "a == null", "a != null",
    "(a | in 1..3)", "(a | in ..3)", "(a | in 1..)", "(s | in 'a'..'c')",
    "(a | as int)", "(a | as float)", "(a | as text)", "(a | as bool)", "(s | as date)", "(s | as timestamp)", "(a | as int64)", "(a | as string)",
    "case [a > 1 => 'x', a < 0 => 'y', true => 'z']", "case [a > 1 => 1]",
    "f'{s} and {s}'", "f'{a}'", "f'only'", "f'{s}'",
    "@2020-01-01", "@2020-01-01T12:00:00", "@12:30", "@2020-01-01T12:00:00+01:00", "@2020-01-01T12:00:00Z", "2days", "3hours", "1years", "10microseconds", "d + 2days",
    "true", "false", "null", "1.5", "1e10", "'text'", "\"dq\"", "r'raw\\n'", "0x1f", "1_000",
    "[a, b]", "s\"ABS({a})\"", "a > 1 && b < 2 || a == 3",
]
AGGS = ["min a", "max a", "sum a", "average a", "stddev a", "all (a > 1)", "any (a > 1)", "concat_array s", "count a", "count this", "count_distinct a"]
WINS = ["lag 1 a", "lead 1 a", "first a", "last a", "rank a", "rank_dense a", "row_number this", "sum a", "average a", "count a"]

def special():
    out = []
    X = "module default_db {\n  let x <[{k = int, a = int, b = int, s = text, d = date}]>\n  let y <[{k = int, a = int, b = int, s = text, d = date}]>\n}\n"
    xs = {"x": ["k", "a", "b", "s", "d"], "y": ["k", "a", "b", "s", "d"]}
    for i, e in enumerate(EXPRS):
        out.append((f"e{i}", X + f"from x | derive {{v = {e}}}", xs))
        out.append((f"ef{i}", X + f"from x | filter ({e}) != null | select {{k}}", xs))
        out.append((f"eo{i}", f"from x | select {{v = {e}}}", None))
    for i, e in enumerate(AGGS):
        out.append((f"a{i}", X + f"from x | aggregate {{v = {e}}}", xs))
        out.append((f"ag{i}", X + f"from x | group k (aggregate {{v = {e}}})", xs))
        out.append((f"aw{i}", X + f"from x | derive {{v = {e}}}", xs))
    for i, e in enumerate(WINS):
        out.append((f"w{i}", X + f"from x | group k (sort b | derive {{v = {e}}})", xs))
        out.append((f"ww{i}", X + f"from x | window rows:-2..0 (sort b | derive {{v = {e}}})", xs))
        out.append((f"wf{i}", X + f"from x | group k (sort b | derive {{v = {e}}}) | filter v != null", xs))
    # set operations: declared / selected / open operands, with and without distinct
    shapes = [("from x", "from y"), ("from x | select {k, a}", "from y | select {k, a}"), ("from x | select {k, a}", "from y | select {a, b}"),
              ("from x | select {k}", "from y | select {k} | take 3"), ("from x | sort a | take 5", "from y | filter a > 1")]
    n = 0
    for top, bot in shapes:
        for op in ("append", "remove", "intersect"):
            for dist in (False, True):
                for declared in (True, False):
                    t = top + (" | group this (take 1)" if dist else "")
                    src = (X if declared else "") + f"{t} | {op} ({bot})" + (" | sort k | take 2" if n % 2 else "")
                    out.append((f"so{n}", src, xs if declared else None)); n += 1
    # whole-row de-duplication directly after a set operation (UNION [DISTINCT] ...)
    n = 0
    for top, bot in shapes[:4]:
        for op in ("append", "remove", "intersect"):
            for declared in (True, False):
                src = (X if declared else "") + f"{top} | {op} ({bot}) | group this (take 1)" + (" | sort k" if n % 2 else "")
                out.append((f"sd{n}", src, xs if declared else None)); n += 1
    more = [
        "from x | select {a = a ?? 0} | loop (filter a < 3 | select {a = a + 1})",
        "from x | select {k, a} | loop (filter a < 3 | select {k, a = a + 1}) | sort k",
        "from [{p = 1, q = 'a'}, {p = 2, q = 'b'}] | derive {r = p + 1}",
        "from [{p = 1}] | join x (p == x.k) | select {p, x.a}",
        "from x | take 5", "from x | take 3..5", "from x | take 3..", "from x | take ..5", "from x | sort a | take 2..4 | take 1",
        "from x | group k (take 1)", "from x | group {k, a} (sort {-b} | take 1)", "from x | group k (sort b | take 2..3)",
        "from x | select {}", "from x | derive {} | take 1", "from x | select !{k, a, b, s, d}", "from x | select !{k}", "from x | select !{k} | take 3 | filter a > 1",
        "from x | join y (==k) | select !{x.k, y.k}", "from x | join y (==k) | select {x.*} | select !{a}", "from x | join y (==k) | select {x.*, y.*}",
        "from x | join side:full y (x.k == y.k && x.a > y.b)", "from x | join side:right y (==k) | filter y.a == null", "from x | join side:left y (==k) | aggregate {n = count y.k}",
        "from x | join y true", "from x | join y (==k) | join z = y (x.a == z.a) | select {x.k, y.b, z.s}",
        "from x | aggregate {n = count this} | derive {m = n + 1}", "from x | filter a > 1 | aggregate {s = sum a} | filter s > 3",
        "from x | derive {r = rank a} | filter r < 3 | sort r", "from x | sort a | derive {r = row_number this} | filter r % 2 == 0",
        "from x | group k (aggregate {s = sum a}) | sort {-s} | take 3 | join y (==k)",
        "from x | select {a, b} | sort a | select {b}", "from x | sort {a, -b} | select {c = a + b} | take 3",
        "from x | derive {a = a + 1} | derive {a = a * 2} | filter a > 3 | select {a}",
        "from x | select {`my col` = a, `select` = b} | filter `my col` > 1 | sort `select`",
        "from x | select {x.a, x.b} | derive {c = x.a}", "from z = x | select {z.a} | join x (z.a == x.a)",
        "let p = (from x | filter a > 1)\nlet q = (from p | join y (==k))\nfrom q | join p (==k) | take 2",
        "from x | join (from y | select {k, m = a} | take 3) (==k) | join (from y | group k (aggregate {n = count this})) (==k)",
        "from x | filter (a | in 1..3) && (s | text.contains 'a') | sort {s, -a} | take 1..2",
        "from x | group k (window rolling:3 (sort a | derive {m = average b}))", "from x | window expanding:true (sort a | derive {m = sum b})",
        "from x | window range:-2..2 (sort a | derive {m = sum b})",
        "from x | derive {d2 = (d | date.to_text '%Y')} | group d2 (aggregate {n = count this}) | sort d2",
        "from x | select {k} | append (from y | select {k}) | append (from x | select {k = a}) | group k (aggregate {n = count this})",
        "from x | select {k} | remove (from y | select {k}) | intersect (from x | select {k = a})",
        "from (read_csv 'a.csv') | take 1", "from (read_parquet 'a.parquet') | take 1", "from (read_json 'a.json') | take 1",
        "from (from_text \"a,b\\n1,2\") | select {a}", "from (from_text format:json '[{\"a\": 1}]') | select {a}",
        "from x | derive {v = prql.version}", "from x | derive {y = 1} | select {x.*, y}", "from x | sort s | group a (take 1) | sort s",
        "from x | take 10 | filter true | take 20 | filter true | select {c = 10}",
        "from x | select {a} | take 0", "from x | filter false", "from x | aggregate {max a, min a}", "from x | group k (aggregate {max a, min a}) | sort k",
    ]
    for i, s in enumerate(more):
        out.append((f"m{i}", X + s, xs))
        out.append((f"mo{i}", s, None))
    # loop followed by transforms that need further sub-queries (the recursive CTE is then not the last one)
    loops = ["from x | select {a} | loop (filter a < 10 | select {a = a + 1})", "from x | select {k, a} | loop (filter a < 3 | select {k, a = a + 1})"]
    posts = ["take 5 | filter a > 1", "sort a | take 3 | derive {r = rank a}", "aggregate {n = count this} | derive {m = n + 1}", "join y (==a) | take 2 | filter x.a > 0",
             "group a (take 1) | sort a", "derive {r = row_number this} | filter r > 1", "take 2 | append (from y | select {a}) | take 1"]
    n = 0
    for lp in loops:
        for po in posts:
            if "join y (==a)" in po and "{k, a}" in lp:
                po = po.replace("x.a", "k")
            out.append((f"lp{n}", X + lp + " | " + po, xs)); n += 1
    # group (take n) -> DISTINCT ON / ROW_NUMBER: split before the group x key x sort inside or not x key kept or dropped afterwards
    pres = ["select {k, a, b}", "select {k, a, b} | take 10", "filter a > 0 | take 10", "derive {w = sum b} | select {k, a, w}", "sort b | take 10"]
    keys = ["k", "{k, a}", "a"]
    inners = ["take 1", "sort b | take 1", "sort {-a} | take 2", "take 2..3"]
    outs = ["", "select {a}", "select !{k}", "aggregate {n = count this}", "select {a} | take 2", "derive {z = a + 1} | select {z}"]
    n = 0
    for pre in pres:
        for ky in keys:
            for inn in inners:
                for o in outs:
                    if "b" in inn and "w}" in pre:
                        continue
                    src = f"from x | {pre} | group {ky} ({inn})" + (f" | {o}" if o else "")
                    out.append((f"do{n}", X + src, xs)); n += 1
    # user aliases / tables that look like generated names
    gn = [
        "from table_0 = x | join (from y | take 3) (==k)", "from x | join table_0 = y (==k) | take 3 | filter x.a > 1 | join (from y | take 2) (==k)",
        "from table_0 = x | take 3 | derive {m = a + 1} | filter m > 1 | take 2", "from x | join table_1 = (from y | take 3) (==k) | join (from y | take 2) (x.k == y.k)",
        "from table_0 = x | join table_1 = y (==k) | group {table_0.a} (sort table_1.b | take 1) | take 3 | filter a > 1",
        "from x | select {_expr_0 = a, b} | group _expr_0 (take 1)", "from x | select {_expr_0 = a, b} | derive {r = rank b} | filter r < 2",
        "from table_0 = x | select {k} | append (from y | select {k} | take 2) | take 3 | filter k > 1",
    ]
    for i, s in enumerate(gn):
        out.append((f"gn{i}", X + s, xs))
    return out

def chinook_schema():
    d = "/repo/prqlc/prqlc/tests/integration/data/chinook"
    sch = {}
    for f in sorted(glob.glob(d + "/*.csv")):
        with open(f, newline="") as fh:
            sch[os.path.basename(f)[:-4]] = next(csv.reader(fh))
    return sch

def build_sources(tier, d, rnd, tag="C07"):
    """the programs C07 compiles for every dialect (also the corpus of the back-end machine check, lib/backendrun.py)"""
    dbset = os.path.join(ROOT, "corpus", "dbs_quick.json")
    # (a) programs of the L1 language model: bounded-exhaustive + window slots + random, declared and open
    progs = []
    p1, info = l1.mc_generate(tag + "-mc", model([from_("t")], l1props.alph_c01(), 3 if tier == "quick" else 4), dbset, workers=8)
    states, transitions = info["distinct"], info["generated"]
    progs += p1 if tier == "thorough" else rnd.sample(p1, min(len(p1), 700))
    p5, info5 = l1.mc_generate(tag + "-mc5", model([from_("t")], l1props.alph_c05(), 3 if tier == "quick" else 4), dbset, workers=8)
    progs += p5 if tier == "thorough" else rnd.sample(p5, min(len(p5), 500)); states += info5["distinct"]; transitions += info5["generated"]
    for sl in (l1props.slots_c04_top, l1props.slots_c04_group):
        p2, info2 = l1.mc_generate(tag + "-slots", model([from_("t")], sl("quick"), 4), dbset, workers=8)
        states += info2["distinct"]; transitions += info2["generated"]
        progs += (p2 if tier == "thorough" else rnd.sample(p2, min(len(p2), 250)))
    g = gen.G(seed(), safe=False, p_shadow=0.1, append_bare=0.3)
    progs += [g.program(i) for i in range(500 if tier == "quick" else 8000)]
    for i, p in enumerate(progs):
        p["id"] = f"g{i}"
    # open-schema twins follow their declared programs (an open program is only judged where its declared twin
    # compiles: otherwise it may name columns the tables do not have, which the compiler cannot know)
    chosen = set(rnd.sample(range(len(progs)), min(len(progs), 400 if tier == "quick" else 6000)))
    allp = []
    for i, p in enumerate(progs):
        allp.append(p)
        if i in chosen:
            q = copy.deepcopy(p); q["decl"] = False; q["id"] = p["id"] + "o"; allp.append(q)
    prog_of = {p["id"]: p for p in allp}
    write_ndjson(os.path.join(d, "progs.ndjson"), allp)
    pv(["render-ndjson", dbset, os.path.join(d, "progs.ndjson"), os.path.join(d, "gsrc.ndjson")])
    srcs = [dict(r, schema=TU) for r in read_ndjson(os.path.join(d, "gsrc.ndjson"))]
    for i, s in enumerate(c16.HAND):
        srcs.append({"id": f"h{i}", "src": s, "schema": TU}); srcs.append({"id": f"hd{i}", "src": DECL + s, "schema": TU})
    # statements the printer of the default options is known to change (F124: a backslash before a quote; the `$` names of F126 are left to C09:
    # sqlparser's tokenizers disagree about them), so that rule `printed` of SqlScopeTrace is exercised on every run, next to statements it must leave alone
    for i, s in enumerate(['from t | select {v = "a\\\\"}', 'from t | filter b != "it\\\\" | select {k}', 
                           'from t | select {v = "a b\\\\c", w = "x--y", `sel ect` = a, z = \'q"r\'}']):
        srcs.append({"id": f"pr{i}", "src": s, "schema": TU})
    # (b) the repository's queries over the chinook schema, book snippets (unknown schemas)
    ch = chinook_schema()
    for n, s in corpus.repo_queries():
        srcs.append({"id": "q-" + n, "src": s, "schema": ch})
    book = corpus.book_snippets()
    for n, _, s in (book if tier == "thorough" else rnd.sample(book, min(len(book), 120))):
        srcs.append({"id": "b-" + str(n), "src": s})
    for i, s in enumerate(corpus.SYNTAX):
        srcs.append({"id": f"s{i}", "src": s, "schema": TU})
    # (c) constructs x dialects: std functions, operators, casts, literals, set operations, loop, names like generated ones
    for n, s, sch in special():
        srcs.append({"id": "c-" + n, "src": s, **({"schema": sch} if sch else {})})
    return srcs, prog_of, states, transitions

def check(tier):
    rep = Report("C07", tier)
    d = workdir("C07")
    build_harness()
    rnd = random.Random(seed())
    srcs, prog_of, states, transitions = build_sources(tier, d, rnd)
    src_of = {r["id"]: r for r in srcs}
    # shards -> pv sqlast (all 12 dialects) -> walks -> SqlScopeTrace
    import scoperun
    sr = scoperun.run(d, srcs)
    tot, nev, nq, nskip, tstates = sr["stats"], sr["events"], sr["judged"], sr["skipped"], sr["states"]
    verdicts = {}
    for rj in sr["rejects"]:
        pid_, dialect, verdict, detail, rec = rj["id"], rj["dialect"], rj["verdict"], rj["detail"], rj["rec"]
        sig = signature(verdict, dialect, detail, src_of[pid_]["src"], rec, prog_of.get(pid_))
        verdicts[verdict] = verdicts.get(verdict, 0) + 1
        rep.violation({"property": "C07", "kind": verdict, "dialect": dialect, "id": pid_, "prql": src_of[pid_]["src"], "sql": rec.get("sql"),
                       "event": detail, "parse_error": rec.get("parse_error"), "prepare": rec.get("prepare"), "trace_file": rj["trace_file"], "line": rj["line"]}, sig)
    # L2: the back-end machine (spec/Backend.tla): aggregate / window functions nested where SQL does not allow them
    import backend
    bcov, bstates, bn = backend.phase(rep, "C07", tier, sources=[{"id": s["id"], "src": s["src"]} for s in srcs])
    # binding demonstration: plant one scope defect of each kind into recorded statements and expect the rule's name
    selftest(d)
    cal = calibrate(d, 600 if tier == "quick" else 4000)
    cov = {**bcov, "monitor_calibration_against_sqlite": cal,"states": states + tstates + bstates, "transitions": transitions + nev, "traces_validated_against_impl": nq + bn,
           "samples": [{"prql": srcs[0]["src"]}, {"prql": srcs[-1]["src"]}],
           "explanation": f"{len(srcs)} programs (bounded-exhaustive and random programs of the language model with declared and open schemas, repository queries over the chinook schema, book snippets, std functions / operators / casts / literals / set operations / loop x operand shapes, user names shaped like generated ones) x 12 dialects = {tot.get('compiled', 0) + tot.get('err', 0) + tot.get('panic', 0)} compilations; {nq} emitted statements re-parsed with the dialect's parser and their scope walk validated by SqlScopeTrace ({nev} events), {tot.get('prepared', 0)} also prepared by SQLite; compile errors ({tot.get('err', 0)}) are the allowed outcome for inexpressible constructs, panics ({tot.get('panic', 0)}) are C12's",
           "programs": len(srcs), "dialects": 12, "statements_judged": nq, "not_successful": nskip, "events": nev, "outcomes": tot,
           "oracle_limits_applied": {k: v for k, v in tot.items() if k.startswith("oracle_limit_")}, "verdicts_seen": verdicts}
    return rep.finish("model_checking", cov,
                      ["syntax is judged by sqlparser 0.60's grammar for the dialect (glaredb -> postgres, ansi/generic as named), binding by the scope monitor; SQLite is the only engine executed (prepare against the schema)",
                       "base-table columns are known for the declared test schemas and chinook; elsewhere tables are open and only alias / relation scoping is decided",
                       "the dialect feature table of SqlScope.tla lists only constructs whose absence in the engine is documented; other constructs are not judged",
                       "programs containing s-strings carry user SQL: their syntax is not judged"])

def signature(verdict, dialect, detail, src, rec, prog):
    """the failing case in the vocabulary known findings are written in: a binding failure is an execution error,
    whether SQLite's prepare reports it or the scope monitor does for a dialect without an engine here"""
    import tags
    parts = detail.split(":")
    q, name = (parts[1], parts[2]) if len(parts) > 2 else ("", "")
    qn = (q + "." if q else "") + name
    synth = {"unknown-column": "no such column: " + qn, "dangling-alias": "no such column: " + qn, "ambiguous-column": "ambiguous column name: " + qn,
             "unknown-relation": "no such table: " + name, "setop-arity": "SELECTs to the left and right do not have the same number of result columns",
             "syntax": "syntax: " + (rec.get("parse_error") or ""), "prepare": rec.get("prepare") or ""}
    return {"what": "c07-" + verdict, "verdict": verdict, "dialect": dialect, "detail": detail, "src": src, "sql": rec.get("sql") or "",
            "exec_error": synth.get(verdict, verdict), "parse_error": rec.get("parse_error") or "", "name": name,
            "tags": sorted(tags.tags(prog)) if prog else []}

def calibrate(d, n):
    """the scope monitor against SQLite: generated statements over t, u (CTE chains, derived tables, joins, stars, set
    operations), each also with one planted scope defect; the monitor's verdict must be SQLite's for every one"""
    import sqlgen
    g = sqlgen.Gen(seed())
    cases = []
    for i in range(n):
        q = g.query()
        if g.skip:
            continue
        cases.append({"name": f"v{i}", "sql": q, "planted": ""})
        m = g.mutate(q)
        if m:
            cases.append({"name": f"m{i}", "sql": m[0], "planted": m[1]})
    src = os.path.join(d, "cal.sql.ndjson"); write_ndjson(src, cases)
    sch = os.path.join(d, "cal.schema.json"); json.dump(sqlgen.SCHEMA, open(sch, "w"))
    out = os.path.join(d, "cal.ast.ndjson")
    pv(["sqlparse", src, out, "sqlite", sch])
    base = {"dialect": "sqlite", "outcome": "sql", "nstmt": 1, "world": "closed", "tables": ["t", "u"], "schema": sqlgen.SCHEMA}
    evs, prep = [], {}
    for r in read_ndjson(out):
        prep[r["name"]] = r.get("prepare")
        evs += sqlwalk.walk(dict(base, id=r["name"], ast=r.get("ast"), parse_error=r.get("parse_error", "")))
    evs.append(sqlwalk.E("Stop"))
    tp = os.path.join(d, "cal.walk.ndjson"); write_ndjson(tp, evs)
    o, ti = tlc("SqlScopeTrace", "SqlScopeTrace.cfg", env={"TRACE": tp}, workers=1, deque=True)
    tr = tuples(o, "TRACE")
    if not ti["no_error"] or not tr or tr[0][1] != tr[0][2]:
        raise ToolError("SqlScopeTrace did not consume the calibration trace")
    rej = {r[1]: r[3] for r in tuples(o, "REJECT")}
    stats = {"statements": len(cases), "accepted_by_both": 0, "rejected_by_both": 0}
    for c in cases:
        mon, sq = c["name"] in rej, prep[c["name"]] != "ok"
        if mon != sq:
            raise ToolError(f"scope monitor and SQLite disagree (monitor: {rej.get(c['name'], 'accept')}, SQLite: {prep[c['name']][:80]}): {c['sql']}")
        stats["rejected_by_both" if mon else "accepted_by_both"] += 1
    return stats

def selftest(d):
    base = {"id": "self", "dialect": "sqlite", "outcome": "sql", "parse_error": "", "nstmt": 1, "world": "closed", "tables": ["t", "u"], "schema": TU}
    cases = {
        "ok": "WITH table_0 AS (SELECT k, a FROM t) SELECT table_0.k, u.c FROM table_0 JOIN u ON table_0.k = u.k ORDER BY table_0.a",
        "unknown-relation": "WITH table_0 AS (SELECT k FROM (SELECT * FROM t) AS table_1) SELECT k FROM table_1",
        "dangling-alias": "WITH table_0 AS (SELECT k, a FROM t) SELECT k FROM table_0 ORDER BY t.a",
        "duplicate-alias": "WITH table_0 AS (SELECT k FROM t) SELECT u.c FROM table_0 JOIN u AS table_0 ON true",
        "ambiguous-column": "SELECT k FROM t JOIN u ON t.k = u.k",
        "unknown-column": "WITH table_0 AS (SELECT k FROM t) SELECT a FROM table_0",
        "setop-arity": "SELECT k, a FROM t UNION ALL SELECT k FROM u",
        "unsupported-construct": "SELECT k FROM t EXCEPT ALL SELECT k FROM u",
    }
    import subprocess
    src = os.path.join(d, "self.sql.ndjson")
    write_ndjson(src, [{"name": k, "sql": v} for k, v in cases.items()])
    out = os.path.join(d, "self.ast.ndjson")
    pv(["sqlparse", src, out, "sqlite"])
    evs = []
    for r in read_ndjson(out):
        rec = dict(base, id=r["name"], ast=r["ast"], parse_error=r.get("parse_error", ""))
        evs += sqlwalk.walk(rec)
    evs.append(sqlwalk.E("Stop"))
    tp = os.path.join(d, "self.walk.ndjson"); write_ndjson(tp, evs)
    o, ti = tlc("SqlScopeTrace", "SqlScopeTrace.cfg", env={"TRACE": tp}, workers=1, deque=True)
    got = {r[1]: r[3] for r in tuples(o, "REJECT")}
    want = {k: k for k in cases if k != "ok"}
    if got != want:
        raise ToolError(f"C07 selftest: planted scope defects not recognised: got {got}")
