"""C06: refactorings PRQL defines as equivalent do not change results (spec/Rewrite.tla + RewriteMC)."""
import sys, os, json, random, copy
sys.path.insert(0, os.path.join(os.path.dirname(os.path.abspath(__file__)), "..", "lib"))
from vlib import *
from progs import *
import l1, l1check, gen, l1props

k, a, b = col("k"), col("a"), col("b")
def P(*steps): return {"decls": [], "steps": [dict(s, at=[]) for s in steps]}

def hand_bases():
    x = col("x")
    return [
        P(from_("t"), filter_(bin_("&&", bin_(">", a, lit(0)), bin_("!=", b, lit(None)))), derive(item(bin_("+", bin_("*", a, lit(2)), b), "x")), sort(("desc", "x"), ("asc", "k")), take(1, 2)),
        P(from_("t"), select(item(bin_("-", a, b), "d"), item("k")), filter_(bin_(">", col("d"), lit(0))), aggregate(item(agg("sum", col("d")), "s"))),
        P(from_("t"), sort(("asc", "a"), ("desc", "k")), take(2, 3, True), derive(item(case((bin_(">", b, lit(1)), a), (lit(True), lit(0))), "c"))),
        P(from_("t"), filter_(bin_("&&", bin_("||", bin_("<", a, lit(2)), bin_("==", b, lit(None))), bin_(">", k, lit(1)))), group(["a"], [aggregate(item(agg("count", k), "n"), item(agg("max", b), "m"))])),
        P(from_("t"), derive(item(bin_("??", b, lit(0)), "bb")), group(["a"], [sort(("desc", "k")), take(1, 1)]), select(item("a"), item("bb"))),
        P(from_("t"), filter_(inr(a, lit(0), lit(2))), sort(("asc", "k")), derive(item(agg("sum", b), "tot"), item(agg("row_number", k), "rn"))),
        P(from_("t"), select(item("k"), item(bin_("*", a, a), "sq")), sort(("desc", "sq"), ("asc", "k")), take(1, 3), filter_(bin_("&&", bin_(">=", col("sq"), lit(1)), bin_("<", k, lit(4))))),
        P(from_("u"), filter_(bin_("!=", col("c"), lit(None))), derive(item(bin_("-", lit(0), col("c")), "nc")), aggregate(item(agg("min", col("nc")), "mn"), item(agg("count", k), "n"))),
        P(from_("t"), join("left", [from_("u")], eqcol("k"), explicit=True), filter_(bin_("&&", bin_(">", col("a", "t"), lit(0)), bin_("==", col("c"), lit(None))))),
        P(from_("t"), sort(("asc", "b"), ("asc", "k")), filter_(bin_("&&", bin_("!=", a, lit(None)), bin_("!=", b, lit(None)))), take(1, 2), select(item("k"), item(bin_("+", a, b), "s"))),
        # conjuncts that are constant
        P(from_("t"), select(item("a"), item("b")), filter_(bin_("&&", bin_(">", a, lit(1)), lit(False)))),
        P(from_("t"), filter_(bin_("&&", lit(True), bin_(">", a, lit(0)))), aggregate(item(agg("count", k), "n"))),
        P(from_("t"), group(["a"], [aggregate(item(agg("sum", b), "s"))]), filter_(bin_("&&", bin_(">", col("s"), lit(0)), bin_("==", lit(1), lit(2))))),
        # a computed column ahead of table columns, then a group: the partition is `this.*` minus the key
        P(from_("t"), select(item(bin_("+", a, lit(1)), "x"), item("b"), item("k")), group(["k"], [derive(item(agg("max", b), "m"))])),
        P(from_("t"), derive(item(bin_("*", b, lit(2)), "y")), select(item("y"), item("a"), item("k")), exclude("k")),
    ]

def check(tier):
    rep = Report("C06", tier)
    d = workdir("C06")
    build_harness()
    dbset = os.path.join(ROOT, "corpus", "dbs_quick.json" if tier == "quick" else "dbs_thorough.json")
    rnd = random.Random(seed())
    bases = hand_bases()
    g = gen.G(seed(), safe=True, p_join=0.0, p_append=0.0, p_group=0.2)
    want = 50 if tier == "quick" else 500
    tries = 0
    while len(bases) < 15 + want and tries < want * 4:
        tries += 1
        p = g.program(tries, n=rnd.randint(3, 5), start="t")
        bases.append({"decls": [], "steps": [dict(s, at=[]) for s in p["steps"]]})
    # drop bases the specification does not accept as well-formed, supported programs (pre-check with PrqlMC-free run)
    pre = [dict(b_, id=f"b{i}", decl=True) for i, b_ in enumerate(bases)]
    res0 = l1check.run(rep, "C06-base", pre, dbset, {"rows", "order", "ExecError", "Panic", "rejected-wellformed"})
    bad = set(pid for pid, _, _ in res0["rejects"])
    ok_ids = [p["id"] for p in pre if p["id"] not in bad]
    # keep only bases whose status is ok in the spec: ask TLC through the model's BaseOk invariant (it fails otherwise)
    states = transitions = 0
    rewritten = []
    chunk = 12
    good_bases = [bases[int(i[1:])] for i in ok_ids]
    depth = 1 if tier == "quick" else 2
    def run_mc(bs, dep, tag):
        cfgp = os.path.join(d, f"cfg-{tag}.json")
        json.dump({"bases": bs, "depth": dep}, open(cfgp, "w"))
        out, info = tlc("RewriteMC", "RewriteMC.cfg", env={"DBSET": dbset, "REWRITECFG": cfgp}, workers=8, xmx="10g", timeout=1500)
        return out, info
    for ci in range(0, len(good_bases), chunk):
        bs = good_bases[ci:ci + chunk]
        out, info = run_mc(bs, depth, f"c{ci}")
        if not info["no_error"]:
            if "BaseOk" in info.get("error_text", ""):
                # a base outside the supported fragment / ill-formed: find and drop it, then redo the chunk
                keep = []
                for one in bs:
                    o1, i1 = run_mc([one], 0, "one")
                    if i1["no_error"]:
                        keep.append(one)
                if not keep:
                    continue
                out, info = run_mc(keep, depth, f"c{ci}")
            if not info["no_error"]:
                open(os.path.join(d, "mc.out"), "w").write(out)
                raise ToolError("RewriteMC: a rewrite does not preserve the specification's denotation: " + info.get("error_text", "")[:2000])
        states += info["distinct"]; transitions += info["generated"]
        rewritten += replay_lines(out)
    # depth 2 compositions on the hand-written bases also in quick
    if tier == "quick":
        out, info = run_mc(hand_bases()[:6], 2, "deep")
        if not info["no_error"]:
            raise ToolError("RewriteMC (depth 2): " + info.get("error_text", "")[:2000])
        states += info["distinct"]; transitions += info["generated"]
        rw2 = replay_lines(out)
        rewritten += rnd.sample(rw2, min(len(rw2), 1200))
    progs = []
    nreordered = 0
    for i, r in enumerate(rewritten):
        progs.append({"id": f"w{i}", "decl": True, "decls": r["decls"], "steps": r["steps"]})
        if r.get("reordered"):
            # the specification itself (which transcribes the resolver's `this.*` rule) says this rewrite returns the
            # columns in another order: the property is broken by design of that rule, not by this one program
            nreordered += 1
            if nreordered <= 40:
                rep.violation({"property": "C06", "kind": "column-order", "base": r["base"], "program": progs[-1],
                               "note": "RewriteMC: Denote(rewritten) equals Denote(base) only up to the order of the columns"},
                              {"what": "rewrite-column-order", "decls": len(r["decls"])})
    res = l1check.run(rep, "C06-rw", progs, dbset, {"rows", "order", "frame", "ExecError", "Panic", "rejected-wellformed"},
                      reduce_cap=60 if tier == "quick" else 400)
    st = l1.selftest(os.path.join(ROOT, "corpus", "dbs_quick.json"))
    kinds = {}
    for p in progs:
        for dd in p["decls"]:
            key = dd["kind"] + ":" + (dd.get("surface") or "") + (":module" if dd.get("module") else "")
            kinds[key] = kinds.get(key, 0) + 1
    samples = []
    for p in progs[:2] + progs[-2:]:
        sd = res["side"].get(p["id"], {})
        samples.append({"prql": sd.get("src", "").split("}\n", 1)[-1], "sql": sd.get("sql")})
    cov = {"states": states, "transitions": transitions,
           "traces_validated_against_impl": res0["accepted"] + res0["rejected"] + res["accepted"] + res["rejected"], "samples": samples,
           "exhaustive": True,
           "explanation": f"RewriteMC: {len(good_bases)} base programs x every applicable rewrite (name a prefix with let / into / module member, extract a function: positional, piped, named-with-default; split a conjunctive filter; insert filter true / select-all / repeated sort; move a declaration into a module), depth {depth} (depth 2 on the hand-written bases); TLC checked Denote(rewritten) = Denote(base) on every instance for all {states} states; the {len(progs)} rewritten programs were compiled, executed and validated by PrqlTrace against that denotation",
           "bases": len(good_bases), "rewritten_programs": len(progs), "declaration_kinds": kinds,
           "rejections_by_kind": res["by_what"], "selftest": st}
    return rep.finish("model_checking", cov, l1props.ASSUME + ["a rewritten program is validated against its own denotation, which TLC has shown equal to the base program's"])
