---------------------------- MODULE PrqlMC ----------------------------
(* Bounded instance of the L1 machine: every pipeline of at most Depth  *)
(* transforms over a finite alphabet of steps, on every database        *)
(* instance of the set.  TLC explores the complete state graph, checks  *)
(* the machine's own invariants (they guard the ORACLE against          *)
(* mistakes), and prints one JSON line per reachable program; `pv`      *)
(* replays those programs through the real compiler and PrqlTrace       *)
(* validates what happened.                                             *)
(* Alphabet and database set are data (JSON files named by the          *)
(* environment), so that quick/thorough tiers and the per-property      *)
(* generators share this one model.                                     *)
EXTENDS Prql, Json, IOUtils

DbSet    == JsonDeserialize(IOEnv.DBSET)       \* [schema, dbs]
Model    == JsonDeserialize(IOEnv.ALPHABET)    \* [first: Seq(step), steps: Seq(step), depth]
Dbs      == DbSet.dbs
Schema   == DbSet.schema
Firsts   == Model.first
Steps    == Model.steps
Depth    == Model.depth

VARIABLES st, prog
vars == <<st, prog>>

Init == st = InitState(Len(Dbs)) /\ prog = <<>>

Start(i) ==
  /\ prog = <<>>
  /\ st' = ApplyStep(st, Firsts[i], Dbs, Schema)
  /\ prog' = << Firsts[i] >>

\* one action per transform kind, so that -coverage reports each of them
Extend(op) ==
  /\ prog # <<>> /\ Len(prog) < Depth /\ st.status = "ok"
  /\ \E i \in Idx(Steps) :
       /\ Steps[i].op = op
       \* a step may be restricted to given positions of the pipeline ("slot" models)
       /\ (Steps[i].at = <<>> \/ \E j \in Idx(Steps[i].at) : Steps[i].at[j] = Len(prog) + 1)
       /\ st' = ApplyStep(st, Steps[i], Dbs, Schema)
       /\ prog' = Append(prog, Steps[i])

Next == \/ \E i \in Idx(Firsts) : Start(i)
        \/ Extend("select") \/ Extend("derive") \/ Extend("filter") \/ Extend("sort")
        \/ Extend("take") \/ Extend("aggregate") \/ Extend("group") \/ Extend("window")
        \/ Extend("join") \/ Extend("append") \/ Extend("remove") \/ Extend("intersect") \/ Extend("exclude") \/ Extend("loop") \/ Extend("bad")

Spec == Init /\ [][Next]_vars

-----------------------------------------------------------------------
(* Invariants of the machine itself                                    *)
Ok == st.status = "ok"
AllWorlds == UNION { st.W[d] : d \in Idx(st.W) }

\* every row has one value per frame column
RowsFitFrame == Ok => \A w \in AllWorlds : \A i \in Idx(w.rows) : Len(w.rows[i].v) = Len(st.frame)
\* every world respects the order in effect
WorldsSorted == Ok => \A w \in AllWorlds : \A i \in Idx(w.rows) :
                   i < Len(w.rows) => KeyCmp(w.rows[i].key, w.rows[i + 1].key, st.dirs, Nsm(w)) <= 0
\* there is always at least one admissible result
SomeWorld == Ok => \A d \in Idx(st.W) : st.W[d] # {}
\* named columns of one input are pairwise distinct
NamesDistinct == Ok => \A i, j \in Idx(st.frame) :
                   (i < j /\ st.frame[i].name # "" /\ st.frame[i].name = st.frame[j].name)
                     => st.frame[i].src # st.frame[j].src
\* cardinality laws, as action properties over the step just taken
Lens(s, d) == { Len(w.rows) : w \in s.W[d] }
StepLaws ==
  [][ (st'.status = "ok" /\ st.status = "ok") =>
        LET s == prog'[Len(prog')] IN
        \A d \in Idx(st.W) :
          /\ s.op \in {"select", "derive", "sort", "exclude"} => Lens(st', d) = Lens(st, d)
          /\ s.op = "exclude" => Len(st'.frame) < Len(st.frame)
          /\ s.op = "filter" => \A n \in Lens(st', d) : \E m \in Lens(st, d) : n <= m
          /\ s.op = "take" => Lens(st', d) = { Max2(0, Min2(n, s.hi) - s.lo + 1) : n \in Lens(st, d) }
          /\ s.op = "aggregate" => Lens(st', d) = {1}
          /\ s.op \in {"remove", "intersect"} => st'.frame = st.frame
          /\ s.op = "remove" => \A n \in Lens(st', d) : \E m \in Lens(st, d) : n <= m
          /\ s.op \in {"filter", "take", "sort"} => st'.frame = st.frame
          /\ s.op = "group" => (Lens(st, d) = {0} => Lens(st', d) = {0})
    ]_vars

\* emission of every program (the replay binding); evaluated once per state
Emit == (prog # <<>>) => PrintT(<<"REPLAY", ToJson([steps |-> prog, status |-> st.status])>>)
=======================================================================
