SPECIFICATION Spec
INVARIANT AnsiRoundTrip
INVARIANT BackslashRoundTripIffNoBackslash
INVARIANT PrinterLaw
INVARIANT Emit2
CHECK_DEADLOCK FALSE
