"""Feature tags of a program record (used in signatures for known-finding matching and for
coverage statistics).  Purely syntactic, computed from the program, never from the verdict."""
from progs import INF

def _names_after(names, s):
    """very rough frame-name tracking, only to recognise shadowing"""
    op = s["op"]
    if op == "from":
        return {"t": ["k", "a", "b"], "u": ["k", "a", "c"],
                "table_0": ["k", "_expr_0", "_expr_1"], "table_1": ["k", "_expr_0", "_expr_2"]}.get(s["t"], [])
    if op == "fromlit":
        return list(s["cols"])
    if op == "exclude":
        drop = {c["name"] for c in s["cols"] if c["t"] == "col"}
        return [n for n in names if n not in drop]
    if op in ("select", "aggregate"):
        out = []
        for it in s["items"]:
            n = it["n"] or (it["e"]["name"] if it["e"]["t"] == "col" else "")
            out.append(n)
        return out
    if op == "derive":
        return names + [it["n"] or (it["e"]["name"] if it["e"]["t"] == "col" else "") for it in s["items"]]
    if op == "join":
        inner = []
        for x in s["with"]:
            inner = _names_after(inner, x)
        return names + inner
    if op == "group":
        by = [b["name"] for b in s["by"] if b["t"] == "col"]
        cur = by + [n for n in names if n not in by]
        for x in s["pipe"]:
            if x["op"] == "aggregate":
                cur = by + _names_after(cur, x)
            else:
                cur = _names_after(cur, x)
        return cur
    if op == "window":
        cur = names
        for x in s["pipe"]:
            cur = _names_after(cur, x)
        return cur
    return names

def _expr_tags(e, t, top=True):
    k = e.get("t")
    if k == "bin":
        t.add("xop:" + e["op"]); _expr_tags(e["l"], t, False); _expr_tags(e["r"], t, False)
        CMP = ("==", "!=", "<", "<=", ">", ">=")
        def nulltest(c):
            return c["op"] in ("==", "!=") and any(x.get("t") == "lit" and x["v"]["k"] == "null" for x in (c["l"], c["r"]))
        if e["op"] in CMP and not nulltest(e) and any(c.get("t") == "bin" and c["op"] in CMP and not nulltest(c) for c in (e["l"], e["r"])):
            t.add("cmp-in-cmp")
    elif k == "un":
        t.add("xop:un" + e["op"])
        if e["op"] == "-" and (e["e"].get("t") == "un" and e["e"]["op"] == "-" or
                               e["e"].get("t") == "lit" and e["e"]["v"]["k"] == "num" and e["e"]["v"]["n"] < 0):
            t.add("neg-neg")
        _expr_tags(e["e"], t, False)
    elif k == "case":
        t.add("xop:case")
        for a in e["arms"]:
            _expr_tags(a["c"], t, False); _expr_tags(a["v"], t, False)
    elif k == "agg":
        t.add("fn:" + e["f"]); _expr_tags(e["e"], t, False)
    elif k == "in":
        t.add("xop:in")
        for x in ("e", "lo", "hi"):
            _expr_tags(e[x], t, False)
    elif k == "lit" and top:
        t.add("lit-item")

def _step_exprs(s):
    op = s["op"]
    if op in ("select", "derive", "aggregate"):
        return [it["e"] for it in s["items"]]
    if op == "bad":
        return []
    if op == "filter":
        return [s["e"]]
    if op == "sort":
        return [k["e"] for k in s["keys"]]
    if op == "join" and s["on"].get("t") != "eqcol":
        return [s["on"]]
    return []

def tags(prog):
    t = set()
    names = []
    def walk(steps, names, depth):
        for s in steps:
            op = s["op"]
            t.add("op:" + op)
            if depth > 0:
                t.add("inner:" + op)
            for e in _step_exprs(s):
                _expr_tags(e, t)
            if op == "sort":
                tt = set()
                for kk in s["keys"]:
                    _expr_tags(kk["e"], tt)
                if any(x.startswith("fn:") for x in tt):
                    t.add("sort-by-window")
            if op == "derive":
                for it in s["items"]:
                    if it["e"].get("t") == "col" and it["n"] and it["n"] != it["e"]["name"]:
                        t.add("alias-derive")
            if op == "select":
                if any(it["e"].get("t") == "star" for it in s["items"]):
                    t.add("star")
                for it in s["items"]:
                    if it["e"].get("t") == "col" and it["n"] and it["n"] != it["e"]["name"]:
                        t.add("alias-select")
            if op == "aggregate":
                for it in s["items"]:
                    if it["e"].get("t") != "agg":
                        t.add("agg-arith")
            if op == "take" and s["hi"] >= INF and s["lo"] > 1:
                t.add("open-take")
            if op in ("derive", "select"):
                seen = list(names) if op == "derive" else []
                for it in s["items"]:
                    n = it["n"] or (it["e"]["name"] if it["e"]["t"] == "col" else "")
                    if n and n in seen:
                        # `derive {a = a}` style self alias and real shadowing alike
                        t.add("shadow")
                    if n:
                        seen.append(n)
            if op == "group":
                # a key column referenced inside the group's own pipeline
                keys = {b_["name"] for b_ in s["by"] if b_.get("t") == "col"}
                refs = set()
                def cols(e):
                    if isinstance(e, dict):
                        if e.get("t") == "col":
                            refs.add(e.get("name"))
                        for v_ in e.values():
                            cols(v_)
                    elif isinstance(e, list):
                        for v_ in e:
                            cols(v_)
                for x in s["pipe"]:
                    cols({k_: v_ for k_, v_ in x.items() if k_ not in ("op", "at")})
                if keys & refs:
                    t.add("group-key-in-pipe")
            if op == "window" and s.get("fk") in ("rows", "range") and isinstance(s.get("lo"), int) and isinstance(s.get("hi"), int) and s["lo"] > s["hi"]:
                t.add("window-frame-inverted")
            if op in ("group", "window"):
                walk(s["pipe"], names, depth + 1)
            if op == "append" and len(s["with"]) == 1 and s["with"][0]["op"] == "from":
                t.add("append-bare")
            if op == "join" and len(s["with"]) > 1 and any(x["op"] == "take" for x in s["with"]):
                t.add("join-sub-take")
            if op == "join":
                inner = []
                for x in s["with"]:
                    inner = _names_after(inner, x)
                if set(n for n in inner if n) & set(n for n in names if n):
                    t.add("join-shared-names")
            if op in ("remove", "intersect"):
                t.add("setop:" + op)
                # k is a key of t and of u: with it in the frame the rows of the top relation are pairwise different
                if "k" in names and depth == 0 and steps[0]["op"] == "from":
                    t.add("setop-top-has-key")
            if op in ("append", "remove", "intersect") and any(x["op"] in ("append", "remove", "intersect") for x in s["with"]):
                t.add("setop-nested")
            if op in ("join", "append", "remove", "intersect"):
                walk(s["with"], [], depth + 1)
            names = _names_after(names, s)
        return names
    for d in prog.get("decls", []) or []:
        t.add("decl:" + d["kind"] + (":" + d.get("surface", "") if d["kind"] == "let" else "") + (":module" if d.get("module") else ""))
        if d["kind"] == "let":
            for s in d["steps"]:
                t.add("decl:op:" + s["op"])
    walk(prog["steps"], [], 0)
    ops = [s["op"] for s in prog["steps"]]
    for i in range(len(ops) - 2):
        t.add(f"seq3:{ops[i]}>{ops[i+1]}>{ops[i+2]}")
    for s in prog["steps"]:
        if s["op"] == "group":
            ns = [b.get("name") for b in s["by"] if b.get("t") == "col"]
            if len(set(ns)) < len(ns):
                t.add("group-keys-same-name")
    if "append" in ops[:-1]:
        t.add("append-not-last")
    for i, o in enumerate(ops):
        for o2 in ops[i + 1:]:
            t.add(f"seq:{o}>{o2}")
    return sorted(t)
