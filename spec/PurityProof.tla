---------------------------- MODULE PurityProof ----------------------------
(* Unbounded argument for C11's shared-state machine: for ANY number of     *)
(* compiling threads and compiles per thread, the repaired log machine      *)
(* never poisons the lock and no thread dies (NoPanic of PurityMC).         *)
(* Checked by the TLA+ proof system (tlapm): NoPanicInv is inductive.       *)
EXTENDS PurityMC, TLAPS

ASSUME RepairedAssumption == Repaired = TRUE

NoPanicInv == /\ pc \in [Compilers -> STRING]
              /\ ~poisoned /\ \A t \in Compilers : pc[t] # "dead"

LEMMA InitOk == Init => NoPanicInv
  BY DEF Init, NoPanicInv

LEMMA StepOk == NoPanicInv /\ [Next]_vars => NoPanicInv'
<1> SUFFICES ASSUME NoPanicInv, [Next]_vars PROVE NoPanicInv'
  OBVIOUS
<1>1. CASE UNCHANGED vars
  BY <1>1 DEF vars, NoPanicInv
<1>2. CASE DStart
  BY <1>2 DEF DStart, NoPanicInv
<1>3. CASE DFinish
  BY <1>3 DEF DFinish, NoPanicInv
<1>4. ASSUME NEW t \in Compilers,
             Parse(t) \/ Acq1(t) \/ In1(t) \/ Rel1(t) \/ Resolve(t) \/ StdBegin(t) \/ StdIn(t)
             \/ StdRel(t) \/ StdEnd(t) \/ StdReady(t) \/ Sql(t) \/ Ret(t)
      PROVE NoPanicInv'
  <2>1. CASE Parse(t)
    BY <2>1, RepairedAssumption DEF NoPanicInv, Parse, Step
  <2>2. CASE Acq1(t)
    BY <2>2, RepairedAssumption DEF NoPanicInv, Acq1
  <2>3. CASE In1(t)
    BY <2>3, RepairedAssumption DEF NoPanicInv, In1, Step
  <2>4. CASE Rel1(t)
    BY <2>4, RepairedAssumption DEF NoPanicInv, Rel1, Rel
  <2>5. CASE Resolve(t)
    BY <2>5, RepairedAssumption DEF NoPanicInv, Resolve, Step
  <2>6. CASE StdBegin(t)
    BY <2>6, RepairedAssumption DEF NoPanicInv, StdBegin
  <2>7. CASE StdIn(t)
    BY <2>7, RepairedAssumption DEF NoPanicInv, StdIn, Step
  <2>8. CASE StdRel(t)
    BY <2>8, RepairedAssumption DEF NoPanicInv, StdRel, Rel
  <2>9. CASE StdEnd(t)
    BY <2>9, RepairedAssumption DEF NoPanicInv, StdEnd
  <2>10. CASE StdReady(t)
    BY <2>10, RepairedAssumption DEF NoPanicInv, StdReady
  <2>11. CASE Sql(t)
    BY <2>11, RepairedAssumption DEF NoPanicInv, Sql, Step
  <2>12. CASE Ret(t)
    BY <2>12, RepairedAssumption DEF NoPanicInv, Ret
  <2> QED
    BY <1>4, <2>1, <2>2, <2>3, <2>4, <2>5, <2>6, <2>7, <2>8, <2>9, <2>10, <2>11, <2>12
<1> QED
  BY <1>1, <1>2, <1>3, <1>4 DEF Next

THEOREM NoPanicAlways == Spec => []NoPanicInv
  BY InitOk, StepOk, PTL DEF Spec
=============================================================================
