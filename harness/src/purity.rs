//! `pv purity`: concurrent / repeated compilations with the cfg(prql_verif) hooks recording every critical
//! section of the debug log; results identified by a hash of the output bytes.
use crate::api;
use serde_json::{json, Value as J};
use std::cell::Cell;
use std::io::Write;
use std::sync::atomic::{AtomicBool, AtomicU64, Ordering};
use std::sync::Mutex;

static SEQ: AtomicU64 = AtomicU64::new(0);
static JITTER: AtomicBool = AtomicBool::new(false);
static EVENTS: Mutex<Vec<(u64, u32, &'static str, bool, usize, usize)>> = Mutex::new(Vec::new());
thread_local! {
    static TAG: Cell<u32> = const { Cell::new(0) };
    static RNG: Cell<u64> = const { Cell::new(0x9E3779B97F4A7C15) };
}

fn observer(action: &'static str, phase: u8, present: bool, suppress: usize, entries: usize) {
    if phase == 0 {
        // gate: before the lock is taken - perturb the schedule
        if JITTER.load(Ordering::Relaxed) {
            let r = RNG.with(|c| {
                let mut x = c.get();
                x ^= x << 13; x ^= x >> 7; x ^= x << 17;
                c.set(x);
                x
            });
            match r % 8 {
                0 | 1 => std::thread::yield_now(),
                2 => std::thread::sleep(std::time::Duration::from_micros(r % 200)),
                _ => {}
            }
        }
    } else {
        // event: the write lock on CURRENT_LOG is held, so this order is the order of the critical sections
        let s = SEQ.fetch_add(1, Ordering::SeqCst) + 1;
        let t = TAG.with(|c| c.get());
        if let Ok(mut g) = EVENTS.lock() {
            g.push((s, t, action, present, suppress, entries));
        }
    }
}

fn hash(s: &str) -> i64 {
    let mut h: u64 = 0xcbf29ce484222325;
    for b in s.bytes() {
        h ^= b as u64;
        h = h.wrapping_mul(0x100000001b3);
    }
    ((h >> 33) & 0x3fffffff) as i64
}

/// the three artefacts of one input: SQL (or error text), RQ JSON, formatted source
fn artefacts(src: &str, dialect: Option<&str>) -> Vec<(String, &'static str, i64, String)> {
    let mut out = vec![];
    let (k, s) = match api::compile(src, dialect) {
        api::Outcome::Ok(s) => ("sql", s),
        api::Outcome::Err(e) => ("err", e.inner.iter().map(|m| format!("{}|{:?}|{:?}", m.reason, m.hints, m.display)).collect::<Vec<_>>().join(";")),
        api::Outcome::Panic { msg, file, line } => (panic_kind(&file, &msg), format!("{file}:{line}:{msg}")),
    };
    out.push(("compile".to_string(), k, hash(&s), s));
    let (k, s) = match api::guarded(|| prqlc::prql_to_pl(src).and_then(prqlc::pl_to_rq).and_then(|rq| prqlc::json::from_rq(&rq))) {
        api::Outcome::Ok(s) => ("rq", s),
        api::Outcome::Err(e) => ("err", e.inner.iter().map(|m| format!("{}|{:?}", m.reason, m.hints)).collect::<Vec<_>>().join(";")),
        api::Outcome::Panic { msg, file, line } => (panic_kind(&file, &msg), format!("{file}:{line}:{msg}")),
    };
    out.push(("rq".to_string(), k, hash(&s), s));
    let (k, s) = match api::guarded(|| prqlc::prql_to_pl(src).and_then(|pl| prqlc::pl_to_prql(&pl))) {
        api::Outcome::Ok(s) => ("fmt", s),
        api::Outcome::Err(e) => ("err", e.inner.iter().map(|m| m.reason.clone()).collect::<Vec<_>>().join(";")),
        api::Outcome::Panic { msg, file, line } => (panic_kind(&file, &msg), format!("{file}:{line}:{msg}")),
    };
    out.push(("fmt".to_string(), k, hash(&s), s));
    out
}

/// a panic raised by the shared-state machinery (debug log, lock poisoning, once-cell) is the C11 failure
/// "panic"; a panic inside a compilation proper is a (deterministic or not) result like any other, C12's concern
fn panic_kind(file: &str, msg: &str) -> &'static str {
    if file.contains("debug/") || file.contains("operators.rs") || msg.contains("oison") || msg.contains("overflow") { "panic" } else { "crash" }
}

/// a multi-file project, files inserted into the SourceTree in the order given
fn tree_artefacts(inp: &J) -> Vec<(String, &'static str, i64, String)> {
    let files: Vec<(std::path::PathBuf, String)> = inp["files"].as_array().unwrap().iter()
        .map(|f| (std::path::PathBuf::from(f[0].as_str().unwrap_or("")), f[1].as_str().unwrap_or("").to_string())).collect();
    let tree = prqlc::SourceTree::new(files, None);
    let o = api::options(inp["dialect"].as_str());
    let r = api::guarded(|| {
        let pl = prqlc::prql_to_pl_tree(&tree)?;
        let rq = prqlc::pl_to_rq_tree(pl, &[], &["default_db".to_string()]).map_err(|e| e.composed(&tree))?;
        prqlc::rq_to_sql(rq, &o).map_err(|e| e.composed(&tree))
    });
    let (k, s) = match r {
        api::Outcome::Ok(s) => ("sql", s),
        api::Outcome::Err(e) => ("err", e.inner.iter().map(|m| format!("{}|{:?}|{:?}", m.reason, m.hints, m.display)).collect::<Vec<_>>().join(";")),
        api::Outcome::Panic { msg, file, line } => (panic_kind(&file, &msg), format!("{file}:{line}:{msg}")),
    };
    vec![("tree".to_string(), k, hash(&s), s)]
}

/// args: <inputs.json [{"id","src","dialect"}]> <out.ndjson> <threads> <rounds> <debug thread 0|1> <scenario> [history.json: ["src",..]]
pub fn main(args: &[String]) -> i32 {
    let inputs: Vec<J> = serde_json::from_str(&std::fs::read_to_string(&args[0]).expect("inputs")).expect("json");
    let threads: usize = args[2].parse().unwrap_or(2);
    let rounds: usize = args[3].parse().unwrap_or(1);
    let with_debug = args[4] == "1";
    let scenario = args[5].clone();
    let mut out = std::io::BufWriter::new(std::fs::File::create(&args[1]).expect("out"));
    #[cfg(prql_verif)]
    prqlc::debug::verif::set_observer(Some(observer));
    #[cfg(not(prql_verif))]
    let _ = observer;
    JITTER.store(threads > 1, Ordering::Relaxed);
    // history: earlier calls in this process (successful, failing, panicking)
    if let Some(h) = args.get(6) {
        let hs: Vec<String> = serde_json::from_str(&std::fs::read_to_string(h).expect("history")).expect("json");
        for s in hs {
            let _ = api::compile(&s, None);
        }
    }
    if scenario == "env-version" {
        // the version is read from the environment on every call: warm up, then change it
        let _ = api::compile("from t | take 1", None);
        let _ = api::compile("from t | derive {v = prql.version} | take 1", None);
        let _ = api::guarded(|| prqlc::compile("prql version:\"^0.1\"\nfrom t", &prqlc::Options::default()));
        std::env::set_var("PRQL_VERSION_OVERRIDE", "9.9.9");
    }
    let results: Mutex<Vec<J>> = Mutex::new(vec![]);
    let stop = AtomicBool::new(false);
    std::thread::scope(|sc| {
        if with_debug {
            sc.spawn(|| {
                TAG.with(|c| c.set(99));
                while !stop.load(Ordering::Relaxed) {
                    prqlc::debug::log_start();
                    std::thread::yield_now();
                    let _ = prqlc::debug::log_finish();
                }
            });
        }
        let hs: Vec<_> = (0..threads)
            .map(|t| {
                let inputs = &inputs;
                let results = &results;
                let scenario = &scenario;
                sc.spawn(move || {
                    TAG.with(|c| c.set(t as u32 + 1));
                    RNG.with(|c| c.set(0x9E3779B97F4A7C15 ^ ((t as u64 + 1) * 0x1234567)));
                    for r in 0..rounds {
                        for (i, _) in inputs.iter().enumerate() {
                            // different threads walk the inputs in different orders
                            let inp = &inputs[(i + t * 7 + r * 3) % inputs.len()];
                            let src = inp["src"].as_str().unwrap_or("");
                            let arts = if inp["files"].is_array() { tree_artefacts(inp) } else { artefacts(src, inp["dialect"].as_str()) };
                            for (api_name, kind, h, text) in arts {
                                results.lock().unwrap().push(json!({"event":"Result","input":format!("{}#{}", inp["id"].as_str().unwrap_or("?"), api_name),
                                    "out":h,"kind":kind,"scenario":scenario,"thread":t + 1,"text":text.chars().take(300).collect::<String>()}));
                            }
                        }
                    }
                })
            })
            .collect();
        for h in hs {
            let _ = h.join();
        }
        stop.store(true, Ordering::Relaxed);
    });
    writeln!(out, "{}", json!({"event":"Run","scenario":scenario})).unwrap();
    let evs = EVENTS.lock().map(|g| g.clone()).unwrap_or_default();
    for (s, t, a, p, su, en) in evs {
        writeln!(out, "{}", json!({"event":"Sched","seq":s,"thread":t,"action":a,"present":p,"suppress":su,"entries":en})).unwrap();
    }
    for r in results.lock().unwrap().iter() {
        writeln!(out, "{}", r).unwrap();
    }
    0
}

// ---------------------------------------------------------------------------------------------
// forced schedules: behaviours of spec/PuritySched.tla imposed on the real threads through the gates

#[derive(Clone, Copy, PartialEq, Debug)]
enum Ts {
    Running,
    Parked(&'static str),
    Granted,
    Finished,
}
static FORCED: AtomicBool = AtomicBool::new(false);
static CTRL: Mutex<Vec<Ts>> = Mutex::new(Vec::new());
static CV: std::sync::Condvar = std::sync::Condvar::new();

fn slot(tag: u32) -> usize {
    if tag == 99 { 0 } else { tag as usize }
}

/// a gate of a scheduled thread: park until the controller grants it
fn park(name: &'static str) {
    let t = TAG.with(|c| c.get());
    if t == 0 || !FORCED.load(Ordering::SeqCst) {
        return;
    }
    let i = slot(t);
    let mut g = CTRL.lock().unwrap_or_else(|e| e.into_inner());
    g[i] = Ts::Parked(name);
    CV.notify_all();
    while g[i] != Ts::Granted && FORCED.load(Ordering::SeqCst) {
        g = CV.wait(g).unwrap_or_else(|e| e.into_inner());
    }
    g[i] = Ts::Running;
    CV.notify_all();
}

fn observer_forced(action: &'static str, phase: u8, present: bool, suppress: usize, entries: usize) {
    if phase == 0 {
        park(action);
    } else {
        observer(action, phase, present, suppress, entries);
    }
}

/// wait until thread i is parked or finished (or the time is up: it is blocked on another thread, e.g. in the once-cell)
fn settle(i: usize, ms: u64) -> Ts {
    let deadline = std::time::Instant::now() + std::time::Duration::from_millis(ms);
    let mut g = CTRL.lock().unwrap_or_else(|e| e.into_inner());
    loop {
        match g[i] {
            Ts::Parked(_) | Ts::Finished => return g[i],
            _ => {}
        }
        let now = std::time::Instant::now();
        if now >= deadline {
            return g[i];
        }
        g = CV.wait_timeout(g, deadline - now).unwrap_or_else(|e| e.into_inner()).0;
    }
}

fn grant(i: usize) {
    let mut g = CTRL.lock().unwrap_or_else(|e| e.into_inner());
    g[i] = Ts::Granted;
    CV.notify_all();
    drop(g);
}

/// args: <schedule.json {"steps": [[thread, step], ..], "inputs": [{"id","src","dialect"}, ..], "nc": n, "ni": n}> <out.ndjson> <scenario>
pub fn main_sched(args: &[String]) -> i32 {
    let sch: J = serde_json::from_str(&std::fs::read_to_string(&args[0]).expect("schedule")).expect("json");
    let inputs: Vec<J> = sch["inputs"].as_array().cloned().unwrap_or_default();
    let nc = sch["nc"].as_u64().unwrap_or(2) as usize;
    let ni = sch["ni"].as_u64().unwrap_or(2) as usize;
    let steps: Vec<(usize, String)> = sch["steps"].as_array().map(|a| a.iter().map(|s| (s[0].as_u64().unwrap_or(0) as usize, s[1].as_str().unwrap_or("").to_string())).collect()).unwrap_or_default();
    let nd = steps.iter().filter(|(t, s)| *t == 0 && s == "start").count();
    let scenario = args[2].clone();
    let mut out = std::io::BufWriter::new(std::fs::File::create(&args[1]).expect("out"));
    #[cfg(prql_verif)]
    prqlc::debug::verif::set_observer(Some(observer_forced));
    #[cfg(not(prql_verif))]
    let _ = observer_forced;
    JITTER.store(false, Ordering::Relaxed);
    *CTRL.lock().unwrap() = vec![Ts::Running; nc + 1];
    FORCED.store(true, Ordering::SeqCst);
    let results: Mutex<Vec<J>> = Mutex::new(vec![]);
    let (mut realised, mut skipped, mut blocked) = (0usize, 0usize, 0usize);
    std::thread::scope(|sc| {
        sc.spawn(|| {
            TAG.with(|c| c.set(99));
            for _ in 0..nd {
                prqlc::debug::log_start();
                let _ = prqlc::debug::log_finish();
            }
            let mut g = CTRL.lock().unwrap_or_else(|e| e.into_inner());
            g[0] = Ts::Finished;
            CV.notify_all();
        });
        for t in 1..=nc {
            let inputs = &inputs;
            let results = &results;
            let scenario = &scenario;
            sc.spawn(move || {
                TAG.with(|c| c.set(t as u32));
                for k in 0..ni {
                    park("CompileBegin");
                    let inp = &inputs[(k + t) % inputs.len()];
                    let (kind, text) = match api::compile(inp["src"].as_str().unwrap_or(""), inp["dialect"].as_str()) {
                        api::Outcome::Ok(s) => ("sql", s),
                        api::Outcome::Err(e) => ("err", e.inner.iter().map(|m| format!("{}|{:?}", m.reason, m.hints)).collect::<Vec<_>>().join(";")),
                        api::Outcome::Panic { msg, file, line } => (panic_kind(&file, &msg), format!("{file}:{line}:{msg}")),
                    };
                    results.lock().unwrap().push(json!({"event":"Result","input":format!("{}#compile", inp["id"].as_str().unwrap_or("?")),
                        "out":hash(&text),"kind":kind,"scenario":scenario,"thread":t,"text":text.chars().take(300).collect::<String>()}));
                }
                let mut g = CTRL.lock().unwrap_or_else(|e| e.into_inner());
                g[t] = Ts::Finished;
                CV.notify_all();
            });
        }
        // the controller
        let pass = |i: usize, want: &[&str]| -> bool {
            match settle(i, 150) {
                Ts::Parked(n) if want.contains(&n) => { grant(i); let _ = settle(i, 150); true }
                _ => false,
            }
        };
        for (t, step) in &steps {
            let i = *t;
            let ok = match step.as_str() {
                "none" => true,
                "entries" => {
                    let mut any = pass(i, &["CompileBegin"]);
                    while pass(i, &["LogEntry"]) { any = true; }
                    any
                }
                "acquire" => pass(i, &["SuppressAcquire"]),
                "release" => pass(i, &["SuppressRelease"]),
                "stdinit" => { let a = pass(i, &["StdInit"]); if a { let _ = pass(i, &["SuppressAcquire"]); } a }
                "start" => pass(i, &["LogStart"]),
                "finish" => pass(i, &["LogFinish"]),
                "run" => {
                    // to the end of this compile: everything up to the next CompileBegin
                    let mut any = false;
                    loop {
                        match settle(i, 150) {
                            Ts::Parked(n) if n != "CompileBegin" => { grant(i); any = true; }
                            Ts::Parked(_) | Ts::Finished => break,
                            _ => { blocked += 1; break }
                        }
                    }
                    any || true
                }
                _ => false,
            };
            if ok { realised += 1 } else { skipped += 1 }
        }
        // let everything run to its end
        FORCED.store(false, Ordering::SeqCst);
        CV.notify_all();
    });
    writeln!(out, "{}", json!({"event":"Run","scenario":scenario})).unwrap();
    let evs = EVENTS.lock().map(|g| g.clone()).unwrap_or_default();
    for (s, t, a, p, su, en) in evs {
        writeln!(out, "{}", json!({"event":"Sched","seq":s,"thread":t,"action":a,"present":p,"suppress":su,"entries":en})).unwrap();
    }
    for r in results.lock().unwrap().iter() {
        writeln!(out, "{}", r).unwrap();
    }
    eprintln!("sched: {} steps, {} realised, {} skipped, {} blocked", steps.len(), realised, skipped, blocked);
    0
}
