------------------------------- MODULE Names -------------------------------
(* L2, Part F - the names the back end invents (prqlc/src/sql/pq:          *)
(* QueryLoader::load, postprocess::assign_names, RelVarNameAssigner).       *)
(*                                                                          *)
(* Every relation of the query - tables of the database (extern), let-bound *)
(* relations, anonymous sub-pipelines and the parts the anchor cuts off -   *)
(* is a table declaration with or without a name; every From / Join of a    *)
(* SELECT is a relation instance with or without an alias.  The machine     *)
(* transcribes how names are given:                                         *)
(*   Load      a relation of the query named like a table of the database   *)
(*             gives up its name (repair of F115)                           *)
(*   Decls     given names are reserved first, of two equal names the first  *)
(*             in id order keeps it (repair of F88); then the anonymous      *)
(*             declarations draw table_0, table_1, .. until a free name      *)
(*   Instances per SELECT: an instance without alias takes the name of its   *)
(*             table; while the name is missing or taken in this SELECT it   *)
(*             draws the next generated name                                 *)
(* and states C09's second sentence on the result: tables of the database   *)
(* keep their names, declarations have pairwise distinct names, a generated *)
(* name is never a name the user wrote, the instances of one SELECT have     *)
(* pairwise distinct names and an alias the user wrote is kept (the first    *)
(* of equals).  NamesMC checks it on every configuration of a bound;         *)
(* NamesTrace on what the real compiler named (hooks `load`, `names`).       *)
EXTENDS Integers, Sequences, FiniteSets, TLC

CONSTANTS RepairedN88,    \* TRUE: given names are reserved before names are generated (F88)
          RepairedN115    \* TRUE: tables of the database keep their names (F115)

\* names are numbers: -1 = none; n >= 0 below 100 = the name table_n (which the generator draws and a user may write as
\* well); 100, 101, .. = other names a user wrote
Gen(n) == n
None == -1

\* decls : sequence (in id order) of [name, extern]
\* ---------------------------------------------------------------- Load
ExternNames(decls) == { decls[i].name : i \in { i \in 1 .. Len(decls) : decls[i].extern /\ decls[i].name # None } }
Load(decls) == IF ~RepairedN115 THEN decls
               ELSE [i \in 1 .. Len(decls) |-> IF ~decls[i].extern /\ decls[i].name \in ExternNames(decls)
                                               THEN [decls[i] EXCEPT !.name = None] ELSE decls[i]]

\* ---------------------------------------------------------------- assign_names: the declarations
\* draw generated names from counter n until one is free
RECURSIVE Draw(_, _)
Draw(n, used) == IF Gen(n) \in used THEN Draw(n + 1, used) ELSE n
\* pass over the declarations in id order; st = [decls, used, n]
RECURSIVE Reserve(_, _, _)
Reserve(decls, i, used) ==        \* F88 repair: first pass - of two equal given names the first keeps it
  IF i > Len(decls) THEN [decls |-> decls, used |-> used]
  ELSE IF decls[i].name = None THEN Reserve(decls, i + 1, used)
  ELSE IF decls[i].name \in used THEN Reserve([decls EXCEPT ![i].name = None], i + 1, used)
  ELSE Reserve(decls, i + 1, used \cup {decls[i].name})
RECURSIVE Fill(_, _, _, _)
Fill(decls, i, used, n) ==        \* second pass: the anonymous declarations
  IF i > Len(decls) THEN [decls |-> decls, used |-> used, n |-> n]
  ELSE IF decls[i].name # None THEN Fill(decls, i + 1, used, n)
  ELSE LET k == Draw(n, used) IN Fill([decls EXCEPT ![i].name = Gen(k)], i + 1, used \cup {Gen(k)}, k + 1)
RECURSIVE OnePass(_, _, _, _)
OnePass(decls, i, used, n) ==     \* as found: one pass; a name already taken is replaced by a generated one
  IF i > Len(decls) THEN [decls |-> decls, used |-> used, n |-> n]
  ELSE IF decls[i].name # None /\ decls[i].name \notin used THEN OnePass(decls, i + 1, used \cup {decls[i].name}, n)
  ELSE LET k == Draw(n, used) IN OnePass([decls EXCEPT ![i].name = Gen(k)], i + 1, used \cup {Gen(k)}, k + 1)
AssignDecls(decls, n) ==
  IF RepairedN88 THEN LET r == Reserve(decls, 1, {}) IN Fill(r.decls, 1, r.used, n)
  ELSE OnePass(decls, 1, {}, n)

\* ---------------------------------------------------------------- RelVarNameAssigner: the instances of one SELECT
\* insts : sequence of [alias, src] (src = index of the declaration it reads); named : the declarations after AssignDecls
RECURSIVE NameInsts(_, _, _, _, _)
NameInsts(insts, i, used, n, named) ==
  IF i > Len(insts) THEN [insts |-> insts, n |-> n]
  ELSE LET first == IF insts[i].alias # None THEN insts[i].alias ELSE named[insts[i].src].name
           k == Draw(n, used)
           nm == IF first # None /\ first \notin used THEN first ELSE Gen(k)
       IN NameInsts([insts EXCEPT ![i].alias = nm], i + 1, used \cup {nm}, IF nm = first /\ ~(first = Gen(k)) THEN n ELSE k + 1, named)

\* ---------------------------------------------------------------- the whole pass on a configuration
\* cfg = [decls, selects : sequence of sequences of instances]
RECURSIVE NameSelects(_, _, _)
NameSelects(sels, n, named) ==
  IF sels = <<>> THEN <<>>
  ELSE LET r == NameInsts(Head(sels), 1, {}, n, named) IN <<r.insts>> \o NameSelects(Tail(sels), r.n, named)
NamesRun(cfg) == LET d == AssignDecls(Load(cfg.decls), 0)
            IN [decls |-> d.decls, selects |-> NameSelects(cfg.selects, d.n, d.decls)]

\* ---------------------------------------------------------------- what C09 asks of the result
\* the names of tables and let-bound relations the user wrote (an ALIAS named like a generated CTE name does not hide the
\* CTE: relation references of a FROM clause are looked up among tables and CTEs, so that statement stays right)
UserNames(cfg) == { cfg.decls[i].name : i \in 1 .. Len(cfg.decls) }
NamesVerdict(cfg, out) ==
  LET n == Len(cfg.decls) IN
  IF Len(out.decls) # n THEN "shape"
  \* a table of the database is referred to by its name: it keeps it
  ELSE IF \E i \in 1 .. n : cfg.decls[i].extern /\ out.decls[i].name # cfg.decls[i].name THEN "extern-renamed"
  ELSE IF \E i \in 1 .. n : out.decls[i].name = None THEN "decl-unnamed"
  \* a CTE named like another relation of the statement would hide it
  ELSE IF \E i, j \in 1 .. n : i < j /\ out.decls[i].name = out.decls[j].name
                              /\ ~(cfg.decls[i].extern /\ cfg.decls[j].extern) THEN "decl-names-clash"
  \* a name the compiler invents is not a name the user wrote
  ELSE IF \E i \in 1 .. n : out.decls[i].name # cfg.decls[i].name /\ out.decls[i].name \in UserNames(cfg) THEN "generated-captures-user-name"
  ELSE IF \E k \in 1 .. Len(out.selects) :
            LET s == out.selects[k] c == cfg.selects[k] IN
            \/ \E i, j \in 1 .. Len(s) : i < j /\ s[i].alias = s[j].alias
     THEN "instance-names-clash"
  ELSE IF \E k \in 1 .. Len(out.selects) :
            LET s == out.selects[k] c == cfg.selects[k] IN
            \E i \in 1 .. Len(s) : /\ c[i].alias # None /\ s[i].alias # c[i].alias
                                   /\ ~(\E j \in 1 .. i - 1 : s[j].alias = c[i].alias)
     THEN "alias-lost"
  ELSE "ok"
=============================================================================
