"""C17: tokens tile the source and re-lex to themselves (spec/Lexer.tla, LexerTrace.tla)."""
import sys, os, json, random, subprocess, time, glob
sys.path.insert(0, os.path.join(os.path.dirname(os.path.abspath(__file__)), "..", "lib"))
from vlib import *
from concurrent.futures import ThreadPoolExecutor

ALPHABET = ["a", "x", "1", "0", "_", ".", ":", "@", " ", "\t", "\n", "\\", "#", "\"", "'", "`", "=", "-", "&", "|", "é", "😀"]
EXTRA = ["l", "e", "t", "s", "f", "r", "{", "}", "(", ")", "$", "/", "*", "!", "?", "~", ">", "<", ",", "T", "Z", "+", "2", "\r"]

def corrupt_selftest(d):
    """binding demonstration: shift one token span / change one re-lexed kind -> must be rejected"""
    ev = read_ndjson(os.path.join(d, "list0.ndjson"))
    k = 0
    for e in ev:
        if e["event"] == "Lex" and len(e["toks"]) >= 3:
            k += 1
            if k == 1: e["toks"][2]["s"] -= 1           # overlap with the previous token
            elif k == 2: e["toks"][1]["rk"] = "Ident(\"zz\")"  # slice does not re-lex to itself
            elif k == 3: e["toks"] = e["toks"][:-1]     # trailing text not covered
            elif k == 4: break
    write_ndjson(os.path.join(d, "bad.ndjson"), ev)
    out, info = tlc("LexerTrace", "LexerTrace.cfg", env={"TRACE": os.path.join(d, "bad.ndjson")}, workers=1, deque=True)
    nrej = len(tuples(out, "REJECT"))
    base = len(tuples(tlc("LexerTrace", "LexerTrace.cfg", env={"TRACE": os.path.join(d, "list0.ndjson")}, workers=1, deque=True)[0], "REJECT"))
    nrej -= base
    if nrej != 3:
        raise ToolError(f"C17 selftest: expected 3 rejections of the corrupted trace, got {nrej}")
    return {"corrupted_events": 3, "rejected": 3}

def lexgen_phase(rep, d, tier, files, maxlen):
    cfg = os.path.join(SPEC, f"LexGenMC_{tier}.cfg")
    base = open(os.path.join(SPEC, "LexGenMC.cfg")).read().replace("MaxLen = 4", f"MaxLen = {maxlen}")
    open(cfg, "w").write(base)
    try:
        out, info = tlc("LexGenMC", os.path.basename(cfg), workers=8 if tier == "quick" else 14, xmx="12g", timeout=2 * 3600)
    finally:
        os.remove(cfg)
    if not info["no_error"]:
        rep.violation({"property": "C17", "kind": "lexgen-design", "tlc": info.get("error_text", "")[:4000],
                       "explanation": "LexGenMC: on the generative lexer specification the tokens of some string do not tile it / do not re-lex to themselves"},
                      {"what": "lexgen-design", "tlc": info.get("error_text", "")})
    out2, info2 = tlc("LexGenMC", "LexGenMC_keyword.cfg", workers=2)
    if info2["no_error"] or "ModelRelex is violated" not in out2:
        raise ToolError("LexGenMC over the keyword alphabet no longer finds `let(` (finding F43, transcribed by the specification): the model has gone vacuous")
    def validate(path):
        o, i_ = tlc("LexGenTrace", "LexGenTrace.cfg", env={"TRACE": path}, workers=1, deque=True, xmx="8g")
        return path, o, i_
    with ThreadPoolExecutor(max_workers=6) as ex:
        results = list(ex.map(validate, files))
    judged = skipped = tstates = nrej = 0
    for path, o, i_ in results:
        tr = tuples(o, "TRACE")
        if not i_["no_error"] or not tr or tr[0][1] != tr[0][2]:
            open(path + ".lexgen.tlc.out", "w").write(o)
            raise ToolError(f"LexGenTrace did not consume {path}: " + i_.get("error_text", o[-800:])[:1200])
        c = tuples(o, "COUNTS")[-1]
        judged += c[1]; skipped += c[3]; tstates += i_.get("distinct", 0)
        for r in tuples(o, "REJECT"):
            nrej += 1
            src = json.loads(r[1]) if r[1].startswith('"') else r[1]
            exp = json.loads(r[4]) if len(r) > 4 and r[4] else None
            rep.violation({"property": "C17", "kind": "lexgen-" + r[2], "source": src, "specified_tokens": exp, "trace_file": os.path.relpath(path, ROOT), "line": r[3],
                           "explanation": "the token stream the lexer returned is not the one spec/LexGen.tla specifies for this source (kind class, character span)"},
                          {"what": "lexgen-" + r[2], "src": src})
    # binding demonstration: a wrong kind, a wrong span, a valid source reported as rejected
    ev = read_ndjson(files[0]); k = 0
    for e in ev:
        if e["event"] == "Lex" and len(e["toks"]) >= 3:
            k += 1
            if k == 2: e["toks"][1]["c"] = "Keyword"
            elif k == 4: e["toks"][2]["e"] += 1
            elif k == 6: e["event"] = "LexReject"; e["nerr"] = 1
            elif k == 7: break
    bp = os.path.join(d, "lexgen-bad.ndjson"); write_ndjson(bp, ev)
    ob, _ = tlc("LexGenTrace", "LexGenTrace.cfg", env={"TRACE": bp}, workers=1, deque=True, xmx="8g")
    got = sorted(r[2] for r in tuples(ob, "REJECT"))
    base_rej = sorted(r[2] for r in tuples(results[0][1], "REJECT"))
    for x in base_rej:
        if x in got: got.remove(x)
    if got != ["rejected-a-valid-source", "token-kind", "token-span"]:
        raise ToolError(f"C17 generative selftest: planted differences not recognised: {got}")
    return {"model_states": info.get("distinct", 0), "model_bound": f"every string of length <= {maxlen} over the lexical alphabet", "model_invariants": ["ModelTiles", "ModelRelex"],
            "model_holds": info["no_error"], "keyword_alphabet_violates": "ModelRelex (let( : F43)", "streams_compared": judged, "not_compared_symbols_outside_the_specified_alphabet": skipped,
            "differences": nrej, "trace_states": tstates, "selftest": {"planted": 3, "recognised": 3},
            "explanation": "spec/LexGen.tla transcribes prqlc-parser's lexer rule by rule (ordered choice, greedy repetition, end-of-expression look-ahead, multi-quote strings and escapes, numbers, dates, line wraps) for the 46 symbols of the C17 alphabets; TLC checks the tiling and re-lex property on the model for every string of the space, and LexGenTrace requires the real lexer's token stream (kind classes, byte spans, accept / reject) to be Lex(source) for every string compiled"}

def check(tier):
    rep = Report("C17", tier)
    d = workdir("C17")
    for f in glob.glob(os.path.join(d, "*.ndjson")):
        os.remove(f)
    build_harness()
    maxlen = 4 if tier == "quick" else 5
    ap = os.path.join(d, "alphabet.json")
    json.dump(ALPHABET, open(ap, "w"))
    n = len(ALPHABET)
    # (1) the declared space, one shard per first character
    def gen(i):
        out = os.path.join(d, f"sh{i}.ndjson")
        r = subprocess.run([PV, "lexrun", ap, str(maxlen), out, str(i)], stdout=subprocess.PIPE, stderr=subprocess.PIPE, text=True)
        if r.returncode != 0:
            raise ToolError("pv lexrun failed: " + r.stderr[-1000:])
        return out
    with ThreadPoolExecutor(max_workers=12) as ex:
        shards = list(ex.map(gen, range(n)))
    # (2) seeded longer strings over a wider alphabet + the repository's own .prql files
    rnd = random.Random(seed())
    wide = ALPHABET + EXTRA
    strs = []
    for _ in range(3000 if tier == "quick" else 60000):
        ln = rnd.randint(5, 40)
        strs.append("".join(rnd.choice(wide) for _ in range(ln)))
    kws = ["let", "into", "case", "prql", "type", "module", "internal", "func", "import", "enum", "true", "false", "null",
           "@2020-01-01", "@12:30", "@2020-01-01T12:00:00Z", "1..2", "a ..b", "0x1f", "0b11", "0o7", "1e3", "1_000", "2days",
           "s\"x{a}\"", "f'{b}'", "r\"\\n\"", "'''a'''", "&&", "||", "??", "//", "**", "~=", "->", "=>", "$1", "#! doc", "# c\n\\ x"]
    for _ in range(2000 if tier == "quick" else 30000):
        parts = [rnd.choice(kws + wide) for _ in range(rnd.randint(2, 8))]
        strs.append(rnd.choice(["", " ", "\n"]).join(parts))
    for f in sorted(glob.glob("/repo/prqlc/prqlc/tests/integration/queries/*.prql")):
        strs.append(open(f).read())
    lists = []
    per = 4000
    for i in range(0, len(strs), per):
        sp = os.path.join(d, f"strs{i//per}.json")
        json.dump(strs[i:i + per], open(sp, "w"))
        out = os.path.join(d, f"list{i//per}.ndjson")
        r = subprocess.run([PV, "lexlist", sp, out], stdout=subprocess.PIPE, stderr=subprocess.PIPE, text=True)
        if r.returncode != 0:
            raise ToolError("pv lexlist failed: " + r.stderr[-1000:])
        lists.append(out)
    # validate everything with TLC
    def validate(path):
        out, info = tlc("LexerTrace", "LexerTrace.cfg", env={"TRACE": path}, workers=1, deque=True, xmx="6g")
        return path, out, info
    total = events = 0
    samples = []
    with ThreadPoolExecutor(max_workers=6) as ex:
        results = list(ex.map(validate, shards + lists))
    states = 0
    for path, out, info in results:
        tr = tuples(out, "TRACE")
        if not info["no_error"] or not tr or tr[0][1] != tr[0][2]:
            open(path + ".tlc.out", "w").write(out)
            raise ToolError(f"LexerTrace did not consume {path}: " + info.get("error_text", out[-800:])[:1200])
        events += tr[0][2]; states += info.get("distinct", 0)
        c = tuples(out, "COUNTS")
        total += c[-1][1] if c else 0
        for r in tuples(out, "REJECT"):
            src = json.loads(r[1]) if r[1].startswith('"') else r[1]
            sig = {"what": r[2], "src": src}
            det = {}
            if len(r) >= 7:
                det = {"fault": r[4], "token": json.loads(r[5]) if r[5] else "", "relexed": json.loads(r[6]) if r[6] else ""}
                sig.update(det)
            rep.violation({"property": "C17", "kind": r[2], "detail": det, "source": src, "trace_file": os.path.relpath(path, ROOT), "line": r[3],
                           "how_to_replay": "bin/check C17 --replay <this file>"}, sig)
    # generative oracle (spec/LexGen.tla): the lexer transcribed as a function; (a) the property on the model itself for
    # every string of the space, (b) the real token stream of every string must be Lex(string)
    gen_cov = lexgen_phase(rep, d, tier, shards + lists, maxlen)
    st = corrupt_selftest(d)
    ev0 = read_ndjson(shards[0])
    for e in [ev0[5], ev0[len(ev0) // 2], ev0[-2]]:
        samples.append({"src": e.get("src"), "tokens": [[t["k"], t["s"], t["e"]] for t in e.get("toks", [])], "event": e["event"]})
    cov = {"generative_lexer": gen_cov, "states": states + gen_cov["model_states"] + gen_cov["trace_states"], "transitions": states, "traces_validated_against_impl": total + gen_cov["streams_compared"], "samples": samples, "exhaustive": True,
           "explanation": f"every string of length <= {maxlen} over the {n}-symbol lexical alphabet {ALPHABET!r} ({sum(n**i for i in range(maxlen+1))} strings; TLC checks membership, strict enumeration order and the size of the space) plus {len(strs)} seeded longer strings / keyword mixes / repository queries; each token stream validated by the tiling monitor of Lexer.tla",
           "strings_total": total, "trace_events": events, "selftest": st}
    return rep.finish("model_checking", cov,
                      ["spans are byte offsets into the UTF-8 source (chumsky spans over &str)",
                       "token identity for the re-lex check is the Debug rendering of TokenKind (payload included)",
                       "inline whitespace = space and tab"])
