----------------------------- MODULE Stages -----------------------------
(* C15 - staged compilation through JSON equals one-shot compile.        *)
(* The public API as a graph of artefact kinds.  An artefact is known by *)
(* an id (value equality for syntax trees and RQ, bytes for JSON / SQL,  *)
(* reason + span for errors).  The diagram commutes iff every function   *)
(* application that reaches a node produces the artefact already known   *)
(* for that node.                                                        *)
EXTENDS Integers, Sequences, FiniteSets, TLC

Nodes == {"src", "pl", "pljson", "rq", "rqjson", "out"}
\* function name -> <<source node, destination node>>; an error result of
\* any function is an artefact of node "out"
Funs == [ parse   |-> <<"src", "pl">>,      compile |-> <<"src", "out">>,
          from_pl |-> <<"pl", "pljson">>,   to_pl   |-> <<"pljson", "pl">>,
          resolve |-> <<"pl", "rq">>,
          from_rq |-> <<"rq", "rqjson">>,   to_rq   |-> <<"rqjson", "rq">>,
          gen     |-> <<"rq", "out">> ]
FunNames == DOMAIN Funs

Unset == -1
V0 == [n \in Nodes |-> Unset]

\* may f, applied to the artefact of its source node, yield artefact id at node dst?
ApplyOk(val, f, dst, id) ==
  /\ f \in FunNames
  /\ dst \in {Funs[f][2], "out"}           \* its own destination, or an error
  /\ val[Funs[f][1]] # Unset \/ Funs[f][1] = "src"
  /\ val[dst] \in {Unset, id}              \* the diagram commutes at dst

Apply(val, dst, id) == [val EXCEPT ![dst] = id]
=======================================================================
