---------------------------- MODULE Values ----------------------------
(* The value domain of PRQL expressions as documented in the language  *)
(* book (operators.md, null.md, case.md): NULL, exact rationals (ints  *)
(* are rationals with denominator 1), booleans, text.  Every value is  *)
(* a record of ONE shape, because TLC refuses to compare values of     *)
(* different types.  All looseness that is allowed when comparing an   *)
(* observation made on a database with a specified value lives in      *)
(* Equiv, and nowhere else.                                            *)
EXTENDS Integers, Sequences, FiniteSets, TLC

Null      == [k |-> "null", n |-> 0, d |-> 1, s |-> ""]
B(b)      == [k |-> "bool", n |-> IF b THEN 1 ELSE 0, d |-> 1, s |-> ""]
True      == B(TRUE)
False     == B(FALSE)
Text(str) == [k |-> "text", n |-> 0, d |-> 1, s |-> str]

Abs(x) == IF x < 0 THEN -x ELSE x
Sign(x) == IF x < 0 THEN -1 ELSE IF x > 0 THEN 1 ELSE 0

RECURSIVE Gcd(_, _)
Gcd(a, b) == IF b = 0 THEN a ELSE Gcd(b, a % b)

\* normalised rational n/d  (d # 0)
Num(n, d) ==
  LET sg == IF d < 0 THEN -1 ELSE 1
      g0 == Gcd(Abs(n), Abs(d))
      g  == IF g0 = 0 THEN 1 ELSE g0
  IN [k |-> "num", n |-> (sg * n) \div g, d |-> (sg * d) \div g, s |-> ""]
IntV(n) == [k |-> "num", n |-> n, d |-> 1, s |-> ""]

IsNull(v) == v.k = "null"
IsNum(v)  == v.k = "num"
IsBool(v) == v.k = "bool"
IsText(v) == v.k = "text"
IsTrue(v) == v.k = "bool" /\ v.n = 1
IsInt(v)  == v.k = "num" /\ v.d = 1

\* a value that stands for "the language does not say" (division by zero):
\* it is contagious and every observation is accepted for it.
Undef == [k |-> "undef", n |-> 0, d |-> 1, s |-> ""]
\* "NULL or 0": the value of a windowed sum over a frame without non-null
\* values (the book defines the empty sum only for aggregation).
Null0 == [k |-> "null0", n |-> 0, d |-> 1, s |-> ""]
IsUndef(v) == v.k = "undef" \/ v.k = "null0"

\* -------- text order: TLC cannot order strings, so the (finite) text
\* domain used by the models is ranked explicitly.
TextDomain == << "", "w", "x", "y", "z" >>
TextRank(str) == IF \E i \in 1..Len(TextDomain) : TextDomain[i] = str
                 THEN CHOOSE i \in 1..Len(TextDomain) : TextDomain[i] = str
                 ELSE 0

\* -------- arithmetic (NULL-propagating; exact) ------------------------
\* TLC integers are 32-bit: arithmetic is given a value only while numerator
\* and denominator stay small enough for every intermediate product to fit;
\* beyond that the specification says nothing (Undef)
Bound == 30000
Small(v) == v.k # "num" \/ (Abs(v.n) < Bound /\ v.d < Bound)
Arith2(a, b, f(_, _)) ==
  IF IsUndef(a) \/ IsUndef(b) THEN Undef
  ELSE IF IsNull(a) \/ IsNull(b) THEN Null
  ELSE IF ~Small(a) \/ ~Small(b) THEN Undef
  ELSE f(a, b)

\* booleans take part in arithmetic as 0/1 only on engines with dynamic
\* typing; the models never build such trees except in the C02 bucket
\* "dynamically typed", where ToNum documents the reading used.
ToNum(v) == IF v.k = "bool" THEN IntV(v.n) ELSE v

Add(a, b) == Arith2(ToNum(a), ToNum(b), LAMBDA x, y : Num(x.n * y.d + y.n * x.d, x.d * y.d))
Sub(a, b) == Arith2(ToNum(a), ToNum(b), LAMBDA x, y : Num(x.n * y.d - y.n * x.d, x.d * y.d))
Mul(a, b) == Arith2(ToNum(a), ToNum(b), LAMBDA x, y : Num(x.n * y.n, x.d * y.d))
\* Division by zero: the book is silent.  The only engine results are
\* observed on is SQLite (targets sqlite, generic), which documents NULL.
DivZero == Null
\* real division
DivF(a, b) == Arith2(ToNum(a), ToNum(b),
                LAMBDA x, y : IF y.n = 0 THEN DivZero ELSE Num(x.n * y.d, x.d * y.n))
\* truncation toward zero of an exact rational p/q (q > 0)
TruncQ(p, q) == Sign(p) * (Abs(p) \div q)
\* integer division truncates toward zero
DivI(a, b) == Arith2(ToNum(a), ToNum(b),
                LAMBDA x, y : IF y.n = 0 THEN DivZero
                              ELSE LET r == Num(x.n * y.d, x.d * y.n) IN IntV(TruncQ(r.n, r.d)))
\* remainder has the sign of the dividend: a - b * trunc(a / b)
\* (only integers: engines disagree on the remainder of non-integers -
\* SQLite casts both operands to INTEGER - and the book does not say)
Mod(a, b) == Arith2(ToNum(a), ToNum(b),
                LAMBDA x, y : IF x.d # 1 \/ y.d # 1 THEN Undef
                              ELSE IF y.n = 0 THEN DivZero
                              ELSE LET r == Num(x.n * y.d, x.d * y.n)
                                       q == IntV(TruncQ(r.n, r.d))
                                   IN Sub(x, Mul(y, q)))
Neg(a) == IF IsUndef(a) THEN Undef ELSE IF IsNull(a) THEN Null
          ELSE LET x == ToNum(a) IN Num(-x.n, x.d)

RECURSIVE IntPow(_, _)
IntPow(b, e) == IF e = 0 THEN 1 ELSE b * IntPow(b, e - 1)
\* ** : only natural exponents are given a value by the models
RECURSIVE PowFits(_, _)
PowFits(b, e) == e = 0 \/ (PowFits(b, e - 1) /\ Abs(IntPow(b, e - 1)) * Abs(b) < Bound)
Pow(a, b) == Arith2(ToNum(a), ToNum(b),
                LAMBDA x, y : IF y.d # 1 THEN Undef
                              ELSE IF Abs(y.n) > 12 \/ ~PowFits(x.n, Abs(y.n)) \/ ~PowFits(x.d, Abs(y.n)) THEN Undef
                              ELSE IF y.n >= 0 THEN Num(IntPow(x.n, y.n), IntPow(x.d, y.n))
                              ELSE IF x.n = 0 THEN Undef
                              ELSE Num(IntPow(x.d, -y.n), IntPow(x.n, -y.n)))

\* -------- comparison ---------------------------------------------------
\* -1 / 0 / 1 on two non-null values of the same kind
Cmp(a, b) ==
  IF a.k = "text" /\ b.k = "text"
    THEN Sign(TextRank(a.s) - TextRank(b.s))
  ELSE LET x == ToNum(a)  y == ToNum(b) IN Sign(x.n * y.d - y.n * x.d)

Comparable(a, b) == (a.k = "text") = (b.k = "text")

Rel2(a, b, p(_)) ==
  IF IsUndef(a) \/ IsUndef(b) THEN Undef
  ELSE IF IsNull(a) \/ IsNull(b) THEN Null
  ELSE IF ~Small(ToNum(a)) \/ ~Small(ToNum(b)) THEN Undef
  ELSE IF ~Comparable(a, b) THEN Undef
  ELSE B(p(Cmp(a, b)))

Eq(a, b)  == Rel2(a, b, LAMBDA c : c = 0)
Ne(a, b)  == Rel2(a, b, LAMBDA c : c # 0)
Lt(a, b)  == Rel2(a, b, LAMBDA c : c < 0)
Lte(a, b) == Rel2(a, b, LAMBDA c : c <= 0)
Gt(a, b)  == Rel2(a, b, LAMBDA c : c > 0)
Gte(a, b) == Rel2(a, b, LAMBDA c : c >= 0)

\* -------- three-valued logic -------------------------------------------
\* on dynamically typed engines a number is true iff it is non-zero
Truth(v) == IF v.k = "num" THEN B(v.n # 0) ELSE v

And3(a0, b0) ==
  LET a == Truth(a0)  b == Truth(b0) IN
  IF (a.k = "bool" /\ a.n = 0) \/ (b.k = "bool" /\ b.n = 0) THEN False
  ELSE IF IsUndef(a) \/ IsUndef(b) THEN Undef
  ELSE IF IsNull(a) \/ IsNull(b) THEN Null
  ELSE True
Or3(a0, b0) ==
  LET a == Truth(a0)  b == Truth(b0) IN
  IF IsTrue(a) \/ IsTrue(b) THEN True
  ELSE IF IsUndef(a) \/ IsUndef(b) THEN Undef
  ELSE IF IsNull(a) \/ IsNull(b) THEN Null
  ELSE False
Not3(a0) == LET a == Truth(a0) IN
            IF IsUndef(a) THEN Undef ELSE IF IsNull(a) THEN Null ELSE B(a.n = 0)

Coalesce(a, b) == IF IsUndef(a) THEN Undef ELSE IF IsNull(a) THEN b ELSE a

\* -------- identity used for grouping, DISTINCT, set operations:
\* NULLs are "not distinct" from each other.
Same(a, b) == a = b

\* -------- ordering used by sort: a total preorder; NULL placement is a
\* parameter (the book leaves it to the engine).  nullsFirst = TRUE means
\* NULL ranks below every value in ascending order (SQLite, MySQL, MSSQL).
\* returns -1/0/1
OrdCmp(a, b, nullsFirst) ==
  IF IsNull(a) /\ IsNull(b) THEN 0
  ELSE IF IsNull(a) THEN (IF nullsFirst THEN -1 ELSE 1)
  ELSE IF IsNull(b) THEN (IF nullsFirst THEN 1 ELSE -1)
  ELSE Cmp(a, b)

\* -------- observation equivalence ---------------------------------------
\* obs: value read back from the database; exp: value the specification
\* assigns.  Exactly these identifications are made:
\*   - engines without a boolean type return 0/1 for booleans
\*   - an Undef cell accepts anything
Equiv(obs, exp) ==
  \/ exp.k = "undef"
  \/ exp.k = "null0" /\ (obs = Null \/ obs = IntV(0))
  \/ obs = exp
  \/ exp.k = "bool" /\ obs.k = "num" /\ obs.d = 1 /\ obs.n = exp.n
=======================================================================
