SPECIFICATION Spec
CONSTANTS
  RepairedSI = FALSE
  MaxCtes = 1
  MaxSteps = 2
INVARIANT MachineMeetsMeaning
CHECK_DEADLOCK FALSE
