SPECIFICATION TraceSpec
INVARIANT Done
POSTCONDITION TraceAccepted
CHECK_DEADLOCK FALSE
