"""The L1 family of checks (C01 C03 C04 C05 C06 C10 share it): generate programs with the bounded
model (TLC) and the seeded random generator, replay them through the compiler built from /repo,
validate the recorded executions against Prql.tla (TLC), attribute rejections to properties."""
import json, os, re, collections, random, time
from vlib import *
import l1, tags as tagmod

def frame_kind(det, names):
    exp = det.get("frame", [])
    if names is None:
        return "none"
    if len(exp) != len(names):
        return "arity"
    bad = [i for i in range(len(exp)) if exp[i] and exp[i] != names[i]]
    if bad and all(re.fullmatch(r"_expr_\d+", names[i]) for i in bad):
        return "generated-name"
    return "name"

def signature(prog, what, det, side):
    sig = {"what": what, "tags": tagmod.tags(prog), "src": side.get("src", ""), "sql": side.get("sql", ""),
           "exec_error": side.get("exec_error", ""), "target": side.get("target", "")}
    if "panic" in side:
        sig["panic_site"] = f"{side['panic']['file']}:{side['panic']['line']}"
        sig["panic_msg"] = side["panic"]["msg"]
    if "error" in side and side["error"]:
        sig["reason"] = side["error"][0].get("reason", "")
    if what in ("frame", "rqframe"):
        sig["frame_kind"] = frame_kind(det, side.get("names"))
    return sig

def run(rep, name, progs, dbset, relevant, target="sqlite"):
    """Replay + validate `progs`; rejections whose kind is in `relevant` go to the report."""
    res = l1.run_and_validate(name, progs, dbset, target=target)
    byid = {p["id"]: p for p in progs}
    by_what = collections.Counter()
    for pid, what, det in res["rejects"]:
        by_what[what] += 1
        if what not in relevant:
            continue
        side = res["side"].get(pid, {})
        sig = signature(byid[pid], what, det, side)
        obj = {"property": rep.pid, "kind": what, "program": byid[pid], "prql": side.get("src"),
               "sql": side.get("sql"), "target": target, "dbset": os.path.relpath(dbset, ROOT),
               "expected_frame": det, "observed_names": side.get("names"), "exec_error": side.get("exec_error"),
               "panic": side.get("panic"), "compile_error": side.get("error"),
               "how_to_replay": f"bin/check {rep.pid} --replay <this file>"}
        rep.violation(obj, sig)
    res["by_what"] = dict(by_what)
    return res
