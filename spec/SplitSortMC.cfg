SPECIFICATION SpecX
CONSTANTS
  Repaired = TRUE
  RepairedSI = TRUE
  Mutant = "none"
  MaxLen = 3
  MaxComp = 1
  Kinds = {"Filter", "Aggregate", "Sort", "Take", "Distinct", "DistinctOn", "Join", "Union"}
  Emit = FALSE
  Report = FALSE
INVARIANTS SplitKeepsOrder SortsMeetMeaning
CHECK_DEADLOCK FALSE
