--------------------------- MODULE StagesTrace ---------------------------
(* Trace validation for C15: `pv stages` walks every path of StagesMC for *)
(* every (source, configuration) and logs the artefact id each function   *)
(* application produced.                                                  *)
EXTENDS Stages, Json, IOUtils

Rec == ndJsonDeserialize(IOEnv.TRACE)
VARIABLES l, val, cur, bad, n, nrej
vars == <<l, val, cur, bad, n, nrej>>
TInit == l = 1 /\ val = V0 /\ cur = "" /\ bad = FALSE /\ n = 0 /\ nrej = 0
Ev == Rec[l]
Consume == l <= Len(Rec) /\ l' = l + 1

\* a new (source, configuration): nothing known yet
Reset == Consume /\ Ev.event = "Reset" /\ val' = V0 /\ cur' = Ev.id /\ bad' = FALSE /\ n' = n + 1 /\ UNCHANGED nrej
\* a new path over the same source: the source is the same artefact, everything else stays known
Path == Consume /\ Ev.event = "Path" /\ UNCHANGED <<val, cur, bad, n, nrej>>
ApplyF(f) == /\ Consume /\ Ev.event = "Apply" /\ Ev.f = f
             /\ ApplyOk(val, f, Ev.dst, Ev.id)
             /\ val' = Apply(val, Ev.dst, Ev.id) /\ UNCHANGED <<cur, bad, n, nrej>>
Reject == /\ Consume /\ Ev.event = "Apply" /\ ~ApplyOk(val, Ev.f, Ev.dst, Ev.id)
          /\ nrej' = nrej + 1 /\ PrintT(<<"REJECT", cur, Ev.f, Ev.dst, l>>)
          /\ UNCHANGED <<val, cur, bad, n>>
\* a panic inside an API function is never an artefact
Panic == /\ Consume /\ Ev.event = "Panic" /\ nrej' = nrej + 1 /\ PrintT(<<"REJECT", cur, Ev.f, "panic", l>>)
         /\ UNCHANGED <<val, cur, bad, n>>
End == Consume /\ Ev.event = "End" /\ PrintT(<<"COUNTS", n, nrej>>) /\ UNCHANGED <<val, cur, bad, n, nrej>>

TNext == \/ Reset \/ Path \/ Reject \/ Panic \/ End
         \/ ApplyF("parse") \/ ApplyF("compile") \/ ApplyF("from_pl") \/ ApplyF("to_pl")
         \/ ApplyF("resolve") \/ ApplyF("from_rq") \/ ApplyF("to_rq") \/ ApplyF("gen")
TraceSpec == TInit /\ [][TNext]_vars
TraceAccepted ==
  LET d == TLCGet("stats").diameter IN
  /\ PrintT(<<"TRACE", d - 1, Len(Rec)>>)
  /\ d - 1 = Len(Rec)
=======================================================================
