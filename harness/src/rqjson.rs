//! `pv rqjson`: sources -> the RQ the resolver returns (as JSON, via the public serde impls)
use crate::api;
use serde_json::{json, Value as J};
use std::io::{BufRead, Write};

/// args: <sources.ndjson: {"id","src"} per line> <out.ndjson>
pub fn main(args: &[String]) -> i32 {
    let inp = std::io::BufReader::new(std::fs::File::open(&args[0]).expect("sources"));
    let mut out = std::io::BufWriter::new(std::fs::File::create(&args[1]).expect("out"));
    for line in inp.lines() {
        let line = line.expect("read");
        if line.trim().is_empty() {
            continue;
        }
        let v: J = serde_json::from_str(&line).expect("json");
        let src = v["src"].as_str().unwrap_or("");
        let r = api::guarded(|| prqlc::prql_to_pl(src).and_then(prqlc::pl_to_rq));
        let o = match r {
            api::Outcome::Ok(rq) => json!({"id": v["id"], "src": src, "rq": serde_json::to_value(&rq).unwrap_or(J::Null)}),
            api::Outcome::Err(e) => json!({"id": v["id"], "src": src, "rq": J::Null, "err": e.inner.first().map(|m| m.reason.clone())}),
            api::Outcome::Panic { msg, file, line } => json!({"id": v["id"], "src": src, "rq": J::Null, "panic": {"msg":msg,"file":file,"line":line}}),
        };
        writeln!(out, "{}", o).unwrap();
    }
    0
}
