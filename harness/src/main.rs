mod api;
mod backend;
mod db;
mod errors;
mod fmtrun;
mod lexrun;
mod literal;
mod purity;
mod sqlast;
mod sqlshape;
mod render;
mod rqjson;
mod run;
mod stages;
mod target;
mod totality;
mod value;

fn main() {
    api::install_panic_hook();
    let args: Vec<String> = std::env::args().skip(1).collect();
    if args.is_empty() {
        eprintln!("usage: pv <subcommand> ...");
        std::process::exit(2);
    }
    let code = match args[0].as_str() {
        "run" => run::main(&args[1..]),
        "runsrc" => run::main_src(&args[1..]),
        "lexrun" => lexrun::main(&args[1..]),
        "target" => target::main(&args[1..]),
        "rqjson" => rqjson::main(&args[1..]),
        "stages" => stages::main(&args[1..]),
        "fmtrun" => fmtrun::main(&args[1..]),
        "literal" => literal::main(&args[1..]),
        "errors" => errors::main(&args[1..]),
        "totality" => totality::main(&args[1..]),
        "purity" => purity::main(&args[1..]),
        "sched" => purity::main_sched(&args[1..]),
        "sqlast" => sqlast::main(&args[1..]),
        "sqlshape" => sqlshape::main(&args[1..]),
        "sqlparse" => sqlast::main_parse(&args[1..]),
        "number" => literal::main_numbers(&args[1..]),
        "ident" => literal::main_idents(&args[1..]),
        "lexlist" => lexrun::main_list(&args[1..]),
        "backend-raw" => backend::main_raw(&args[1..]),
        "backend" => backend::main(&args[1..]),
        "render-ndjson" => {
            // args: <dbset.json> <programs.ndjson> <out.ndjson of {"id","src"}>
            use std::io::Write;
            let dbset: serde_json::Value =
                serde_json::from_str(&std::fs::read_to_string(&args[1]).expect("dbset")).expect("json");
            let mut out = std::io::BufWriter::new(std::fs::File::create(&args[3]).expect("out"));
            for l in std::fs::read_to_string(&args[2]).expect("programs").lines() {
                if l.trim().is_empty() {
                    continue;
                }
                let p: serde_json::Value = serde_json::from_str(l).expect("json");
                writeln!(out, "{}", serde_json::json!({"id": p["id"], "src": render::program(&p, &dbset["schema"])})).unwrap();
            }
            0
        }
        "pljson" => {
            // args: <sources.ndjson {"id","src"}> <out.ndjson {"id","pl"|null}>
            use std::io::Write;
            let mut out = std::io::BufWriter::new(std::fs::File::create(&args[2]).expect("out"));
            for l in std::fs::read_to_string(&args[1]).expect("sources").lines() {
                if l.trim().is_empty() {
                    continue;
                }
                let v: serde_json::Value = serde_json::from_str(l).expect("json");
                let src = v["src"].as_str().unwrap_or("");
                let o = match api::guarded(|| prqlc::prql_to_pl(src)) {
                    api::Outcome::Ok(pl) => serde_json::json!({"id": v["id"], "pl": serde_json::to_value(&pl).unwrap_or_default()}),
                    api::Outcome::Err(e) => serde_json::json!({"id": v["id"], "pl": null, "err": e.inner.first().map(|m| m.reason.clone())}),
                    api::Outcome::Panic { msg, file, line } => serde_json::json!({"id": v["id"], "pl": null, "panic": format!("{file}:{line}:{msg}")}),
                };
                writeln!(out, "{}", o).unwrap();
            }
            0
        }
        "repeat" => {
            // args: <file with source> <dialect|-> <n>: number of distinct compile outcomes over n calls
            let src = std::fs::read_to_string(&args[1]).expect("source");
            let d = if args[2] == "-" { None } else { Some(args[2].as_str()) };
            let n: usize = args[3].parse().expect("n");
            let mut outs = std::collections::BTreeSet::new();
            for _ in 0..n {
                let o = match api::compile(&src, d) {
                    api::Outcome::Ok(s) => format!("SQL:{s}"),
                    api::Outcome::Err(e) => format!("ERR:{}", e.inner.iter().map(|m| format!("{}|{:?}", m.reason, m.hints)).collect::<Vec<_>>().join(";")),
                    api::Outcome::Panic { msg, file, line } => format!("PANIC:{file}:{line}:{msg}"),
                };
                outs.insert(o);
            }
            println!("{}", serde_json::json!({"distinct": outs.len(), "outputs": outs.iter().take(4).collect::<Vec<_>>()}));
            0
        }
        "render" => {
            // stdin: one program per line -> PRQL text
            let dbset: serde_json::Value =
                serde_json::from_str(&std::fs::read_to_string(&args[1]).expect("dbset")).expect("json");
            for l in std::io::stdin().lines() {
                let p: serde_json::Value = serde_json::from_str(&l.unwrap()).expect("json");
                println!("{}\n---", render::program(&p, &dbset["schema"]));
            }
            0
        }
        other => {
            eprintln!("unknown subcommand {other}");
            2
        }
    };
    std::process::exit(code);
}
