------------------------------ MODULE Spans ------------------------------
(* C13 - errors are located inside the source and point at the offending   *)
(* text.  A source file is a sequence of characters; character i has a     *)
(* byte width and a flag "is a line break".  ErrorMessage documents its    *)
(* span as CHARACTER offsets into the named source file, and its location  *)
(* as 0-based (line, column) pairs of the span's start and end.            *)
EXTENDS Integers, Sequences, FiniteSets, TLC

\* the position machine: (line, column) of character offset p, both 0-based
RECURSIVE LineColFrom(_, _, _, _, _)
LineColFrom(chars, i, p, line, col) ==       \* i: next character (1-based), scanned offsets < p
  IF i > p \/ i > Len(chars) THEN << line, col >>
  ELSE IF chars[i][2] THEN LineColFrom(chars, i + 1, p, line + 1, 0)
  ELSE LineColFrom(chars, i + 1, p, line, col + 1)
LineCol(chars, p) == LineColFrom(chars, 1, p, 0, 0)

\* position of an END offset.  At the very end of a source that ends in a line break there is no next
\* line: the position may be given on the last line, after its break (column = length of that line).
EndOk(chars, p, loc) ==
  \/ loc = LineCol(chars, p)
  \/ /\ p = Len(chars) /\ p > 0 /\ chars[p][2]
     /\ LET before == LineCol(chars, p - 1) IN loc = << before[1], before[2] + 1 >>

SpanInside(chars, sp) == 0 <= sp[1] /\ sp[1] <= sp[2] /\ sp[2] <= Len(chars)

\* the message quotes the line the span starts on: some gutter line of the display carries that
\* line's number (1-based) and its text
QuotesLine(m, line) ==
  \E i \in 1 .. Len(m.display_lines) :
     /\ m.display_lines[i].n = line + 1
     /\ line + 1 <= Len(m.src_lines) /\ m.display_lines[i].text = m.src_lines[line + 1]

\* verdict on one message; "ok" or the first requirement it misses
MsgFault(m) ==
  IF m.reason_len = 0 THEN "empty-reason"
  ELSE IF ~m.has_span THEN "ok"
  ELSE IF ~m.path_known THEN "unknown-source-file"
  ELSE IF ~SpanInside(m.chars, m.span) THEN "span-outside-source"
  ELSE IF ~m.has_location THEN "no-location"
  ELSE IF << m.location[1][1], m.location[1][2] >> # LineCol(m.chars, m.span[1]) THEN "location-start"
  ELSE IF ~EndOk(m.chars, m.span[2], << m.location[2][1], m.location[2][2] >>) THEN "location-end"
  ELSE IF ~m.has_display \/ ~QuotesLine(m, LineCol(m.chars, m.span[1])[1]) THEN "display-line"
  ELSE "ok"

\* the error points at the offending text: its span overlaps the planted token (or touches it)
PointsAt(m, planted) ==
  /\ m.has_span /\ m.path = planted.path
  /\ m.span[1] <= planted.end /\ m.span[2] >= planted.start
=======================================================================
