------------------------------ MODULE Ident ------------------------------
(* C09 - an identifier written in PRQL refers, in the emitted SQL, to the  *)
(* database object of exactly that name.                                   *)
(* A name is a record [s: the name, cps: its code points, lower: the name  *)
(* lower-cased].  The SQL token that stands for it must carry exactly that *)
(* name, and it must be QUOTED whenever the bare spelling would not mean   *)
(* "the object of that name" to the engine:                                *)
(*   - it is not a simple lower-case identifier (engines fold or reject    *)
(*     the bare form), or                                                  *)
(*   - it is a word the engine reserves or evaluates (SQL-92 reserved      *)
(*     words, niladic functions such as current_date).                     *)
EXTENDS Integers, Sequences, FiniteSets, TLC

IsLower(c) == c >= 97 /\ c <= 122
IsDigit(c) == c >= 48 /\ c <= 57
Simple(cps) == /\ cps # <<>>
               /\ (IsLower(cps[1]) \/ cps[1] = 95)
               /\ \A i \in 1 .. Len(cps) : IsLower(cps[i]) \/ IsDigit(cps[i]) \/ cps[i] = 95

\* words that never denote a column / table when written bare (sample of the SQL standard's reserved
\* words and of the niladic functions every engine evaluates)
MustQuote == {"select", "from", "where", "group", "order", "by", "table", "user", "current_date", "current_time",
              "current_timestamp", "current_user", "session_user", "null", "true", "false", "case", "when", "then",
              "else", "end", "and", "or", "not", "in", "is", "as", "on", "join", "left", "right", "union", "all",
              "distinct", "limit", "offset", "having", "with", "create", "insert", "update", "delete", "values", "into"}

NeedQuote(n) == ~Simple(n.cps) \/ n.lower \in MustQuote

\* quote characters an engine accepts for identifiers: 34 ", 96 `, 91 [
QuoteOk(d, q) ==
  CASE d \in {"mysql", "bigquery", "clickhouse"} -> q \in {96, 34}
    [] d = "mssql" -> q \in {34, 91}
    [] d = "sqlite" -> q \in {34, 96, 91}
    [] OTHER -> q = 34

\* tok: [found, value, quoted, q] - the token of the emitted SQL at the identifier's place
\* `$` inside a name: most engines accept it bare after the first character, the SQL standard (ansi)
\* does not; where it is accepted bare the tokenizer used as oracle may still split it, so only the
\* engine's verdict (SQLite) and the quoted form are judged
HasDollar(n) == \E i \in 1 .. Len(n.cps) : n.cps[i] = 36
TokenOk(d, n, tok) ==
  IF HasDollar(n) /\ d # "ansi" /\ ~tok.quoted /\ n.cps[1] # 36 THEN TRUE
  ELSE /\ tok.found /\ tok.value = n.s
       /\ NeedQuote(n) => (tok.quoted /\ QuoteOk(d, tok.q))
=======================================================================
