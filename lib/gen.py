"""Seeded random generator of program records beyond the exhaustive bound of PrqlMC.
It only proposes programs; well-formedness and meaning are decided by Prql.tla."""
import random
from progs import *

NUMOPS = ["+", "-", "*", "/", "//", "%", "??"]
CMPOPS = ["==", "!=", "<", "<=", ">", ">="]
AGGS = ["sum", "count", "min", "max", "average"]

class G:
    def __init__(self, seed, p_shadow=0.0, p_window=0.15, p_join=0.15, p_append=0.08, p_group=0.2, max_expr=2,
                 append_bare=0.0, sort_bias=0.0, safe=True, p_exclude=0.0):
        self.p_exclude = p_exclude
        # safe: stay clear of constructs with known defects of the unchanged compiler (//, -(-x), %
        # on possibly non-integer operands, literal-only columns), see known_findings.json
        self.safe = safe
        self.r = random.Random(seed)
        self.p_shadow, self.p_window, self.p_join, self.p_append, self.p_group = p_shadow, p_window, p_join, p_append, p_group
        self.max_expr = max_expr
        self.append_bare = append_bare
        self.sort_bias = sort_bias
        self.fresh = 0

    def name(self):
        self.fresh += 1
        return f"x{self.fresh}"

    # frame: list of (name, qualifier-needed-or-"") ; all columns numeric
    def colref(self, fr):
        n, q = self.r.choice(fr)
        return col(n, q)

    def num(self, fr, d=None, agg=False):
        d = self.max_expr if d is None else d
        r = self.r
        x = r.random()
        if d == 0 or x < 0.35:
            if fr and r.random() < 0.75:
                return self.colref(fr)
            return lit(r.choice([0, 1, 2, -2, 3, None]) if r.random() < 0.9 else (5, 2))
        if x < 0.75:
            op = r.choice(NUMOPS)
            if self.safe and op == "//":
                op = "*"
            if self.safe and op == "%":
                op = "+"
            return bin_(op, self.num(fr, d - 1), self.num(fr, d - 1))
        if x < 0.82:
            inner = self.num(fr, d - 1)
            if self.safe and (inner["t"] in ("un", "lit", "col")):
                # -(-x) and -(<column that may be inlined as a negative literal>) are emitted as `--x`
                return bin_("-", lit(0), inner)
            return un("-", inner)
        if x < 0.92:
            return case((self.boolean(fr, d - 1), self.num(fr, d - 1)), (lit(True), self.num(fr, d - 1)))
        return case((self.boolean(fr, d - 1), self.num(fr, d - 1)))

    def boolean(self, fr, d=None):
        d = self.max_expr if d is None else d
        r = self.r
        x = r.random()
        if d == 0 or x < 0.5:
            if r.random() < 0.2 and fr:
                return bin_(r.choice(["==", "!="]), self.colref(fr), lit(None))
            return bin_(r.choice(CMPOPS), self.num(fr, max(0, d - 1)), self.num(fr, max(0, d - 1)))
        if x < 0.8:
            return bin_(r.choice(["&&", "||"]), self.boolean(fr, d - 1), self.boolean(fr, d - 1))
        if x < 0.9:
            return un("!", self.boolean(fr, d - 1))
        lo, hi = sorted([r.choice([-2, 0, 1]), r.choice([1, 2, 3])])
        return inr(self.num(fr, 0), lit(lo), lit(hi))

    def aggexpr(self, fr):
        r = self.r
        f = r.choice(AGGS)
        a = agg(f, self.num(fr, 1) if r.random() < 0.3 else self.colref(fr))
        if r.random() < 0.2 and not self.safe:
            return bin_(r.choice(["+", "*", "-"]), a, lit(r.choice([1, 2])))
        return a

    def winexpr(self, fr, sorted_unique):
        r = self.r
        fs = ["sum", "count", "min", "max", "average", "rank", "rank_dense"]
        if sorted_unique:
            fs += ["row_number", "lag", "lead"] + ([] if self.safe else ["first", "last"])
        f = r.choice(fs)
        return agg(f, self.colref(fr), r.choice([1, 1, 2]))

    def newname(self, fr):
        if self.p_shadow and self.r.random() < self.p_shadow and fr:
            return self.r.choice(fr)[0]
        return self.name()

    def inner_steps(self, fr, in_group):
        """steps allowed inside group/window"""
        r = self.r
        steps = []
        kind = r.random()
        if in_group and kind < 0.45:
            items = [item(self.aggexpr(fr), self.name()) for _ in range(r.choice([1, 2]))]
            return [aggregate(*items)], None
        if kind < 0.75:
            k = ("desc" if r.random() < 0.4 else "asc", r.choice(fr)[0])
            keys = [k] + ([("asc", "k")] if any(n == "k" for n, _ in fr) and k[1] != "k" else [])
            steps.append(sort(*[(d, col(n, dict(fr).get(n, ""))) for d, n in keys]))
            if r.random() < 0.6:
                lo = r.choice([1, 1, 2])
                steps.append(take(lo, lo + r.choice([0, 1]), lo != 1))
                return steps, fr
        nm = self.name()
        steps.append(derive(item(self.winexpr(fr, False) if r.random() < 0.7 else self.num(fr, 1), nm)))
        return steps, fr + [(nm, "")]

    def pipeline(self, n, start="t"):
        r = self.r
        cols = {"t": ["k", "a", "b"], "u": ["k", "a", "c"], "l": ["k", "a", "b"]}
        fr = [(c, "") for c in cols[start]]
        if start == "l":
            # a relation literal (aliased l) instead of a table: NULLs, duplicates, negative values
            vals = [0, 1, 2, 3, -2, None]
            rows = [[r.choice([1, 2, 3, 4]), r.choice(vals), r.choice(vals)] for _ in range(r.randint(1, 4))]
            if r.random() < 0.3:
                rows.append(list(rows[0]))
            steps = [fromlit(cols["l"], rows, alias="l")]
        else:
            steps = [from_(start)]
        joined = False
        sorted_unique = False
        for _ in range(n):
            x = r.random()
            if self.sort_bias and r.random() < self.sort_bias:
                x = 0.5 + 0.1 * r.random()
            if not fr:
                break
            if self.p_exclude and len(fr) > 1 and r.random() < self.p_exclude:
                drop = r.sample(fr, 1 if r.random() < 0.7 or len(fr) < 3 else 2)
                steps.append(exclude(*[col(n0, q) for (n0, q) in drop]))
                fr = [c for c in fr if c not in drop]
                continue
            if x < 0.14:
                k = r.randint(1, min(3, len(fr)))
                chosen = r.sample(fr, k)
                items = []
                newfr = []
                for (n0, q) in chosen:
                    if r.random() < 0.25 and not self.safe:
                        nn = self.name()
                        items.append(item(col(n0, q), nn)); newfr.append((nn, ""))
                    elif q:
                        nn = self.name()
                        items.append(item(col(n0, q), nn)); newfr.append((nn, ""))
                    else:
                        items.append(item(col(n0, q))); newfr.append((n0, ""))
                if r.random() < 0.5:
                    nn = self.name()
                    e = self.num(fr)
                    if self.safe and e["t"] in ("col", "lit"):
                        e = bin_("+", e, lit(1))
                    items.append(item(e, nn)); newfr.append((nn, ""))
                steps.append(select(*items)); fr = newfr
            elif x < 0.30:
                nn = self.newname(fr)
                e = self.num(fr) if r.random() > self.p_window else self.winexpr(fr, sorted_unique)
                if self.safe and e["t"] in ("col", "lit"):
                    e = bin_("+", e, lit(1))      # no pure alias / literal-only columns (F35, F25)
                steps.append(derive(item(e, nn)))
                fr = [(n0, q) for (n0, q) in fr if n0 != nn] + [(nn, "")]
            elif x < 0.46:
                steps.append(filter_(self.boolean(fr)))
            elif x < 0.62:
                nk = r.choice([1, 1, 2])
                keys = []
                for _ in range(nk):
                    n0, q = r.choice(fr)
                    e = col(n0, q) if r.random() < 0.8 else bin_(r.choice(["+", "*"]), col(n0, q), lit(r.choice([1, 2, -2])))
                    keys.append(("desc" if r.random() < 0.4 else "asc", e))
                uniq = [(n0, q) for (n0, q) in fr if n0 == "k"]
                sorted_unique = False
                if uniq and r.random() < 0.6:
                    for (n0, q) in uniq:
                        keys.append(("asc", col(n0, q)))
                    sorted_unique = not joined or len(uniq) >= 2
                steps.append(sort(*keys))
            elif x < 0.72:
                lo = r.choice([1, 1, 1, 2, 3])
                hi = r.choice([lo, lo + 1, lo + 2, INF]) if lo > 1 else r.choice([1, 2, 3])
                steps.append(take(lo, hi, lo != 1))
            elif x < 0.78:
                items = [item(self.aggexpr(fr), self.name()) for _ in range(r.choice([1, 2]))]
                steps.append(aggregate(*items))
                fr = [(it["n"], "") for it in items]
                sorted_unique = False
            elif x < 0.78 + self.p_group:
                by = r.sample(fr, 1 if r.random() < 0.8 or len(fr) < 2 else 2)
                rest = [(n0, "") for (n0, q) in fr if (n0, q) not in by]
                if not rest:
                    continue
                inner, newrest = self.inner_steps(rest, True)
                steps.append(group([col(n0, q) for (n0, q) in by], inner))
                if newrest is None:
                    fr = [(n0, "") for (n0, q) in by] + [(it["n"], "") for it in inner[0]["items"]]
                else:
                    fr = [(n0, "") for (n0, q) in by] + newrest
                sorted_unique = False
            elif x < 0.78 + self.p_group + self.p_join and not joined and all(q == "" for _, q in fr):
                other = "u" if start in ("t", "l") else "t"
                side = r.choice(["inner", "inner", "left", "left", "right", "full"])
                shared = [n0 for (n0, _) in fr if n0 in cols[other]]
                if shared and r.random() < 0.6:
                    on = eqcol(r.choice(shared))
                elif shared:
                    c0 = r.choice(shared)
                    on = bin_("==", col(c0, start), col(r.choice(cols[other]), other))
                    if not all(n0 in cols[start] for (n0, _) in fr):
                        on = eqcol(c0)
                else:
                    continue
                if r.random() < 0.3:
                    w = [from_(other), filter_(self.boolean([(c, "") for c in cols[other]], 1))]
                    steps.append(join(side, w, on if on["t"] == "eqcol" else eqcol(shared[0]), alias=other, explicit=True))
                else:
                    steps.append(join(side, [from_(other)], on, explicit=(side != "inner" or r.random() < 0.3)))
                # after the join every name that exists on both sides needs a qualifier
                both = set(n0 for (n0, _) in fr) & set(cols[other])
                # qualifiers for the left side are only valid if the left is still the bare table
                left_ok = all(n0 in cols[start] for (n0, _) in fr)
                newfr = []
                for (n0, q) in fr:
                    if n0 in both:
                        if left_ok:
                            newfr.append((n0, start))
                    else:
                        newfr.append((n0, ""))
                for c in cols[other]:
                    newfr.append((c, other) if c in both else (c, ""))
                fr = newfr
                joined = True
            elif x < 0.78 + self.p_group + self.p_join + self.p_append and all(q == "" for _, q in fr):
                other = "u" if start in ("t", "l") else "t"
                if r.random() < self.append_bare and len(fr) == 3:
                    steps.append(append([from_(other)]))
                else:
                    oc = [(c, "") for c in cols[other]]
                    its = [item(col(r.choice(oc)[0])) if r.random() < 0.7 else item(self.num(oc, 1), self.name()) for _ in fr]
                    steps.append(append([from_(other), select(*its)]))
                sorted_unique = False
            else:
                # window block
                if not sorted_unique:
                    continue
                lo = r.choice([-2, -1, 0, -INF])
                hi = r.choice([0, 1, 2, INF])
                sugar = ""
                if lo <= 0 and hi == 0 and lo > -INF and r.random() < 0.4:
                    sugar = "rolling"
                if lo == -INF and hi == 0 and r.random() < 0.5:
                    sugar = "expanding"
                nm = self.name()
                f = r.choice(["sum", "count", "min", "max", "average", "first", "last"])
                steps.append(window("rows", lo, hi, [derive(item(agg(f, self.colref(fr)), nm))], sugar))
                fr = fr + [(nm, "")]
        return steps

    def program(self, i, n=None, start=None):
        n = n if n is not None else self.r.randint(3, 8)
        x = self.r.random()
        return {"id": f"r{i}", "decl": True, "steps": self.pipeline(n, start or ("t" if x < 0.75 else "u" if x < 0.88 else "l"))}
