----------------------------- MODULE Target -----------------------------
(* C18 - the dialect is chosen by the options, then by the query header, *)
(* then generic.                                                         *)
(*   opt : what the caller passes as Options.target (a dialect, absent = *)
(*         Target::Sql(None) / "sql.any", or a name Target::from_str     *)
(*         does not know)                                                *)
(*   hdr : the `prql target:sql.x` header of the source (a dialect,      *)
(*         absent, "any", or an unknown name)                            *)
EXTENDS Naturals, Sequences, FiniteSets, TLC

Dialects == {"ansi", "bigquery", "clickhouse", "duckdb", "generic", "glaredb", "mssql", "mysql",
             "postgres", "redshift", "sqlite", "snowflake"}
Axis == Dialects \cup {"absent", "any", "unknown"}

\* the dialect a cell must compile for, or "error"
Effective(opt, hdr) ==
  IF opt = "unknown" THEN "error"                       \* an unknown option name is an error by itself
  ELSE IF opt \in Dialects THEN opt                     \* explicit option wins, header not consulted
  ELSE IF hdr \in Dialects THEN hdr                     \* no option: the header decides
  ELSE IF hdr = "unknown" THEN "error"                  \* consulted and unknown
  ELSE "generic"                                        \* neither: generic

\* laws of the table itself (checked by TLC over the whole matrix)
Override == \A o \in Dialects, h \in Axis : Effective(o, h) = o
HeaderUsed == \A o \in {"absent", "any"}, h \in Dialects : Effective(o, h) = h
Fallback == \A o \in {"absent", "any"}, h \in {"absent", "any"} : Effective(o, h) = "generic"
ErrorIffConsultedUnknown ==
  \A o, h \in Axis : (Effective(o, h) = "error") <=> (o = "unknown" \/ (o \in {"absent", "any"} /\ h = "unknown"))
=======================================================================
