---------------------------- MODULE TargetMC ----------------------------
(* The option x header matrix as a state graph: one state per cell.  TLC  *)
(* checks the laws of the decision table and prints every cell with the   *)
(* dialect it must behave as; `pv target` replays the cells.              *)
EXTENDS Target, Json

VARIABLES opt, hdr
Init == opt \in Axis /\ hdr \in Axis
Next == UNCHANGED <<opt, hdr>>
Spec == Init /\ [][Next]_<<opt, hdr>>

Laws == Override /\ HeaderUsed /\ Fallback /\ ErrorIffConsultedUnknown
Emit == PrintT(<<"REPLAY", ToJson([opt |-> opt, hdr |-> hdr, eff |-> Effective(opt, hdr)])>>)
=======================================================================
