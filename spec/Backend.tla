------------------------------ MODULE Backend ------------------------------
(* L2 - the compiler machine of prqlc's SQL back end (src/sql/pq).          *)
(*                                                                          *)
(* Part A  the machine: anchor::split_off_back transcribed action by        *)
(*         action (one Pop per transform scanned from the back, Finish),    *)
(*         with is_split_required, get_requirements, can_materialize and    *)
(*         the Complexity lattice; extract_atomic's limiting projection.    *)
(* Part B  what one SELECT means: the clauses of a SELECT are evaluated in  *)
(*         SQL's logical order (FROM/JOIN, WHERE, GROUP BY, HAVING, window  *)
(*         functions, DISTINCT, ORDER BY, LIMIT), whatever the order of     *)
(*         the transforms in the atomic pipeline it was built from.         *)
(*         AtomicOk(A) says that this order and SQL's nesting rules for     *)
(*         aggregate and window functions give the atomic pipeline A the    *)
(*         meaning of running its transforms one after the other.           *)
(* Part C  how a SELECT is assembled from an atomic pipeline                *)
(*         (gen_query::translate_select_pipeline): ShapeOf(A).              *)
(*                                                                          *)
(* BackendMC runs A on every abstract pipeline of a bounded alphabet and    *)
(* checks B on every atomic pipeline the machine emits; BackendTrace checks *)
(* B and C on what the real compiler did (hook events) and compares the     *)
(* real split with A's.                                                     *)
EXTENDS Integers, Sequences, FiniteSets, TLC

\* TRUE: the machine as repaired in /repo (a sorted take / DISTINCT ON is cut off from a following DISTINCT: findings F97, F98);
\* FALSE: as found (BackendMC_unrepaired.cfg: TLC must find the take | distinct and distinct-on | distinct pipelines)
CONSTANT Repaired

\* ----------------------------------------------------------------------
\* abstract transforms: one record shape for all kinds
\*   k     : "From" "Join" "Compute" "Filter" "Aggregate" "Sort" "Take" "Select"
\*           "Distinct" "DistinctOn" "Union" "Except" "Intersect" "Loop"
\*   sup   : TRUE for an RQ transform still wrapped (Super(..)), FALSE for a PQ node
\*   id    : column id a Compute defines (else -1)
\*   cx    : complexity of a Compute: "plain" "nongroup" "windowed" "aggregation" (else "")
\*   refs  : column ids the transform's expressions mention (in CidCollector order)
\*   wrefs : window partition and sort columns of a Compute
\*   part  : partition (Aggregate, DistinctOn), comp: aggregated column ids (Aggregate)
\*   cols  : Select list / columns a From or Join instance provides / Sort keys
\*   sorted: a Take under a sort in effect (rq::Take.sort non-empty)
\*   side  : join side;  lo, hi : bounds of a Take (-1 = open)
T(k) == [k |-> k, sup |-> TRUE, id |-> -1, cx |-> "", refs |-> <<>>, wrefs |-> <<>>, part |-> <<>>,
         comp |-> <<>>, cols |-> <<>>, sorted |-> FALSE, side |-> "", lo |-> -1, hi |-> -1]

Set(s) == { s[i] : i \in 1 .. Len(s) }
Rev(s) == [i \in 1 .. Len(s) |-> s[Len(s) + 1 - i]]
RECURSIVE Uniq(_)
Uniq(s) == IF s = <<>> THEN <<>>
           ELSE LET h == Uniq(SubSeq(s, 1, Len(s) - 1)) x == s[Len(s)]
                IN IF x \in Set(h) THEN h ELSE Append(h, x)
Filt(s, P(_)) == SelectSeq(s, P)

\* Complexity (anchor.rs): Plain < NonGroup < Windowed < Aggregation
Cx(c) == CASE c = "plain" -> 0 [] c = "nongroup" -> 1 [] c = "windowed" -> 2 [] c = "aggregation" -> 3 [] OTHER -> 0
Lowest == 0
Highest == 3
IsAggCompute(t) == t.k = "Compute" /\ t.cx = "aggregation"

\* ======================================================================
\* Part A - the machine
\* ======================================================================
\* is_split_required: must the pipeline be cut after t, given the kinds that follow in this SELECT?
Meets(S, following) == S \cap following # {}
SplitRequired(t, following) ==
  IF IsAggCompute(t) THEN FALSE
  ELSE CASE t.k = "From"      -> Meets({"From"}, following)
         [] t.k = "Join"      -> Meets({"From"}, following)
         [] t.k = "Aggregate" -> Meets({"From", "Join", "Aggregate", "Compute"}, following)
         [] t.k = "Filter"    -> Meets({"From", "Join"}, following)
         [] t.k = "Compute"   -> IF "Aggregate" \in following THEN Meets({"From", "Join"}, following)
                                 ELSE Meets({"From", "Join", "Filter"}, following)
         [] t.k = "Take"      -> Meets({"From", "Join", "Compute", "Filter", "Aggregate", "Sort"}
                                       \cup (IF Repaired /\ t.sorted THEN {"Distinct"} ELSE {}), following)
         [] t.k = "DistinctOn" -> Meets({"From", "Join", "Compute", "Filter", "Aggregate", "Sort", "Take", "DistinctOn"} \cup (IF Repaired THEN {"Distinct"} ELSE {}), following)
         [] t.k = "Distinct"  -> Meets({"From", "Join", "Compute", "Filter", "Aggregate", "Sort", "Take"}, following)
         [] t.k \in {"Union", "Except", "Intersect"} ->
              Meets({"From", "Join", "Compute", "Filter", "Aggregate", "Sort", "Take", "Distinct"}, following)
         [] t.k = "Loop"      -> following # {}
         [] OTHER -> FALSE
\* the kinds an absorbed transform adds to `following` (an aggregation Compute returns early and adds nothing)
Following(t, following) == IF IsAggCompute(t) THEN following ELSE following \cup {t.k}

\* requirements: sequences of [col, max, sel]
Reqs(cids, max, sel) == [i \in 1 .. Len(cids) |-> [col |-> cids[i], max |-> max, sel |-> sel]]
IsRequired(req, c) == \E i \in 1 .. Len(req) : req[i].col = c
\* least max_complexity any requirement puts on column c (Highest when none)
RECURSIVE MinMax(_, _)
MinMax(req, c) == IF req = <<>> THEN Highest
                  ELSE LET r == MinMax(Tail(req), c)
                       IN IF Head(req).col = c /\ Head(req).max < r THEN Head(req).max ELSE r

GetReq(t, following, prev) ==
  CASE t.k = "Aggregate" /\ t.sup -> Reqs(t.part, Lowest, FALSE)
    [] t.k = "Compute" /\ IsRequired(prev, t.id) ->
         Reqs(t.refs, IF Cx(t.cx) = 0 THEN Highest ELSE Lowest, FALSE) \o Reqs(t.wrefs, Lowest, FALSE)
    [] t.k = "Filter" -> Reqs(t.refs, IF "Aggregate" \notin following THEN Highest ELSE Lowest, FALSE)
    [] t.k = "Sort" /\ t.sup /\ "Aggregate" \notin following -> Reqs(t.cols, Highest, TRUE)
    [] t.k = "Sort" /\ ~t.sup /\ "Aggregate" \notin following -> Reqs(t.cols, Lowest, FALSE)
    [] t.k = "DistinctOn" -> Reqs(t.part, Highest, FALSE)
    [] t.k = "Take" -> Reqs(t.refs, Lowest, FALSE)
    [] t.k = "Join" -> Reqs(t.refs, Lowest, FALSE)
    [] OTHER -> <<>>

\* state of one split_off_back call
\*   rest : pipeline still to scan (the last element is scanned next)
\*   cur  : transforms absorbed so far, in the order scanned (= reversed pipeline order)
S0(pipeline) == [rest |-> pipeline, following |-> {}, req |-> <<>>, avail |-> {}, cur |-> <<>>, stop |-> FALSE]
Start(pipeline, output) == [S0(pipeline) EXCEPT !.req = Reqs(output, Highest, TRUE)]

\* decl : column id -> complexity of the Compute that defines it (ctx.column_decls)
Pop(st, decl) ==
  LET n == Len(st.rest)
      t == st.rest[n]
      rest1 == SubSeq(st.rest, 1, n - 1)
  IN IF SplitRequired(t, st.following) THEN [st EXCEPT !.stop = TRUE]
     ELSE
       LET fol == Following(t, st.following)
           required == GetReq(t, fol, st.req)
           req1 == st.req \o required
           absorbed == [st EXCEPT !.rest = rest1, !.following = fol, !.req = req1,
                                  !.cur = IF t.k = "Select" THEN st.cur ELSE Append(st.cur, t)]
       IN CASE t.k = "Compute" ->
                 LET maxc == MinMax(req1, t.id)
                 IN IF Cx(t.cx) <= maxc
                    THEN [absorbed EXCEPT !.avail = st.avail \cup {t.id},
                                          !.req = req1 \o [i \in 1 .. Len(required) |-> [required[i] EXCEPT !.max = maxc, !.sel = FALSE]]]
                    ELSE [st EXCEPT !.stop = TRUE, !.req = req1]      \* (the code has recorded its requirements by then)
            [] t.k = "Aggregate" /\ t.sup ->
                 IF \E i \in 1 .. Len(t.comp) : t.comp[i] \in DOMAIN decl /\ Cx(decl[t.comp[i]]) > MinMax(req1, t.comp[i])
                 THEN [st EXCEPT !.stop = TRUE, !.req = req1] ELSE absorbed
            [] t.k \in {"From", "Join"} -> [absorbed EXCEPT !.avail = st.avail \cup Set(t.cols)]
            [] OTHER -> absorbed

Done(st) == st.stop \/ st.rest = <<>>

\* what split_off_back returns for a finished scan: the SELECT list, the atomic pipeline, the preceding pipeline
SelectList(st, output) ==
  LET selected == Filt(st.req, LAMBDA r : r.sel) IN Uniq(output \o [i \in 1 .. Len(selected) |-> selected[i].col])
Missing(st) == LET cols == Uniq([i \in 1 .. Len(st.req) |-> st.req[i].col]) IN Filt(cols, LAMBDA c : c \notin st.avail)
Atomic(st, output) == <<[T("Select") EXCEPT !.cols = SelectList(st, output)]>> \o Rev(st.cur)
Preceding(st) == IF st.rest = <<>> THEN <<>> ELSE Append(st.rest, [T("Select") EXCEPT !.cols = Missing(st)])

RECURSIVE Run(_, _)
Run(st, decl) == IF Done(st) THEN st ELSE Run(Pop(st, decl), decl)
\* the whole call
Split(pipeline, output, decl) ==
  LET st == Run(Start(pipeline, output), decl)
  IN [atomic |-> Atomic(st, output), preceding |-> Preceding(st), absorbed |-> Len(st.cur)]

\* preprocess::reorder - Computes bubble in front of Sorts, plain Computes also in front of Takes
ShouldSwap(prev, compute) ==
  CASE prev.k \in {"From", "Join", "Compute"} -> FALSE
    [] prev.k = "Sort" /\ prev.sup -> TRUE
    [] prev.k = "Take" /\ prev.sup -> compute.cx = "plain"
    [] OTHER -> FALSE
RECURSIVE Bubble(_, _)
\* move the Compute at index i towards the front while allowed (index 1 is never passed)
Bubble(p, i) == IF i > 2 /\ ShouldSwap(p[i - 1], p[i])
                THEN Bubble([p EXCEPT ![i - 1] = p[i], ![i] = p[i - 1]], i - 1) ELSE p
RECURSIVE ReorderFrom(_, _)
ReorderFrom(p, i) == IF i > Len(p) THEN p
                     ELSE ReorderFrom(IF p[i].k = "Compute" /\ p[i].sup THEN Bubble(p, i) ELSE p, i + 1)
Reorder(p) == ReorderFrom(p, 2)

\* ======================================================================
\* Part B - the meaning of one SELECT
\* ======================================================================
\* Computes of A by id; the Computes an expression reaches through column references
ComputeAt(A, c) == CHOOSE i \in 1 .. Len(A) : A[i].k = "Compute" /\ A[i].id = c
HasCompute(A, c) == \E i \in 1 .. Len(A) : A[i].k = "Compute" /\ A[i].id = c
RECURSIVE Reach(_, _, _)
Reach(A, cids, seen) ==
  LET new == { c \in cids : HasCompute(A, c) } \ seen
  IN IF new = {} THEN seen
     ELSE Reach(A, UNION { Set(A[ComputeAt(A, c)].refs) \cup Set(A[ComputeAt(A, c)].wrefs) : c \in new }, seen \cup new)
ReachCx(A, cids) == { A[ComputeAt(A, c)].cx : c \in Reach(A, cids, {}) }
\* columns the statement needs: the select list, and what the other clauses mention
\* (an aggregated column nobody selects or mentions is not emitted)
Roots(A) == UNION { IF A[i].k \in {"Compute", "From", "Join"} THEN Set(IF A[i].k = "Join" THEN A[i].refs ELSE <<>>)
                    ELSE Set(A[i].refs) \cup Set(A[i].part) \cup Set(A[i].cols) : i \in 1 .. Len(A) }
Live(A) == Reach(A, Roots(A), {})
AggPos(A) == IF \E i \in 1 .. Len(A) : A[i].k = "Aggregate" THEN CHOOSE i \in 1 .. Len(A) : A[i].k = "Aggregate" ELSE 0

\* SQL's rules for where aggregate and window functions may stand, on the Computes materialised in this SELECT
NestOk(A) ==
  LET ag == AggPos(A) IN
  \A i \in 1 .. Len(A) :
    LET t == A[i] IN
    CASE t.k = "Filter" /\ (ag = 0 \/ i < ag) -> ReachCx(A, Set(t.refs)) \subseteq {"plain", "nongroup"}                 \* WHERE
      [] t.k = "Filter" /\ ag > 0 /\ i > ag  -> "windowed" \notin ReachCx(A, Set(t.refs))                               \* HAVING
      [] t.k = "Join"      -> ReachCx(A, Set(t.refs)) \subseteq {"plain", "nongroup"}                                   \* ON
      [] t.k = "Aggregate" -> ReachCx(A, Set(t.part)) \subseteq {"plain", "nongroup"}                                   \* GROUP BY
      [] t.k = "Compute" /\ t.id \in Live(A) /\ t.cx = "aggregation" ->
           ReachCx(A, Set(t.refs)) \subseteq {"plain", "nongroup"}                                                        \* no aggregate / window inside an aggregate
      [] t.k = "Compute" /\ t.id \in Live(A) /\ t.cx = "windowed" ->
           /\ "windowed" \notin ReachCx(A, Set(t.refs) \cup Set(t.wrefs))                                                 \* no window inside a window
           /\ ("aggregation" \in ReachCx(A, Set(t.refs) \cup Set(t.wrefs)) => ag > 0)
      [] OTHER -> TRUE

\* the clause a transform becomes, as a phase of SQL's logical evaluation order; 0 = no phase of its own
\* (select list, plain and aggregation Computes: evaluated where they are used)
Phase(A, i) ==
  LET t == A[i] ag == AggPos(A) IN
  CASE t.k = "From" -> 1
    [] t.k = "Join" -> 2
    [] t.k = "Filter" -> IF ag = 0 \/ i < ag THEN 3 ELSE 5
    [] t.k = "Aggregate" -> 4
    [] t.k = "Compute" /\ t.cx = "windowed" /\ t.id \in Live(A) -> 6
    [] t.k \in {"Distinct", "DistinctOn"} -> 7
    [] t.k = "Sort" -> 8
    [] t.k = "Take" -> 9
    [] t.k \in {"Union", "Except", "Intersect"} -> 10
    [] OTHER -> 0

\* a pair (i before j in the pipeline) whose clauses SQL evaluates the other way round, or cannot hold twice,
\* and whose order matters for some database
BadPair(A, i, j) ==
  LET a == A[i] b == A[j] pa == Phase(A, i) pb == Phase(A, j) IN
  /\ pa > 0 /\ pb > 0
  /\ \/ pb = 1                                                     \* nothing precedes FROM; one FROM
     \/ pb = 2 /\ \/ pa \in {4, 5, 6, 7, 9, 10}                    \* JOIN after grouping, window, distinct, limit, set operation
                  \/ pa = 3 /\ b.side \in {"Right", "Full"}         \* a filter on the left input does not commute with an outer join that pads it
     \/ pb = 3 /\ \/ pa = 6                                        \* WHERE is evaluated before window functions
                  \/ pa = 9 /\ a.sorted                            \* ... and before LIMIT
                  \/ pa = 7 /\ a.k = "DistinctOn"
                  \/ pa = 10
     \/ pb = 4 /\ pa \in {4, 5, 7, 9, 10}                          \* one GROUP BY; not after distinct, limit, set operation
     \/ pb = 5 /\ pa \in {6, 7, 9, 10}
     \/ pb = 6 /\ pa \in {7, 9, 10}                                \* window functions see the rows before DISTINCT and LIMIT
     \/ pb = 7 /\ \/ pa = 9 /\ a.sorted                            \* DISTINCT is evaluated before LIMIT
                  \/ pa = 10
                  \/ pa = 7 /\ (a.k = "DistinctOn" \/ b.k = "DistinctOn")
     \/ pb = 8 /\ \/ pa = 9 /\ a.sorted                            \* ORDER BY is evaluated before LIMIT
                  \/ pa = 10
     \/ pb = 9 /\ pa = 10
OrderOk(A) == \A i, j \in 1 .. Len(A) : i < j => ~BadPair(A, i, j)
FirstBadPair(A) == IF OrderOk(A) THEN <<0, 0>> ELSE CHOOSE p \in (1 .. Len(A)) \X (1 .. Len(A)) : p[1] < p[2] /\ BadPair(A, p[1], p[2])

AtomicOk(A) == OrderOk(A) /\ NestOk(A)
Verdict(A) == IF ~OrderOk(A) THEN "clause-order" ELSE IF ~NestOk(A) THEN "nesting" ELSE "ok"

\* ======================================================================
\* Part C - the SELECT assembled from a compiled atomic pipeline
\* ======================================================================
\* the window of positions a chain of takes keeps: each take [lo, hi] (-1 = open) counts inside the previous window
RECURSIVE Window(_, _)
Window(takes, w) ==
  IF takes = <<>> THEN w
  ELSE LET t == Head(takes)
           lo == IF t.lo = -1 THEN 1 ELSE t.lo
           nlo == w.lo + lo - 1
           nhi == IF t.hi = -1 THEN w.hi ELSE IF w.hi = -1 \/ w.lo + t.hi - 1 < w.hi THEN w.lo + t.hi - 1 ELSE w.hi
       IN Window(Tail(takes), [lo |-> nlo, hi |-> nhi])
ShapeOf(A) ==
  LET ag == AggPos(A)
      takes == Filt(A, LAMBDA t : t.k = "Take")
      sorts == Filt(A, LAMBDA t : t.k = "Sort")
      w == Window(takes, [lo |-> 1, hi |-> -1])
      empty == w.hi # -1 /\ w.hi < w.lo
  IN [from   |-> Len(Filt(A, LAMBDA t : t.k = "From")),
      joins  |-> LET js == Filt(A, LAMBDA t : t.k = "Join") IN [i \in 1 .. Len(js) |-> js[i].side],
      where  |-> \E i \in 1 .. Len(A) : A[i].k = "Filter" /\ (ag = 0 \/ i < ag),
      having |-> \E i \in 1 .. Len(A) : A[i].k = "Filter" /\ ag > 0 /\ i > ag,
      group  |-> IF ag = 0 THEN 0 ELSE Len(A[ag].part),
      distinct |-> IF \E i \in 1 .. Len(A) : A[i].k = "Distinct" THEN "distinct"
                   ELSE IF \E i \in 1 .. Len(A) : A[i].k = "DistinctOn" THEN "on" ELSE "none",
      order  |-> IF sorts = <<>> THEN 0 ELSE Len(sorts[Len(sorts)].cols),
      offset |-> IF empty THEN 0 ELSE w.lo - 1,
      limit  |-> IF takes = <<>> \/ w.hi = -1 THEN -1 ELSE IF empty THEN 0 ELSE w.hi - w.lo + 1]

\* ======================================================================
\* Part D - preprocess: RQ pipeline -> PQ pipeline (distinct, union, reorder)
\* ======================================================================
\* the frame (column ids, in order) after the first i transforms of an RQ pipeline
RECURSIVE FrameAt(_, _)
FrameAt(p, i) ==
  IF i = 0 THEN <<>>
  ELSE LET t == p[i] prev == FrameAt(p, i - 1) IN
       CASE t.k = "From" -> t.cols
         [] t.k = "Join" -> prev \o t.cols
         [] t.k = "Select" -> t.cols
         [] t.k = "Aggregate" -> t.part \o t.comp
         [] t.k = "Compute" /\ t.cx # "aggregation" -> Append(prev, t.id)
         [] OTHER -> prev
NonCompute(p) == Filt(p, LAMBDA t : t.k # "Compute")
IsGroupTake(t) == t.k = "Take" /\ t.part # <<>>
\* position in p of the n-th non-Compute transform
RECURSIVE NthNC(_, _, _)
NthNC(p, n, i) == IF p[i].k # "Compute" THEN (IF n = 1 THEN i ELSE NthNC(p, n - 1, i + 1)) ELSE NthNC(p, n, i + 1)

\* every column the transforms after position i mention is a partition column of the take at i, or is defined after it
\* (then the rows of a group differ only in columns nobody looks at any more, and DISTINCT over the partition columns
\* is one row per group)
Mentioned(t) == Set(t.refs) \cup Set(t.wrefs) \cup Set(t.part) \cup Set(t.comp)
                \cup (IF t.k \in {"Select", "Sort", "Take"} THEN Set(t.cols) ELSE {})
DeadAfter(p, i) ==
  LET new == { p[j].id : j \in { j \in i + 1 .. Len(p) : p[j].k = "Compute" } }
             \cup UNION { Set(p[j].cols) : j \in { j \in i + 1 .. Len(p) : p[j].k \in {"Join", "Append"} } }
  IN \A j \in i + 1 .. Len(p) : Mentioned(p[j]) \subseteq Set(p[i].part) \cup new

\* what a group-take (rq::Take with a partition) may become, and when
\*   DISTINCT            : the first row of each group of *whole* rows, no order inside the group
\*   DISTINCT ON (part)  : one row per group
\*   ROW_NUMBER + filter : always
GroupTakeVerdict(p, i, o) ==       \* p: RQ pipeline, i: position of the take in p, o: the PQ transforms it became
  LET t == p[i] IN
  IF o[1].k = "Distinct" THEN
       IF ~(t.lo \in {-1, 1} /\ t.hi = 1) THEN "distinct-range"
       ELSE IF t.sorted THEN "distinct-sorted"
       \* only projections follow: the DISTINCT lands in the SELECT of the final projection and de-duplicates THAT list,
       \* which therefore has to be the partition (fewer columns merge groups, more split them)
       ELSE IF (\A j \in i + 1 .. Len(p) : p[j].k = "Select") /\ Set(t.part) # Set(FrameAt(p, Len(p))) THEN "distinct-over-projection"
       ELSE IF Set(t.part) # Set(FrameAt(p, i - 1)) /\ ~DeadAfter(p, i)
            \* (the code compares the partition with the select list at the END of the pipeline: finding F99)
            THEN IF Set(t.part) = Set(FrameAt(p, Len(p))) THEN "distinct-not-whole-row" ELSE "distinct-partition-mismatch"
       ELSE "ok"
  ELSE IF o[1].k = "Sort" /\ ~o[1].sup /\ Len(o) >= 2 /\ o[2].k = "DistinctOn" THEN
       IF t.hi # 1 THEN "distinct-on-range"
       ELSE IF Set(o[2].part) # Set(t.part) THEN "distinct-on-partition"
       ELSE "ok"
  ELSE IF o[1].k = "Filter" THEN "ok"
  ELSE "group-take-lost"

\* walk the non-Compute transforms of the RQ pipeline and of the PQ pipeline side by side
RECURSIVE PreMatch(_, _, _, _)
PreMatch(p, n, inp, out) ==        \* n: how many non-Compute transforms of p have been consumed
  IF inp = <<>> THEN (IF out = <<>> THEN "ok" ELSE "extra-transform")
  ELSE IF out = <<>> THEN "transform-lost"
  ELSE LET a == Head(inp) b == Head(out) IN
    \* set-operation recognition (preprocess::except / intersect): a left join on all columns + a filter "the right side is
    \* null" becomes EXCEPT, an inner join on all columns whose right side is not selected becomes INTERSECT; a
    \* de-duplication next to it makes it DISTINCT and is absorbed
    IF IsGroupTake(a) /\ b.k \in {"Except", "Intersect"} /\ b.sorted THEN PreMatch(p, n + 1, Tail(inp), out)
    ELSE IF b.k = "Except" THEN
         IF ~(a.k = "Join" /\ Len(inp) >= 2 /\ inp[2].k = "Filter") THEN "except-shape"
         \* the filter may only say that the right side is absent: any other condition would be dropped with it
         ELSE IF ~(Set(inp[2].refs) \subseteq Set(a.cols)) THEN "except-drops-condition"
         ELSE PreMatch(p, n + 2, Tail(Tail(inp)), Tail(out))
    ELSE IF b.k = "Intersect" THEN
         IF a.k # "Join" THEN "intersect-shape"
         ELSE LET rest == Tail(inp) IN
              IF b.sorted /\ rest # <<>> /\ IsGroupTake(Head(rest)) /\ (Tail(out) = <<>> \/ Head(Tail(out)).k \notin {"Distinct", "Filter"} \/ (Head(Tail(out)).k = "Filter" /\ Len(rest) >= 2 /\ rest[2].k = "Filter"))
              THEN PreMatch(p, n + 2, Tail(rest), Tail(out))
              ELSE PreMatch(p, n + 1, rest, Tail(out))
    ELSE IF IsGroupTake(a) THEN
         LET v == GroupTakeVerdict(p, NthNC(p, n + 1, 1), out)
             used == IF b.k = "Sort" /\ ~b.sup THEN 2 ELSE 1
         IN IF v # "ok" THEN v ELSE PreMatch(p, n + 1, Tail(inp), SubSeq(out, used + 1, Len(out)))
    ELSE IF a.k = "Append" THEN
         IF b.k # "Union" THEN "append-lost"
         ELSE IF b.sorted     \* (Union.distinct is carried in `sorted`): the de-duplication that follows is absorbed
              THEN IF Len(inp) >= 2 /\ IsGroupTake(inp[2]) THEN PreMatch(p, n + 2, Tail(Tail(inp)), Tail(out)) ELSE "union-distinct-without-distinct"
              ELSE PreMatch(p, n + 1, Tail(inp), Tail(out))
    ELSE IF a.k # b.k THEN "kind-changed"
    ELSE IF a.k = "Take" /\ (a.lo # b.lo \/ a.hi # b.hi) THEN "take-range"
    ELSE IF a.k = "Sort" /\ a.cols # b.cols THEN "sort-keys"
    ELSE IF a.k = "Aggregate" /\ (a.part # b.part \/ a.comp # b.comp) THEN "aggregate"
    ELSE IF a.k = "Select" /\ a.cols # b.cols THEN "select"
    ELSE PreMatch(p, n + 1, Tail(inp), Tail(out))

\* transforms a Compute may not cross: everything except sorts, and takes for a plain Compute
Barrier(t, c) == t.k # "Compute" /\ ~(t.k = "Sort") /\ ~(t.k = "Take" /\ t.part = <<>> /\ c.cx = "plain")
BarriersBefore(p, i) == Cardinality({ j \in 1 .. i - 1 : Barrier(p[j], p[i]) })
PosOf(p, id) == CHOOSE i \in 1 .. Len(p) : p[i].k = "Compute" /\ p[i].id = id
ComputesStay(inp, out) ==
  \/ \E j \in 1 .. Len(out) : out[j].k \in {"Except", "Intersect"} \/ (out[j].k = "Union" /\ out[j].sorted)
  \/ \A i \in 1 .. Len(inp) : inp[i].k = "Compute" =>
        /\ \E j \in 1 .. Len(out) : out[j].k = "Compute" /\ out[j].id = inp[i].id
        /\ BarriersBefore(out, PosOf(out, inp[i].id)) = BarriersBefore(inp, i)
PreVerdict(inp, out) ==
  LET m == PreMatch(inp, 0, NonCompute(inp), NonCompute(out)) IN
  IF m # "ok" THEN m ELSE IF ~ComputesStay(inp, out) THEN "compute-moved" ELSE "ok"
\* the code's own pipeline is a fixpoint of the reorder pass
PreDrift(out) == Reorder(out) # out
=============================================================================
