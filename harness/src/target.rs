//! `pv target`: the option x header matrix (cells emitted by TargetMC) x programs.
use crate::api;
use serde_json::{json, Value as J};
use std::collections::HashMap;
use std::io::Write;
use std::str::FromStr;

/// spellings of an unknown target name: a wrong dialect, a known dialect with trailing components, a missing or
/// wrong prefix, wrong case
pub const UNKNOWN: [&str; 8] = ["sql.foo", "sql.mssql.v2", "sql.any.thing", "sql.postgres.v14", "foo", "mssql", "sqlx.mssql", "sql.MsSql "];

fn header(h: &str, unk: &str) -> String {
    match h {
        "absent" => String::new(),
        "any" => "prql target:sql.any\n\n".to_string(),
        "unknown" => format!("prql target:{}\n\n", unk.trim()),
        d => format!("prql target:sql.{d}\n\n"),
    }
}

/// the dialect value itself, not parsed from a string: the reference every other way of naming the dialect is held to
fn dialect_value(d: &str) -> prqlc::sql::Dialect {
    use prqlc::sql::Dialect::*;
    match d {
        "ansi" => Ansi, "bigquery" => BigQuery, "clickhouse" => ClickHouse, "duckdb" => DuckDb, "generic" => Generic,
        "glaredb" => GlareDb, "mssql" => MsSql, "mysql" => MySql, "postgres" => Postgres, "redshift" => Redshift,
        "sqlite" => SQLite, "snowflake" => Snowflake,
        _ => Generic,
    }
}

/// outcome of one compile: (id, stage, rq-verdict)
fn run(src: &str, opt: &str, ids: &mut HashMap<String, i64>, unk: &str) -> (i64, String, String) {
    run_with(src, opt, ids, false, unk)
}

fn run_with(src: &str, opt: &str, ids: &mut HashMap<String, i64>, canonical: bool, unk: &str) -> (i64, String, String) {
    // the option axis goes through Target::from_str, as every binding does; the canonical cell of a dialect is
    // compiled with the Dialect value constructed directly
    if canonical {
        let target = prqlc::Target::Sql(Some(dialect_value(opt)));
        return compile_with(src, target, ids);
    }
    let name = match opt {
        "absent" => None,
        "any" => Some("sql.any".to_string()),
        "unknown" => Some(unk.trim().to_string()),
        d => Some(format!("sql.{d}")),
    };
    let target = match name {
        None => prqlc::Target::Sql(None),
        Some(n) => match prqlc::Target::from_str(&n) {
            Ok(t) => t,
            Err(_) => return (0, "target".into(), "".into()),
        },
    };
    compile_with(src, target, ids)
}

fn compile_with(src: &str, target: prqlc::Target, ids: &mut HashMap<String, i64>) -> (i64, String, String) {
    let rq = match api::guarded(|| prqlc::prql_to_pl(src).and_then(prqlc::pl_to_rq)) {
        api::Outcome::Ok(_) => "ok".to_string(),
        api::Outcome::Err(_) => "err".to_string(),
        api::Outcome::Panic { .. } => "panic".to_string(),
    };
    let o = prqlc::Options::default().no_format().no_signature().with_target(target);
    match api::guarded(|| prqlc::compile(src, &o)) {
        api::Outcome::Ok(sql) => {
            let n = ids.len() as i64 + 1;
            (*ids.entry(sql).or_insert(n), "sql".into(), rq)
        }
        api::Outcome::Err(e) => {
            let r = e.inner.first().map(|m| m.reason.clone()).unwrap_or_default();
            // an unknown target in the header is reported by the SQL backend when it consults it
            let stage = if r.contains("target") && r.contains("not found") { "target" } else { "compile" };
            (0, stage.into(), rq)
        }
        api::Outcome::Panic { .. } => (-2, "panic".into(), rq),
    }
}

fn run_main_path(src: &str, opt: &str, ids: &mut HashMap<String, i64>, unk: &str) -> Option<(i64, String)> {
    let name = match opt {
        "absent" => None,
        "any" => Some("sql.any".to_string()),
        "unknown" => Some(unk.trim().to_string()),
        d => Some(format!("sql.{d}")),
    };
    let target = match name {
        None => prqlc::Target::Sql(None),
        Some(n) => prqlc::Target::from_str(&n).ok()?,
    };
    let o = prqlc::Options::default().no_format().no_signature().with_target(target);
    let r = api::guarded(|| {
        prqlc::prql_to_pl(src)
            .and_then(|pl| prqlc::pl_to_rq_tree(pl, &["main".to_string()], &["default_db".to_string()]))
            .and_then(|rq| prqlc::rq_to_sql(rq, &o))
    });
    match r {
        api::Outcome::Ok(sql) => {
            let n = ids.len() as i64 + 1;
            Some((*ids.entry(sql).or_insert(n), "sql".into()))
        }
        _ => None,
    }
}

/// args: <cells.ndjson> <programs.json: ["prql text", ...]> <out.ndjson>
pub fn main(args: &[String]) -> i32 {
    let cells: Vec<J> = std::fs::read_to_string(&args[0]).expect("cells").lines().filter(|l| !l.trim().is_empty())
        .map(|l| serde_json::from_str(l).expect("cell json")).collect();
    let progs: Vec<String> = serde_json::from_str(&std::fs::read_to_string(&args[1]).expect("programs")).expect("json");
    let mut out = std::io::BufWriter::new(std::fs::File::create(&args[2]).expect("out"));
    for (pi, p) in progs.iter().enumerate() {
        let mut ids: HashMap<String, i64> = HashMap::new();
        writeln!(out, "{}", json!({"event":"Program","prog":pi,"src":p})).unwrap();
        for d in api::DIALECTS {
            let (id, stage, rq) = run_with(p, d, &mut ids, true, "");
            writeln!(out, "{}", json!({"event":"Canon","prog":pi,"dialect":d,"outcome":id,"stage":stage,"rq":rq})).unwrap();
        }
        for c in &cells {
            let opt = c["opt"].as_str().unwrap_or("absent");
            let hdr = c["hdr"].as_str().unwrap_or("absent");
            // a cell with an unknown name is run once per spelling of an unknown name: each must behave as the cell demands
            let spellings: Vec<&str> = if opt == "unknown" || hdr == "unknown" { UNKNOWN.to_vec() } else { vec![""] };
            for unk in spellings {
                let src = format!("{}{}", header(hdr, unk), p);
                let (id, stage, rq) = run(&src, opt, &mut ids, unk);
                writeln!(out, "{}", json!({"event":"Cell","prog":pi,"opt":opt,"hdr":hdr,"outcome":id,"stage":stage,"rq":rq,"spelling":unk})).unwrap();
                // the same cell through the staged API with the main pipeline named explicitly (what `prqlc compile
                // <file> - main` and the bindings' project entry points do): the header must count there as well
                if stage == "sql" {
                    if let Some((id2, stage2)) = run_main_path(&src, opt, &mut ids, unk) {
                        writeln!(out, "{}", json!({"event":"Cell","prog":pi,"opt":opt,"hdr":hdr,"outcome":id2,"stage":stage2,"rq":rq,"spelling":unk,"route":"main-path"})).unwrap();
                    }
                }
            }
        }
    }
    writeln!(out, "{}", json!({"event":"End"})).unwrap();
    0
}
