------------------------------ MODULE Purity ------------------------------
(* C11 - compilation is a pure function of sources and options, whatever    *)
(* else happens in the process.  The process-global state a compile touches *)
(* is                                                                       *)
(*   log  : CURRENT_LOG, an optional debug log behind a read/write lock,    *)
(*          with a suppress counter and a list of entries                   *)
(*   std  : the STD once-cell holding the resolved SQL operator library     *)
(* Every critical section of debug/log.rs is one atomic action here (the    *)
(* code holds the write lock for its whole duration).  A compile never      *)
(* READS the log, so its result is F[input]; what can go wrong is a panic   *)
(* inside a critical section, which poisons the lock for every thread.      *)
EXTENDS Integers, Sequences, FiniteSets, TLC

NoLog == [present |-> FALSE, suppress |-> 0, entries |-> 0]

\* ---- the critical sections, as functions on the log (post-state), and their panics ----
\* log_start: asserts that no log is present
StartPanics(log) == log.present
Start(log) == [present |-> TRUE, suppress |-> 0, entries |-> 0]
\* log_finish: takes the log
Finish(log) == NoLog
\* log_entry: pushes unless suppressed / absent
Entry(log) == IF log.present /\ log.suppress = 0 THEN [log EXCEPT !.entries = @ + 1] ELSE log
\* log_suppress: a guard exists only when a log is present
AcquireGivesGuard(log) == log.present
Acquire(log) == IF log.present THEN [log EXCEPT !.suppress = @ + 1] ELSE log
\* drop of a guard: decrements the CURRENT log's counter - which may be another log than the one the
\* guard was taken under - saturating at zero
Release(log) == IF log.present /\ log.suppress > 0 THEN [log EXCEPT !.suppress = @ - 1] ELSE log
\* (before the repair of F8 the decrement was unconditional: with suppress = 0 it underflowed and panicked
\* while holding the lock)
ReleasePanicsUnrepaired(log) == log.present /\ log.suppress = 0
=======================================================================
