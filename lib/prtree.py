"""Projection of a PR expression (JSON of prqlc_parser::parser::pr::Expr) to the tree shape of
spec/Expr.tla: {"t":"bin","op","l","r"} | {"t":"un","op","e"} | {"t":"col","name"} | {"t":"lit","tok"}."""
BIN = {"Mul": "*", "DivInt": "//", "DivFloat": "/", "Mod": "%", "Pow": "**", "Add": "+", "Sub": "-", "Eq": "==", "Ne": "!=",
       "Gt": ">", "Lt": "<", "Gte": ">=", "Lte": "<=", "RegexSearch": "~=", "And": "&&", "Or": "||", "Coalesce": "??"}
UN = {"Neg": "-", "Add": "+", "Not": "!", "EqSelf": "=="}

def tree(e):
    if "Binary" in e:
        b = e["Binary"]
        return {"t": "bin", "op": BIN.get(b["op"], b["op"]), "l": tree(b["left"]), "r": tree(b["right"])}
    if "Unary" in e:
        u = e["Unary"]
        return {"t": "un", "op": UN.get(u["op"], u["op"]), "e": tree(u["expr"])}
    if "Ident" in e:
        return {"t": "col", "name": ".".join(e["Ident"])}
    if "Literal" in e:
        l = e["Literal"]
        if l == "Null":
            return {"t": "lit", "tok": "null"}
        (k, v), = l.items()
        if k == "Boolean":
            return {"t": "lit", "tok": "true" if v else "false"}
        if k == "Integer":
            return {"t": "lit", "tok": str(v)}
        if k == "Float":
            return {"t": "lit", "tok": repr(v)}
        return {"t": "lit", "tok": f"{k}:{v}"}
    return {"t": "other", "tok": next(iter(e.keys()))}

def select_item(pl, alias="v"):
    """the expression of the item `alias` of the first select tuple of the main pipeline"""
    for st in pl["stmts"]:
        vd = st.get("VarDef")
        if not vd or vd.get("name") != "main":
            continue
        val = vd["value"]
        exprs = val["Pipeline"]["exprs"] if "Pipeline" in val else [val]
        for ex in exprs:
            fc = ex.get("FuncCall")
            if fc and fc["name"].get("Ident") == ["select"]:
                tup = fc["args"][0]
                items = tup["Tuple"] if "Tuple" in tup else [tup]
                for it in items:
                    if it.get("alias") == alias:
                        return it
    return None
