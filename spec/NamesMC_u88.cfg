SPECIFICATION Spec
CONSTANTS
  RepairedN88 = FALSE
  RepairedN115 = TRUE
  MaxDecls = 3
  MaxInsts = 2
INVARIANT NamesOk
CHECK_DEADLOCK FALSE
