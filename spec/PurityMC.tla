----------------------------- MODULE PurityMC -----------------------------
(* All interleavings of NC compiling threads (each compiles NI inputs) and  *)
(* one debugging thread that starts and finishes debug logs.  One compile   *)
(* is the sequence of critical sections the code takes:                     *)
(*   entry (parse) ; acquire (load std.prql) ; entry* (suppressed) ;        *)
(*   release ; entry (resolve) ; [first use of the SQL std: acquire ;       *)
(*   entry ; release] ; entry (sql) ; return F[input]                       *)
EXTENDS Purity
CONSTANTS NC, NI, Repaired
Compilers == 1 .. NC
Dbg == 0
VARIABLES log, poisoned, std, pc, guards, done, out, inp, dpc
vars == <<log, poisoned, std, pc, guards, done, out, inp, dpc>>

F(i) == 100 + i       \* the (uninterpreted) result of compiling input i
Init == /\ log = NoLog /\ poisoned = FALSE /\ std = "uninit"
        /\ pc = [t \in Compilers |-> "parse"] /\ guards = [t \in Compilers |-> 0]
        /\ done = [t \in Compilers |-> 0] /\ out = [t \in Compilers |-> <<>>] /\ inp = [t \in Compilers |-> 1]
        /\ dpc = "idle"

\* a thread that meets a poisoned lock panics (`.write().unwrap()`): modelled as pc = "dead"
Step(t, from, to, f(_)) ==
  /\ pc[t] = from
  /\ IF poisoned THEN pc' = [pc EXCEPT ![t] = "dead"] /\ UNCHANGED log
     ELSE pc' = [pc EXCEPT ![t] = to] /\ log' = f(log)
  /\ UNCHANGED <<poisoned, std, done, out, inp, dpc>>

Parse(t)    == Step(t, "parse", "acq1", Entry) /\ UNCHANGED guards
Acq1(t)     == /\ pc[t] = "acq1"
               /\ IF poisoned THEN pc' = [pc EXCEPT ![t] = "dead"] /\ UNCHANGED <<log, guards>>
                  ELSE /\ pc' = [pc EXCEPT ![t] = "in1"] /\ log' = Acquire(log)
                       /\ guards' = [guards EXCEPT ![t] = IF AcquireGivesGuard(log) THEN 1 ELSE 0]
               /\ UNCHANGED <<poisoned, std, done, out, inp, dpc>>
In1(t)      == Step(t, "in1", "rel1", Entry) /\ UNCHANGED guards
Rel(t, from, to) ==
  /\ pc[t] = from
  /\ IF guards[t] = 0 THEN pc' = [pc EXCEPT ![t] = to] /\ UNCHANGED <<log, poisoned>>
     ELSE IF poisoned THEN pc' = [pc EXCEPT ![t] = "dead"] /\ UNCHANGED <<log, poisoned>>
     ELSE IF ~Repaired /\ ReleasePanicsUnrepaired(log)
            THEN pc' = [pc EXCEPT ![t] = "dead"] /\ poisoned' = TRUE /\ UNCHANGED log     \* panic under the lock
     ELSE pc' = [pc EXCEPT ![t] = to] /\ log' = Release(log) /\ UNCHANGED poisoned
  /\ guards' = [guards EXCEPT ![t] = 0]
  /\ UNCHANGED <<std, done, out, inp, dpc>>
Rel1(t)     == Rel(t, "rel1", "resolve")
Resolve(t)  == Step(t, "resolve", "std", Entry) /\ UNCHANGED guards
\* the once-cell: the first thread to arrive runs the initialiser (under a suppress guard), others wait
StdBegin(t) == /\ pc[t] = "std" /\ std = "uninit" /\ std' = "running"
               /\ IF poisoned THEN pc' = [pc EXCEPT ![t] = "dead"] /\ UNCHANGED <<log, guards>>
                  ELSE /\ pc' = [pc EXCEPT ![t] = "stdin"] /\ log' = Acquire(log)
                       /\ guards' = [guards EXCEPT ![t] = IF AcquireGivesGuard(log) THEN 1 ELSE 0]
               /\ UNCHANGED <<poisoned, done, out, inp, dpc>>
StdIn(t)    == Step(t, "stdin", "stdrel", Entry) /\ UNCHANGED guards
StdRel(t)   == Rel(t, "stdrel", "stdend")
StdEnd(t)   == pc[t] = "stdend" /\ std' = "ready" /\ pc' = [pc EXCEPT ![t] = "sql"] /\ UNCHANGED <<log, poisoned, guards, done, out, inp, dpc>>
StdReady(t) == pc[t] = "std" /\ std = "ready" /\ pc' = [pc EXCEPT ![t] = "sql"] /\ UNCHANGED <<log, poisoned, std, guards, done, out, inp, dpc>>
Sql(t)      == Step(t, "sql", "ret", Entry) /\ UNCHANGED guards
Ret(t)      == /\ pc[t] = "ret"
               /\ out' = [out EXCEPT ![t] = Append(@, F(inp[t]))] /\ done' = [done EXCEPT ![t] = @ + 1]
               /\ IF done[t] + 1 < NI THEN pc' = [pc EXCEPT ![t] = "parse"] /\ inp' = [inp EXCEPT ![t] = @ + 1]
                  ELSE pc' = [pc EXCEPT ![t] = "end"] /\ UNCHANGED inp
               /\ UNCHANGED <<log, poisoned, std, guards, dpc>>

\* the debugging thread: log_start ; log_finish ; ... (well-behaved: never two starts in a row)
DStart  == dpc = "idle" /\ ~poisoned /\ ~StartPanics(log) /\ log' = Start(log) /\ dpc' = "started"
           /\ UNCHANGED <<poisoned, std, pc, guards, done, out, inp>>
DFinish == dpc = "started" /\ ~poisoned /\ log' = Finish(log) /\ dpc' = "idle"
           /\ UNCHANGED <<poisoned, std, pc, guards, done, out, inp>>

Next == \/ DStart \/ DFinish
        \/ \E t \in Compilers : Parse(t) \/ Acq1(t) \/ In1(t) \/ Rel1(t) \/ Resolve(t) \/ StdBegin(t) \/ StdIn(t)
                                \/ StdRel(t) \/ StdEnd(t) \/ StdReady(t) \/ Sql(t) \/ Ret(t)
Spec == Init /\ [][Next]_vars

\* ---- properties ----
NoPanic == ~poisoned /\ \A t \in Compilers : pc[t] # "dead"
Pure == \A t \in Compilers : \A k \in 1 .. Len(out[t]) : out[t][k] = F(k)
CounterSane == log.suppress >= 0 /\ log.suppress <= NC
\* the once-cell initialiser runs at most once
OnceOnly == Cardinality({ t \in Compilers : pc[t] \in {"stdin", "stdrel", "stdend"} }) <= 1
=======================================================================
