----------------------------- MODULE Lexer -----------------------------
(* C17 - tokens tile the source and re-lex to themselves.               *)
(* A source is a sequence of characters; character i has a byte width   *)
(* w[i] in 1..4 and a flag ws[i] (inline whitespace: space or tab).     *)
(* Token spans are BYTE offsets into the UTF-8 source.  The monitor     *)
(* walks the token stream the lexer returned, carrying `pos`, the end   *)
(* of the previous token.                                               *)
EXTENDS Integers, Sequences, FiniteSets, TLC

RECURSIVE PrefixSums(_, _)
\* <<0, w1, w1+w2, ...>> : the character boundaries, as byte offsets
PrefixSums(w, acc) == IF w = <<>> THEN << acc >> ELSE << acc >> \o PrefixSums(Tail(w), acc + Head(w))

Boundary(ps, p) == \E i \in 1 .. Len(ps) : ps[i] = p
ByteLen(ps) == ps[Len(ps)]

\* every character starting in [from, to) is inline whitespace
GapIsBlank(ps, ws, from, to) ==
  \A i \in 1 .. Len(ws) : (ps[i] >= from /\ ps[i] < to) => ws[i]

\* one step of the monitor: may token t follow a stream that ended at pos?
SpanOk(ps, ws, t, pos, isFirst) ==
  /\ pos <= t.s /\ t.s <= t.e /\ t.e <= ByteLen(ps)        \* ordered, inside, no overlap
  /\ Boundary(ps, t.s) /\ Boundary(ps, t.e)                \* on character boundaries
  /\ GapIsBlank(ps, ws, pos, t.s)                          \* only inline whitespace between tokens
  /\ IF t.start THEN isFirst /\ t.s = 0 /\ t.e = 0         \* the synthetic Start token
     ELSE t.e > t.s                                        \* a real token covers text
\* its slice, lexed in isolation, is that same token
RelexOk(t) == t.start \/ (t.rn = 1 /\ t.rk = t.k)
TokenOk(ps, ws, t, pos, isFirst) == SpanOk(ps, ws, t, pos, isFirst) /\ RelexOk(t)

\* index of the first token the monitor cannot take (0 = none), for reports
RECURSIVE FirstBad(_, _, _, _, _, _)
FirstBad(ps, ws, toks, pos, isFirst, i) ==
  IF toks = <<>> THEN 0
  ELSE IF ~TokenOk(ps, ws, Head(toks), pos, isFirst) THEN i
  ELSE FirstBad(ps, ws, Tail(toks), Head(toks).e, FALSE, i + 1)

RECURSIVE Tiles(_, _, _, _, _)
Tiles(ps, ws, toks, pos, isFirst) ==
  IF toks = <<>> THEN GapIsBlank(ps, ws, pos, ByteLen(ps))     \* nothing but blanks after the last token
  ELSE /\ TokenOk(ps, ws, Head(toks), pos, isFirst)
       /\ Tiles(ps, ws, Tail(toks), Head(toks).e, FALSE)

\* what an accepted source must look like
AcceptOk(w, ws, toks) ==
  /\ toks # <<>> /\ toks[1].start
  /\ \A i \in 2 .. Len(toks) : ~toks[i].start
  /\ Tiles(PrefixSums(w, 0), ws, toks, 0, TRUE)

\* what a rejected source must look like: at least one error (and the API
\* returned no token stream - it returns Err)
RejectOk(nerr) == nerr >= 1
=======================================================================
