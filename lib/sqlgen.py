"""Random SQL statements over t(k,a,b), u(k,a,c) with and without planted scope defects, used to calibrate the scope
monitor (spec/SqlScope.tla) against SQLite: for every statement the monitor's verdict (accept / reject) must be
SQLite's (prepare ok / binding error).  The generator only proposes text; it does not judge."""
import random

SCHEMA = {"t": ["k", "a", "b"], "u": ["k", "a", "c"]}

class Gen:
    def __init__(self, seed):
        self.r = random.Random(seed)
        self.n = 0

    def fresh(self, p):
        self.n += 1
        return f"{p}{self.n}"

    def rel(self, ctes, depth, force=None):
        """-> (sql text of the FROM item without alias, column list)"""
        r = self.r
        x = r.random()
        if force:
            return force, list(ctes[force]), force
        if ctes and x < 0.4:
            n = r.choice(sorted(ctes))
            return n, list(ctes[n]), n
        if depth > 0 and x < 0.6:
            q, cols = self.select(ctes, depth - 1)
            return f"({q})", cols, None
        t = r.choice(["t", "u"])
        return t, list(SCHEMA[t]), t

    def select(self, ctes, depth, order=True, force=None):
        r = self.r
        items = []
        txt, cols, name = self.rel(ctes, depth, force)
        al = name if (name and r.random() < 0.5) else self.fresh("x")
        items.append((al, cols))
        frm = txt if al == name else f"{txt} AS {al}"
        if r.random() < 0.5:
            txt2, cols2, name2 = self.rel(ctes, depth)
            al2 = name2 if (name2 and name2 != al and r.random() < 0.5) else self.fresh("y")
            shared = [c for c in cols if c in cols2 and c]
            on = f"{al}.{r.choice(shared)} = {al2}.{shared[0]}" if shared else "1 = 1"
            frm += f" {r.choice(['INNER', 'LEFT OUTER'])} JOIN {txt2 if al2 == name2 else txt2 + ' AS ' + al2} ON {on}"
            items.append((al2, cols2))
        allc = [(a, c) for a, cs in items for c in cs if c]
        if not allc:
            self.skip = True          # the statement no longer reads its CTE chain: SQLite would not bind it
            al = self.fresh("x"); items = [(al, list(SCHEMA["t"]))]; frm = f"t AS {al}"
            allc = [(al, c) for c in SCHEMA["t"]]
        cnt = {}
        for a, c in allc:
            cnt[c] = cnt.get(c, 0) + 1
        def ref(a, c):
            return c if cnt[c] == 1 and r.random() < 0.5 else f"{a}.{c}"
        proj, out = [], []
        x = r.random()
        if x < 0.15:
            proj.append("*"); out = [c for a, c in allc]
        elif x < 0.3:
            a0, cs0 = r.choice(items)
            proj.append(f"{a0}.*"); out = [c for c in cs0]
        k = r.randint(0 if proj else 1, 3)
        for a, c in r.sample(allc, min(k, len(allc))):
            if r.random() < 0.35:
                n = self.fresh("c")
                proj.append(f"{ref(a, c)} + 1 AS {n}"); out.append(n)
            elif r.random() < 0.3:
                n = self.fresh("c")
                proj.append(f"{ref(a, c)} AS {n}"); out.append(n)
            else:
                proj.append(ref(a, c)); out.append(c)
        sql = f"SELECT {', '.join(proj)} FROM {frm}"
        if r.random() < 0.5:
            a, c = r.choice(allc)
            sql += f" WHERE {ref(a, c)} > 0"
        if order and r.random() < 0.4:
            a, c = r.choice(allc)
            sql += f" ORDER BY {ref(a, c)}"
        # names SQLite would see more than once are not referenced later by name
        seen = {}
        for c in out:
            seen[c] = seen.get(c, 0) + 1
        if any(v > 1 for v in seen.values()):
            self.skip = True          # duplicate column names: engines differ in how later references resolve
        out = [c if seen[c] == 1 else "" for c in out]
        return sql, out

    def query(self, depth=2):
        r = self.r
        self.skip = False
        ctes, parts = {}, []
        last = None
        for _ in range(r.choice([0, 1, 1, 2])):
            # every CTE is used (SQLite does not bind an unused one): each one reads the previous, the body the last
            q, cols = self.select(ctes, depth - 1, force=last)
            n = self.fresh("table_")
            parts.append(f"{n} AS ({q})"); ctes[n] = cols; last = n
        body, cols = self.select(ctes, depth, force=last)
        if r.random() < 0.2 and not last:
            # a set operation with operands of equal arity
            b1, c1 = self.select(ctes, 0, order=False)
            k = len(c1)
            t2 = r.choice(["t", "u"])
            body = f"{b1} UNION ALL SELECT {', '.join(r.choice(SCHEMA[t2]) for _ in range(k))} FROM {t2}"
        return ("WITH " + ", ".join(parts) + " " if parts else "") + body

    def mutate(self, sql):
        """plant one scope defect (textually); returns (sql, kind) or None"""
        import re
        r = self.r
        kinds = ["alias", "column", "table", "arity"]
        r.shuffle(kinds)
        for kd in kinds:
            if kd == "alias":
                m = list(re.finditer(r"\b([xy]\d+|table_\d+|t|u)\.(\w+)\b", sql))
                if m:
                    x = r.choice(m)
                    return sql[:x.start(1)] + "zz9" + sql[x.end(1):], kd
            if kd == "column":
                m = list(re.finditer(r"\b([xy]\d+|t|u)\.([kabc])\b", sql))
                if m:
                    x = r.choice(m)
                    return sql[:x.start(2)] + "nocol" + sql[x.end(2):], kd
            if kd == "table":
                m = list(re.finditer(r"(FROM|JOIN) (t|u)\b", sql))
                if m:
                    x = r.choice(m)
                    return sql[:x.start(2)] + "table_99" + sql[x.end(2):], kd
            if kd == "arity" and " UNION ALL SELECT " in sql:
                i = sql.index(" UNION ALL SELECT ") + len(" UNION ALL SELECT ")
                return sql[:i] + "k, " + sql[i:], kd
        return None
