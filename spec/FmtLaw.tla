----------------------------- MODULE FmtLaw -----------------------------
(* C14 - formatting preserves the program and is idempotent, as a        *)
(* commuting diagram over three artefact kinds:                          *)
(*    ast  : the syntax tree modulo positions and comments               *)
(*    text : the formatter's output                                      *)
(*    sql  : what the program compiles to                                *)
(* parse(src) and parse(format(parse(src))) must be the same ast;        *)
(* format of both trees the same text; compile of source and of          *)
(* formatted text the same sql (or the same error).  The formatter and   *)
(* the parser must succeed on a tree / text that came from a source that *)
(* parses.                                                               *)
EXTENDS Integers, Sequences, TLC

Nodes == {"ast", "text", "sql"}
Dst == [parse |-> "ast", format |-> "text", reparse |-> "ast", reformat |-> "text",
        compile |-> "sql", compile_formatted |-> "sql"]
Unset == -1
V0 == [n \in Nodes |-> Unset]

ApplyOk(val, f, dst, id, ok) ==
  /\ f \in DOMAIN Dst /\ dst = Dst[f]
  /\ ok                               \* format / reparse of a program that parsed must not fail
  /\ val[dst] \in {Unset, id}         \* the diagram commutes
=======================================================================
