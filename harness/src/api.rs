//! Calls into the public API of the prqlc built from /repo, with panics
//! turned into data.
use serde_json::{json, Value as J};
use std::panic::{catch_unwind, AssertUnwindSafe};
use std::str::FromStr;

thread_local! {
    // per thread: the hook runs on the panicking thread, and `guarded` reads it back on that same thread
    // (a process-wide slot let concurrent panics of other threads take each other's message)
    pub static LAST_PANIC: std::cell::RefCell<Option<(String, String, u32)>> = const { std::cell::RefCell::new(None) };
}

pub fn install_panic_hook() {
    std::panic::set_hook(Box::new(|info| {
        let msg = if let Some(s) = info.payload().downcast_ref::<&str>() {
            s.to_string()
        } else if let Some(s) = info.payload().downcast_ref::<String>() {
            s.clone()
        } else {
            "<non-string panic>".to_string()
        };
        let (file, line) = info
            .location()
            .map(|l| (l.file().to_string(), l.line()))
            .unwrap_or_default();
        LAST_PANIC.with(|g| *g.borrow_mut() = Some((msg, file, line)));
    }));
}

pub enum Outcome<T> {
    Ok(T),
    Err(prqlc::ErrorMessages),
    Panic { msg: String, file: String, line: u32 },
}

pub fn guarded<T>(f: impl FnOnce() -> Result<T, prqlc::ErrorMessages>) -> Outcome<T> {
    match catch_unwind(AssertUnwindSafe(f)) {
        Ok(Ok(v)) => Outcome::Ok(v),
        Ok(Err(e)) => Outcome::Err(e),
        Err(_) => {
            let (msg, file, line) = LAST_PANIC.with(|g| g.borrow_mut().take()).unwrap_or_default();
            // make the path stable across checkouts
            let file = file
                .rsplit_once("prqlc/prqlc/src/")
                .map(|(_, f)| f.to_string())
                .or_else(|| file.rsplit_once("prqlc/prqlc-parser/src/").map(|(_, f)| format!("parser:{f}")))
                .unwrap_or(file);
            Outcome::Panic { msg, file, line }
        }
    }
}

pub const DIALECTS: [&str; 12] = [
    "ansi", "bigquery", "clickhouse", "duckdb", "generic", "glaredb", "mssql", "mysql", "postgres",
    "redshift", "sqlite", "snowflake",
];

pub fn options(dialect: Option<&str>) -> prqlc::Options {
    let t = match dialect {
        None => prqlc::Target::Sql(None),
        Some(d) => prqlc::Target::Sql(Some(prqlc::sql::Dialect::from_str(d).expect("dialect"))),
    };
    prqlc::Options::default()
        .no_format()
        .no_signature()
        .with_target(t)
        .with_display(prqlc::DisplayOptions::Plain)
}

/// the default options of the library but for the signature comment: the statement is pretty-printed (format = true)
pub fn compile_formatted(src: &str, dialect: Option<&str>) -> Outcome<String> {
    let t = match dialect {
        None => prqlc::Target::Sql(None),
        Some(d) => prqlc::Target::Sql(Some(prqlc::sql::Dialect::from_str(d).expect("dialect"))),
    };
    let o = prqlc::Options::default().no_signature().with_target(t).with_display(prqlc::DisplayOptions::Plain);
    guarded(|| prqlc::compile(src, &o))
}

pub fn compile(src: &str, dialect: Option<&str>) -> Outcome<String> {
    let o = options(dialect);
    guarded(|| prqlc::compile(src, &o))
}

pub fn err_json(e: &prqlc::ErrorMessages) -> J {
    json!(e
        .inner
        .iter()
        .map(|m| json!({
            "reason": m.reason,
            "code": m.code,
            "hints": m.hints,
            "span": m.span.map(|s| json!([s.start, s.end, s.source_id])),
            "location": m.location.as_ref().map(|l| json!([[l.start.0, l.start.1],[l.end.0, l.end.1]])),
            "display": m.display,
        }))
        .collect::<Vec<_>>())
}

/// names of the columns the resolver declares for the main relation
pub fn rq_columns(src: &str) -> Option<Vec<String>> {
    let r = guarded(|| prqlc::prql_to_pl(src).and_then(prqlc::pl_to_rq));
    match r {
        Outcome::Ok(rq) => Some(
            rq.relation
                .columns
                .iter()
                .map(|c| match c {
                    prqlc::ir::rq::RelationColumn::Single(Some(n)) => n.clone(),
                    prqlc::ir::rq::RelationColumn::Single(None) => String::new(),
                    prqlc::ir::rq::RelationColumn::Wildcard => "*".to_string(),
                })
                .collect(),
        ),
        _ => None,
    }
}
