SPECIFICATION Spec
INVARIANT Progress
INVARIANT Emit
CHECK_DEADLOCK FALSE
