------------------------------- MODULE SortMC -------------------------------
(* Bounded model of sort inference: every compiled query of up to MaxCtes  *)
(* CTEs and a main relation, with at most MaxSteps transforms in all, over  *)
(* the alphabet sort / take (with or without the sort the lowering embeds)  *)
(* / aggregate / DISTINCT / DISTINCT ON (with or without inner sort) / join *)
(* (of a table or of an earlier CTE; inner, left, right) / filter / union,  *)
(* each relation reading a table or an earlier CTE, each CTE selecting all  *)
(* of its columns or only the first.  Relation instances rename columns as  *)
(* the anchor does (instance x of a CTE sees its i-th column as x*10+i), so *)
(* the redirects are real.  The Machine of SortInfer.tla post-processes     *)
(* the query; the invariant is that the result satisfies the Verdict        *)
(* against the Meaning of the query it was made from.                       *)
EXTENDS SortInfer

CONSTANTS MaxCtes, MaxSteps,
          AllowF42   \* TRUE: also main relations in which a take carries a sort whose stand-alone Sort the flattener dropped
                     \* (known finding F42: the empty Sort pushed at the end of the main relation hides the take's sort)

VARIABLES phase, ctes, cur, vis, usort, nstep, nriid, R0, insts, verdict, ph, hid, hidTake
vars == <<phase, ctes, cur, vis, usort, nstep, nriid, R0, insts, verdict, ph, hid, hidTake>>

\* columns of instance x: of a table (two columns), of a CTE (one per selected column)
ColsOf(x, n) == [i \in 1 .. n |-> x * 10 + i]
CteSel(tid) == LET c == ctes[CHOOSE i \in 1 .. Len(ctes) : ctes[i].tid = tid] IN SelCols(c.pipes)
Sources == {-1} \cup { ctes[i].tid : i \in 1 .. Len(ctes) }
NCols(src) == IF src = -1 THEN 2 ELSE Len(CteSel(src))
\* the redirects the anchor registers for instance x of CTE src
AnchorR(x, src) == IF src = -1 THEN {} ELSE { [riid |-> x, src |-> CteSel(src)[i], tgt |-> x * 10 + i] : i \in 1 .. Len(CteSel(src)) }
Reads(x, src) == IF src = -1 THEN insts
                 ELSE [t \in DOMAIN insts \cup {src} |-> (IF t \in DOMAIN insts THEN insts[t] ELSE {}) \cup (IF t = src THEN {x} ELSE {})]

Init == /\ phase = "start" /\ ctes = <<>> /\ cur = <<>> /\ vis = <<>> /\ usort = <<>> /\ nstep = 0 /\ nriid = 1
        /\ R0 = {} /\ insts = EmptyFn /\ verdict = "none" /\ ph = 1 /\ hid = FALSE /\ hidTake = FALSE

Start == /\ phase = "start"
         /\ \E src \in Sources :
              /\ cur' = << [P("From") EXCEPT !.src = src, !.riid = nriid] >>
              /\ vis' = ColsOf(nriid, NCols(src))
              /\ R0' = R0 \cup AnchorR(nriid, src)
              /\ insts' = Reads(nriid, src)
         /\ usort' = <<>> /\ nriid' = nriid + 1 /\ phase' = "grow" /\ ph' = 1 /\ hid' = FALSE /\ hidTake' = FALSE
         /\ UNCHANGED <<ctes, nstep, verdict>>

\* an atomic pipeline is one SELECT: its transforms come in SQL's clause order (the anchor cuts elsewhere: Backend.tla,
\* SplitRequired / BadPair).  ph = the clause reached: 1 FROM, 2 JOIN, 3 WHERE, 4 GROUP BY, 5 HAVING, 7 DISTINCT, 9 LIMIT,
\* 10 set operation; a Sort may stand anywhere before DISTINCT / LIMIT (it is only remembered)
CanGrow == phase = "grow" /\ nstep < MaxSteps /\ vis # <<>>
Step(t) == cur' = Append(cur, t) /\ nstep' = nstep + 1
Keep == UNCHANGED <<phase, ctes, nriid, R0, insts, verdict>>
KeepT == UNCHANGED hidTake
KeepH == UNCHANGED hid
AddSort == /\ CanGrow /\ ph < 7
           /\ \E k \in { <<Key(vis[1], FALSE)>>, <<Key(vis[1], TRUE)>>, <<Key(vis[Len(vis)], FALSE)>> } :
                /\ usort' = k
                \* (or the flattener dropped the stand-alone Sort: only the takes that follow carry it)
                \* (the flattener drops all the stand-alone Sorts in front of a group or none: after a Sort that was kept no
                \* dropped one follows in this SELECT, and the other way round)
                /\ \/ ~hid /\ Step([P("Sort") EXCEPT !.keys = k]) /\ hid' = FALSE
                   \/ usort # k /\ ~(\E i \in 1 .. Len(cur) : cur[i].k = "Sort") /\ UNCHANGED <<cur, nstep>> /\ hid' = TRUE
           /\ UNCHANGED <<vis, ph>> /\ Keep /\ KeepT
\* a chain of takes in one SELECT counts in one order
AddTake == /\ CanGrow /\ ph <= 9
           \* (a sort that lives only in the takes is in every take that follows it)
           /\ \E emb \in (IF hid THEN {usort} ELSE {<<>>, usort}) : Step([P("Take") EXCEPT !.keys = emb])
           /\ hidTake' = (hidTake \/ hid)
           /\ ph' = 9 /\ UNCHANGED <<vis, usort>> /\ Keep /\ KeepH
AddAggregate == /\ CanGrow /\ ph < 4 /\ Step([P("Aggregate") EXCEPT !.part = <<vis[1]>>])
                /\ vis' = <<vis[1], 900 + nstep>> /\ usort' = <<>> /\ ph' = 4 /\ Keep /\ hid' = FALSE /\ KeepT
AddDistinct == CanGrow /\ ph < 7 /\ Step(P("Distinct")) /\ usort' = <<>> /\ ph' = 7 /\ UNCHANGED vis /\ Keep /\ hid' = FALSE /\ KeepT
AddDistinctOn == /\ CanGrow /\ ph < 7 /\ nstep + 2 <= MaxSteps
                 /\ \E inner \in {<<>>, <<Key(vis[Len(vis)], TRUE)>>} :
                      /\ cur' = cur \o << [P("Sort") EXCEPT !.keys = inner], [P("DistinctOn") EXCEPT !.part = <<vis[1]>>] >>
                      /\ nstep' = nstep + 2
                 \* nothing of this SELECT may follow a DISTINCT ON
                 /\ usort' = <<>> /\ ph' = 11 /\ UNCHANGED vis /\ Keep /\ hid' = FALSE /\ KeepT
AddJoin == /\ CanGrow /\ ph <= 2
           /\ \E src \in Sources, side \in {"Inner", "Left", "Right"} :
                /\ Step([P("Join") EXCEPT !.src = src, !.riid = nriid, !.side = side])
                /\ vis' = vis \o ColsOf(nriid, NCols(src))
                /\ R0' = R0 \cup AnchorR(nriid, src)
                /\ insts' = Reads(nriid, src)
           /\ nriid' = nriid + 1 /\ ph' = 2 /\ UNCHANGED <<phase, ctes, usort, verdict, hid, hidTake>>
AddFilter == CanGrow /\ ph <= 5 /\ Step(P("Other")) /\ ph' = (IF ph < 4 THEN 3 ELSE 5) /\ UNCHANGED <<vis, usort>> /\ Keep /\ KeepH /\ KeepT
AddUnion == CanGrow /\ ph < 10 /\ Step(P("Union")) /\ usort' = <<>> /\ ph' = 11 /\ UNCHANGED vis /\ Keep /\ hid' = FALSE /\ KeepT

Closed(sel) == << [P("Select") EXCEPT !.cols = sel] >> \o cur
CloseCte == /\ phase = "grow" /\ Len(ctes) < MaxCtes /\ vis # <<>>
            /\ \E sel \in {vis, <<vis[1]>>} :
                 ctes' = Append(ctes, [tid |-> 100 + Len(ctes), pipes |-> << Closed(sel) >>])
            /\ phase' = "start" /\ cur' = <<>> /\ vis' = <<>> /\ usort' = <<>>
            /\ UNCHANGED <<nstep, nriid, R0, insts, verdict, ph, hid, hidTake>>

\* the columns that are columns of relation instances
DeclsOf(R) == { [cid |-> x * 10 + i, riid |-> x] : x \in 1 .. nriid, i \in 1 .. 2 } \cup { [cid |-> r.tgt, riid |-> r.riid] : r \in R }
CloseMain ==
  /\ phase = "grow" /\ vis # <<>> /\ (AllowF42 \/ ~hidTake)
  /\ \E sel \in {vis, <<vis[1]>>} :
       LET q == [ctes |-> ctes, main |-> Closed(sel)]
           picks == [t \in DOMAIN insts |-> insts[t]]
       IN \E pick \in [DOMAIN insts -> 1 .. nriid] :
            /\ \A t \in DOMAIN insts : pick[t] \in insts[t]
            /\ LET a == InferQueryX(q, R0, insts, pick)
               IN verdict' = QueryVerdict(q, [ctes |-> a.ctes, main |-> a.main], a.R, {}, DeclsOf(a.R))
  /\ phase' = "done"
  /\ UNCHANGED <<ctes, cur, vis, usort, nstep, nriid, R0, insts, ph, hid, hidTake>>
Done == phase = "done" /\ UNCHANGED vars

Next == Start \/ AddSort \/ AddTake \/ AddAggregate \/ AddDistinct \/ AddDistinctOn \/ AddJoin \/ AddFilter \/ AddUnion
        \/ CloseCte \/ CloseMain \/ Done
Spec == Init /\ [][Next]_vars

\* the post-processed query means what the query meant
MachineMeetsMeaning == verdict \in {"none", "ok"}
=============================================================================
