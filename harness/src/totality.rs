//! `pv totality`: every public entry point on one input, panics as data.
use crate::api;
use serde_json::{json, Value as J};
use std::io::Write;
use std::time::Instant;

fn outcome<T>(stage: &str, o: &api::Outcome<T>) -> J {
    match o {
        api::Outcome::Ok(_) => json!({"stage": stage, "outcome": "ok", "site": "", "msg": ""}),
        api::Outcome::Err(_) => json!({"stage": stage, "outcome": "err", "site": "", "msg": ""}),
        api::Outcome::Panic { msg, file, line } => json!({"stage": stage, "outcome": "panic", "site": format!("{file}:{line}"), "msg": msg.chars().take(200).collect::<String>()}),
    }
}

pub fn run_source(src: &str, dialects: &[&str]) -> Vec<J> {
    let mut res = vec![];
    let t = api::guarded(|| prqlc::prql_to_tokens(src));
    res.push(outcome("tokens", &t));
    let p = api::guarded(|| prqlc::prql_to_pl(src));
    res.push(outcome("parse", &p));
    if let api::Outcome::Ok(pl) = &p {
        let f = api::guarded(|| prqlc::pl_to_prql(pl));
        res.push(outcome("format", &f));
        let j = api::guarded(|| prqlc::json::from_pl(pl));
        res.push(outcome("json.from_pl", &j));
        if let api::Outcome::Ok(js) = &j {
            res.push(outcome("json.to_pl", &api::guarded(|| prqlc::json::to_pl(js))));
        }
        let r = api::guarded(|| prqlc::pl_to_rq(pl.clone()));
        res.push(outcome("resolve", &r));
        if let api::Outcome::Ok(rq) = &r {
            let j = api::guarded(|| prqlc::json::from_rq(rq));
            res.push(outcome("json.from_rq", &j));
            if let api::Outcome::Ok(js) = &j {
                res.push(outcome("json.to_rq", &api::guarded(|| prqlc::json::to_rq(js))));
            }
            for d in dialects {
                let o = api::options(Some(d));
                res.push(outcome(&format!("sql.{d}"), &api::guarded(|| prqlc::rq_to_sql(rq.clone(), &o))));
            }
        }
    }
    res.push(outcome("compile", &api::compile(src, None)));
    res
}

/// CPU time this process has run so far, in microseconds (Linux schedstat; insensitive to how loaded the machine is,
/// unlike wall-clock time); None where /proc is not available
fn cpu_us() -> Option<u64> {
    let s = std::fs::read_to_string("/proc/self/schedstat").ok()?;
    s.split_whitespace().next()?.parse::<u64>().ok().map(|ns| ns / 1000)
}

/// args: <inputs.ndjson {"id","family","kind":"src"|"rqjson"|"pljson","text"}> <out.ndjson> [dialects comma separated]
pub fn main(args: &[String]) -> i32 {
    let mut out = std::io::BufWriter::new(std::fs::File::create(&args[1]).expect("out"));
    let dl: Vec<String> = args.get(2).map(|s| s.split(',').map(|x| x.to_string()).collect()).unwrap_or_else(|| vec!["generic".into(), "sqlite".into(), "postgres".into(), "mssql".into()]);
    let dialects: Vec<&str> = dl.iter().map(|s| s.as_str()).collect();
    for line in std::fs::read_to_string(&args[0]).expect("inputs").lines() {
        if line.trim().is_empty() {
            continue;
        }
        let c: J = serde_json::from_str(line).expect("json");
        let text = c["text"].as_str().unwrap_or("");
        let t0 = Instant::now();
        let c0 = cpu_us();
        // progress marker on stderr so that the parent can name the input if this process dies
        eprintln!("@{}", c["id"].as_str().unwrap_or("?"));
        let results = match c["kind"].as_str().unwrap_or("src") {
            "rqjson" => {
                let mut res = vec![];
                let r = api::guarded(|| prqlc::json::to_rq(text));
                res.push(outcome("json.to_rq", &r));
                if let api::Outcome::Ok(rq) = &r {
                    for d in &dialects {
                        let o = api::options(Some(d));
                        res.push(outcome(&format!("sql.{d}"), &api::guarded(|| prqlc::rq_to_sql(rq.clone(), &o))));
                    }
                }
                res
            }
            "pljson" => {
                let mut res = vec![];
                let r = api::guarded(|| prqlc::json::to_pl(text));
                res.push(outcome("json.to_pl", &r));
                if let api::Outcome::Ok(pl) = &r {
                    res.push(outcome("format", &api::guarded(|| prqlc::pl_to_prql(pl))));
                    res.push(outcome("resolve", &api::guarded(|| prqlc::pl_to_rq(pl.clone()))));
                }
                res
            }
            _ => run_source(text, &dialects),
        };
        let ms = match (c0, cpu_us()) {
            (Some(a), Some(b)) if b >= a => b - a,
            _ => t0.elapsed().as_micros() as u64,
        };
        writeln!(out, "{}", json!({"event":"Input","id":c["id"],"family":c["family"],"n":c["n"].as_i64().unwrap_or(0),"results":results,"us":ms})).unwrap();
        let _ = out.flush();
    }
    writeln!(out, "{}", json!({"event":"End"})).unwrap();
    0
}
