SPECIFICATION Spec
CONSTANTS
  Alphabet = {"a", "x", "1", "0", "_", ".", ":", "@", " ", "\t", "\n", "\\", "#", "\"", "'", "`", "=", "-", "&", "|", "é", "😀"}
  MaxLen = 4
INVARIANTS ModelTiles ModelRelex
CHECK_DEADLOCK FALSE
