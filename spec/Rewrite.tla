----------------------------- MODULE Rewrite -----------------------------
(* C06 - refactorings PRQL defines as equivalent.  A program is          *)
(*   [decls |-> Seq(declaration), steps |-> Seq(step)]                    *)
(* and each rewrite is an operator from programs to programs:             *)
(*   NameWithLet   - the first i steps become `let x = (...)` (or         *)
(*                   `... | into x`, or a member of module m) and the     *)
(*                   pipeline continues `from x`                          *)
(*   ExtractFn     - an expression becomes a call to a user function      *)
(*                   whose body is that expression (positional, piped,    *)
(*                   or with the last parameter named-with-default)       *)
(*   SplitFilter   - filter (p && q)  ->  filter p | filter q             *)
(*   InsertIdentity- filter true / select of all columns / repeated sort  *)
(*   MoveToModule  - a declaration moves into `module m` and is referred  *)
(*                   to by path                                           *)
(* RewriteMC checks on the model that every rewrite preserves the         *)
(* denotation given by Prql.tla; the rewritten programs are then          *)
(* replayed through the real compiler.                                    *)
EXTENDS Prql

NDecl(p) == Len(p.decls)

RECURSIVE HasQual(_)
HasQual(e) ==
  CASE e.t = "col"  -> e.q # ""
    [] e.t = "bin"  -> HasQual(e.l) \/ HasQual(e.r)
    [] e.t = "un"   -> HasQual(e.e)
    [] e.t = "case" -> \E i \in Idx(e.arms) : HasQual(e.arms[i].c) \/ HasQual(e.arms[i].v)
    [] e.t = "agg"  -> HasQual(e.e)
    [] e.t = "in"   -> HasQual(e.e) \/ HasQual(e.lo) \/ HasQual(e.hi)
    [] e.t = "call" -> \E i \in Idx(e.args) : HasQual(e.args[i])
    [] OTHER        -> FALSE
StepExprs(s) ==
  CASE s.op \in {"select", "derive", "aggregate"} -> [i \in Idx(s.items) |-> s.items[i].e]
    [] s.op = "filter" -> << s.e >>
    [] s.op = "sort"   -> [i \in Idx(s.keys) |-> s.keys[i].e]
    [] s.op = "group"  -> s.by
    [] s.op = "join"   -> IF s.on.t = "eqcol" THEN <<>> ELSE << s.on >>
    [] OTHER -> <<>>
\* later steps may refer to the table by name (t.a): naming the prefix would change that name
StepQual(s) == (\E i \in Idx(StepExprs(s)) : HasQual(StepExprs(s)[i])) \/ s.op \in {"join"}

NameWithLet(p, i, surface) ==
  LET nm == "rel" \o ToString(NDecl(p) + 1)
      full == IF surface = "module" THEN "mdl." \o nm ELSE nm
      d == [kind |-> "let", name |-> full, short |-> nm, module |-> IF surface = "module" THEN "mdl" ELSE "",
            surface |-> IF surface = "into" THEN "into" ELSE "let",
            steps |-> SubSeq(p.steps, 1, i), params |-> <<>>, named |-> <<>>, body |-> [t |-> "lit"]]
  IN [p EXCEPT !.decls = Append(p.decls, d),
               !.steps = << [op |-> "from", t |-> full, alias |-> "", at |-> <<>>] >> \o SubSeq(p.steps, i + 1, Len(p.steps))]
CanName(p, i) ==
  /\ i >= 1 /\ i < Len(p.steps) /\ p.steps[1].op = "from"
  /\ \A j \in (i + 1) .. Len(p.steps) : ~StepQual(p.steps[j])
  \* `into` ends the file's first pipeline: only when nothing is declared yet (declarations are printed first)
  /\ TRUE

SplitFilter(p, i) ==
  LET s == p.steps[i] IN
  [p EXCEPT !.steps = SubSeq(p.steps, 1, i - 1)
                      \o << [s EXCEPT !.e = s.e.l], [s EXCEPT !.e = s.e.r] >>
                      \o SubSeq(p.steps, i + 1, Len(p.steps))]
CanSplit(p, i) == p.steps[i].op = "filter" /\ p.steps[i].e.t = "bin" /\ p.steps[i].e.op = "&&"

TrueLit == [t |-> "lit", v |-> True]
InsertAfter(p, i, s) == [p EXCEPT !.steps = SubSeq(p.steps, 1, i) \o << s >> \o SubSeq(p.steps, i + 1, Len(p.steps))]
InsertFilterTrue(p, i) == InsertAfter(p, i, [op |-> "filter", e |-> TrueLit, at |-> <<>>])
\* select of every column of the frame at that point, in order (only when all are named, unqualified and distinct)
SelectAll(fr) == [op |-> "select", at |-> <<>>,
                  items |-> [k \in Idx(fr) |-> [n |-> "", e |-> [t |-> "col", q |-> "", name |-> fr[k].name]]]]
CanSelectAll(fr) == /\ fr # <<>> /\ \A k \in Idx(fr) : fr[k].name # ""
                    /\ \A k1, k2 \in Idx(fr) : k1 # k2 => fr[k1].name # fr[k2].name
RepeatSort(p, i) == InsertAfter(p, i, p.steps[i])

\* ---- function extraction ----
RECURSIVE ColNames(_)
ColNames(e) ==
  CASE e.t = "col"  -> { e.name }
    [] e.t = "bin"  -> ColNames(e.l) \cup ColNames(e.r)
    [] e.t = "un"   -> ColNames(e.e)
    [] e.t = "case" -> UNION { ColNames(e.arms[i].c) \cup ColNames(e.arms[i].v) : i \in Idx(e.arms) }
    [] e.t = "in"   -> ColNames(e.e) \cup ColNames(e.lo) \cup ColNames(e.hi)
    [] OTHER        -> {}
Extractable(e) == ~HasQual(e) /\ ~HasAgg(e) /\ ColNames(e) # {} /\ e.t \in {"bin", "un", "case", "in"}
               /\ ~(\E c \in ColNames(e) : c \in {"p1", "p2", "p3", "p4"})
\* parameters p1..pk stand for the columns of e in a fixed order
ColSeq(e) == SetToSeq(ColNames(e))
ParamOf(cs, c) == "p" \o ToString(CHOOSE k \in Idx(cs) : cs[k] = c)
FnOf(p, e, style) ==
  LET cs == ColSeq(e)
      nm == "fun" \o ToString(NDecl(p) + 1)
      bind == [c \in ColNames(e) |-> [t |-> "col", q |-> "", name |-> ParamOf(cs, c)]]
      body == SubstE(e, bind)
      k == Len(cs)
      ps == [j \in 1 .. k |-> "p" \o ToString(j)]
      lastNamed == style = "named"
      decl == [kind |-> "func", name |-> nm, short |-> nm, module |-> "", surface |-> "let", steps |-> <<>>,
               params |-> IF lastNamed THEN SubSeq(ps, 1, k - 1) ELSE ps,
               named |-> IF lastNamed THEN << [n |-> ps[k], d |-> [t |-> "lit", v |-> IntV(0)]] >> ELSE <<>>,
               body |-> body]
      colref(j) == [t |-> "col", q |-> "", name |-> cs[j]]
      call == [t |-> "call", f |-> nm, style |-> IF style = "pipe" THEN "pipe" ELSE "pos",
               args |-> IF lastNamed THEN [j \in 1 .. (k - 1) |-> colref(j)] ELSE [j \in 1 .. k |-> colref(j)],
               named |-> IF lastNamed THEN << [n |-> ps[k], e |-> colref(k)] >> ELSE <<>>]
  IN [decl |-> decl, call |-> call]
ExtractItem(p, i, m, style) ==
  LET x == FnOf(p, p.steps[i].items[m].e, style) IN
  [p EXCEPT !.decls = Append(p.decls, x.decl), !.steps[i].items[m].e = x.call]
ExtractFilter(p, i, style) ==
  LET x == FnOf(p, p.steps[i].e, style) IN
  [p EXCEPT !.decls = Append(p.decls, x.decl), !.steps[i].e = x.call]

\* ---- module ----
RECURSIVE RenameCalls(_, _, _)
RenameCalls(e, old, new) ==
  CASE e.t = "call" -> [e EXCEPT !.f = IF e.f = old THEN new ELSE e.f,
                                  !.args = [k \in Idx(e.args) |-> RenameCalls(e.args[k], old, new)]]
    [] e.t = "bin"  -> [e EXCEPT !.l = RenameCalls(e.l, old, new), !.r = RenameCalls(e.r, old, new)]
    [] e.t = "un"   -> [e EXCEPT !.e = RenameCalls(e.e, old, new)]
    [] OTHER        -> e
RenameInStep(s, old, new) ==
  CASE s.op = "from" -> [s EXCEPT !.t = IF s.t = old THEN new ELSE s.t]
    [] s.op \in {"select", "derive", "aggregate"} -> [s EXCEPT !.items = [k \in Idx(s.items) |-> [s.items[k] EXCEPT !.e = RenameCalls(s.items[k].e, old, new)]]]
    [] s.op = "filter" -> [s EXCEPT !.e = RenameCalls(s.e, old, new)]
    [] OTHER -> s
MoveToModule(p, j) ==
  LET d == p.decls[j]  new == "mdl." \o d.short IN
  [p EXCEPT !.decls[j] = [d EXCEPT !.module = "mdl", !.name = new],
            !.steps = [k \in Idx(p.steps) |-> RenameInStep(p.steps[k], d.name, new)]]
\* only the last declaration, while it is top-level and `let`-style, and no later declaration refers to it
CanMove(p, j) == j = NDecl(p) /\ p.decls[j].module = "" /\ p.decls[j].surface = "let"
                 /\ \A i \in Idx(p.decls) : p.decls[i].module \in {"", "mdl"}
=======================================================================
