//! The uniform value record shared with the TLA+ specification (Values.tla).
use serde_json::{json, Value as J};

pub fn null() -> J {
    json!({"k":"null","n":0,"d":1,"s":""})
}
pub fn num(n: i64, d: i64) -> J {
    json!({"k":"num","n":n,"d":d,"s":""})
}
pub fn text(s: &str) -> J {
    json!({"k":"text","n":0,"d":1,"s":s})
}
pub fn float_text(s: &str) -> J {
    json!({"k":"float","n":0,"d":1,"s":s})
}

/// Best rational approximation n/d with d <= 10^6 (continued fractions).
/// Returns None when x is not within 2^-40 * max(1,|x|) of it, or when the
/// components do not fit TLC's 32-bit integers.
pub fn rational(x: f64) -> Option<(i64, i64)> {
    if !x.is_finite() {
        return None;
    }
    let neg = x < 0.0;
    let ax = x.abs();
    if ax > 1.0e9 {
        return None;
    }
    let (mut h0, mut h1, mut k0, mut k1) = (0i64, 1i64, 1i64, 0i64);
    let mut r = ax;
    let mut best = (ax.round() as i64, 1i64);
    for _ in 0..40 {
        let a = r.floor();
        let ai = a as i64;
        let h2 = ai.checked_mul(h1).and_then(|v| v.checked_add(h0));
        let k2 = ai.checked_mul(k1).and_then(|v| v.checked_add(k0));
        let (h2, k2) = match (h2, k2) {
            (Some(h), Some(k)) => (h, k),
            _ => break,
        };
        if k2 > 1_000_000 {
            break;
        }
        best = (h2, k2);
        h0 = h1;
        h1 = h2;
        k0 = k1;
        k1 = k2;
        let frac = r - a;
        if frac.abs() < 1e-12 {
            break;
        }
        r = 1.0 / frac;
    }
    let (n, d) = best;
    if d == 0 {
        return None;
    }
    let approx = n as f64 / d as f64;
    let tol = (2.0f64).powi(-40) * ax.max(1.0);
    if (approx - ax).abs() <= tol && n.abs() < (1 << 30) && d < (1 << 30) {
        Some((if neg { -n } else { n }, d))
    } else {
        None
    }
}

pub fn from_sqlite(v: rusqlite::types::ValueRef) -> J {
    use rusqlite::types::ValueRef::*;
    match v {
        Null => null(),
        Integer(i) => {
            if i.abs() < (1 << 30) {
                num(i, 1)
            } else {
                float_text(&i.to_string())
            }
        }
        Real(f) => match rational(f) {
            Some((n, d)) => num(n, d),
            None => float_text(&format!("{f:?}")),
        },
        Text(t) => text(&String::from_utf8_lossy(t)),
        Blob(_) => float_text("<blob>"),
    }
}

/// Bind a value record as a SQLite parameter.
pub fn to_sqlite(v: &J) -> rusqlite::types::Value {
    use rusqlite::types::Value as V;
    match v["k"].as_str().unwrap_or("null") {
        "num" => {
            let n = v["n"].as_i64().unwrap_or(0);
            let d = v["d"].as_i64().unwrap_or(1);
            if d == 1 {
                V::Integer(n)
            } else {
                V::Real(n as f64 / d as f64)
            }
        }
        "bool" => V::Integer(v["n"].as_i64().unwrap_or(0)),
        "text" => V::Text(v["s"].as_str().unwrap_or("").to_string()),
        _ => V::Null,
    }
}
