---------------------------- MODULE LexGenTrace ----------------------------
(* Trace validation of the real lexer against the generative specification  *)
(* LexGen.tla, on the same events LexerTrace reads (pv lexrun / lexlist):    *)
(* for every source over the known symbols, the real token stream must be    *)
(* Lex(source) - the same kind classes on the same byte spans - and a        *)
(* source is rejected exactly when Lex rejects it.                           *)
EXTENDS LexGen, Json, IOUtils

Rec == ndJsonDeserialize(IOEnv.TRACE)
VARIABLES l, n, nrej, nskip
vars == <<l, n, nrej, nskip>>
TInit == l = 1 /\ n = 0 /\ nrej = 0 /\ nskip = 0
Ev == Rec[l]
Consume == l <= Len(Rec) /\ l' = l + 1

RECURSIVE Sums(_, _)
Sums(w, acc) == IF w = <<>> THEN << acc >> ELSE << acc >> \o Sums(Tail(w), acc + Head(w))
Real(e) == SelectSeq(e.toks, LAMBDA t : ~t.start)
KindEq(m, r) == m = r \/ (m = "Num" /\ r \in {"Integer", "Float"})
\* first difference between the model's stream and the real one: "" when there is none
Diff(e) ==
  LET m == Lex(e.chars) ps == Sums(e.w, 0) IN
  IF e.event = "LexReject" THEN (IF m.ok THEN "rejected-a-valid-source" ELSE "")
  ELSE IF ~m.ok THEN "accepted-an-invalid-source"
  ELSE LET r == Real(e) IN
       IF Len(r) # Len(m.toks) THEN "token-count"
       ELSE IF \E i \in 1 .. Len(r) : ~KindEq(m.toks[i].k, r[i].c) THEN "token-kind"
       ELSE IF \E i \in 1 .. Len(r) : r[i].s # ps[m.toks[i].s] \/ r[i].e # ps[m.toks[i].e] THEN "token-span"
       ELSE ""
Expected(e) == LET m == Lex(e.chars) IN IF m.ok THEN [i \in 1 .. Len(m.toks) |-> <<m.toks[i].k, m.toks[i].s - 1, m.toks[i].e - 1>>] ELSE <<"reject">>

Judge == /\ Consume /\ Ev.event \in {"Lex", "LexReject"}
         /\ IF ~InAlphabet(Ev.chars) THEN nskip' = nskip + 1 /\ UNCHANGED <<n, nrej>>
            ELSE LET d == Diff(Ev) IN
                 /\ n' = n + 1 /\ UNCHANGED nskip
                 /\ nrej' = nrej + (IF d = "" THEN 0 ELSE 1)
                 /\ (d # "" => PrintT(<<"REJECT", ToJson(Ev.src), d, l, ToJson(Expected(Ev))>>))
Other == Consume /\ Ev.event \notin {"Lex", "LexReject", "End"} /\ UNCHANGED <<n, nrej, nskip>>
End == Consume /\ Ev.event = "End" /\ PrintT(<<"COUNTS", n, nrej, nskip>>) /\ UNCHANGED <<n, nrej, nskip>>
TNext == Judge \/ Other \/ End
TraceSpec == TInit /\ [][TNext]_vars
TraceAccepted ==
  LET d == TLCGet("stats").diameter IN
  /\ PrintT(<<"TRACE", d - 1, Len(Rec)>>)
  /\ d - 1 = Len(Rec)
=============================================================================
