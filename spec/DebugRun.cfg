INIT Init
NEXT Next
