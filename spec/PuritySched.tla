---------------------------- MODULE PuritySched ----------------------------
(* Schedules for the real code: behaviours of PurityMC with the sequence of *)
(* (thread, step) they took, printed when every thread has finished.  Run   *)
(* with TLC's simulator (-simulate); pv sched forces each schedule on the   *)
(* real threads through the gates of the cfg(prql_verif) hooks, and the     *)
(* recorded critical sections are validated by PurityTrace.                 *)
(* Step names are the directives of the replay:                             *)
(*   entries  let the thread pass its LogEntry gates up to its next other   *)
(*            gate;  acquire / release / stdinit  pass that one gate;       *)
(*   start / finish  the debugging thread's log_start / log_finish;         *)
(*   run      to the end of this compile                                    *)
EXTENDS PurityMC, Json
CONSTANT MaxD          \* debug-log cycles of the debugging thread
VARIABLES hist, nd
svars == <<vars, hist, nd>>
SInit == Init /\ hist = <<>> /\ nd = 0
H(t, s) == hist' = Append(hist, <<t, s>>)
SNext ==
  \/ DStart /\ nd < MaxD /\ H(0, "start") /\ nd' = nd + 1
  \/ DFinish /\ H(0, "finish") /\ UNCHANGED nd
  \/ \E t \in Compilers : UNCHANGED nd /\
       \/ Parse(t) /\ H(t, "entries")
       \/ Acq1(t) /\ H(t, "acquire")
       \/ In1(t) /\ H(t, "entries")
       \/ Rel1(t) /\ H(t, "release")
       \/ Resolve(t) /\ H(t, "entries")
       \/ StdBegin(t) /\ H(t, "stdinit")
       \/ StdIn(t) /\ H(t, "entries")
       \/ StdRel(t) /\ H(t, "release")
       \/ StdEnd(t) /\ H(t, "none")
       \/ StdReady(t) /\ H(t, "none")
       \/ Sql(t) /\ H(t, "entries")
       \/ Ret(t) /\ H(t, "run")
SSpec == SInit /\ [][SNext]_svars
AllDone == (\A t \in Compilers : pc[t] \in {"end", "dead"}) /\ dpc = "idle"
\* "invariant" that prints each complete schedule once (the state after the last step has no successor but stuttering)
Emit == AllDone => PrintT(<<"SCHED", ToJson(hist)>>)
=============================================================================
