SPECIFICATION Spec
CONSTANTS
  RepairedN88 = TRUE
  RepairedN115 = FALSE
  MaxDecls = 3
  MaxInsts = 2
INVARIANT NamesOk
CHECK_DEADLOCK FALSE
