------------------------------ MODULE SqlShape ------------------------------
(* C02 across dialects, on structure: the SQL expression a PRQL operator     *)
(* tree becomes must group as the tree does.  The meaning of an operator in  *)
(* SQL is either a native binary operator or the template the dialect's      *)
(* section of std.sql.prql gives for it; the specification is compositional: *)
(*    Shape(op(l, r)) = Template(op)[l := Shape(l), r := Shape(r)]           *)
(* where shapes are the trees the dialect's own parser (sqlparser) reads     *)
(* back from text - parentheses dropped, because they only matter through    *)
(* the grouping they cause.  A missing pair of parentheses, a template whose *)
(* declared binding strength is not that of its outermost operator, an       *)
(* operand inlined without protection all show as a different tree.          *)
(* Events (pv sqlshape): Template(dialect, op, ast) - the parsed template    *)
(* with the operands as identifiers zzlzz / zzrzz; Tree(id, tree); then per  *)
(* dialect Expr(id, dialect, outcome, ast) - the first projection of the     *)
(* statement compiled from `from t | select {v = <tree>}`.                   *)
EXTENDS Integers, Sequences, FiniteSets, TLC, Json, IOUtils

Rec == ndJsonDeserialize(IOEnv.TRACE)
VARIABLES l, tm, cur, n, nrej, nskip
vars == <<l, tm, cur, n, nrej, nskip>>
TInit == l = 1 /\ tm = <<>> /\ cur = [t |-> "none"] /\ n = 0 /\ nrej = 0 /\ nskip = 0
Ev == Rec[l]
Consume == l <= Len(Rec) /\ l' = l + 1

Node(k, op, a) == [k |-> k, op |-> op, a |-> a]
NativeOp(op) == CASE op = "+" -> "+" [] op = "-" -> "-" [] op = "*" -> "*" [] op = "==" -> "=" [] op = "!=" -> "<>"
                  [] op = ">" -> ">" [] op = "<" -> "<" [] op = ">=" -> ">=" [] op = "<=" -> "<=" [] op = "&&" -> "AND" [] op = "||" -> "OR"
                  [] OTHER -> ""
TemplateName(op) == CASE op = "/" -> "div_f" [] op = "//" -> "div_i" [] op = "%" -> "mod" [] op = "??" -> "coalesce" [] OTHER -> ""
Tmpl(d, name) == LET ks == { k \in 1 .. Len(tm) : tm[k].dialect = d /\ tm[k].op = name } IN
                 IF ks = {} THEN Node("none", "", <<>>) ELSE tm[CHOOSE k \in ks : TRUE].ast
RECURSIVE SubstEnv(_, _)
\* env: sequence of [name, shape]; a placeholder is the identifier zz<name>zz
SubstEnv(ast, env) ==
  IF ast.k = "id" /\ \E i \in 1 .. Len(env) : ast.op = "zz" \o env[i].name \o "zz"
  THEN env[CHOOSE i \in 1 .. Len(env) : ast.op = "zz" \o env[i].name \o "zz"].shape
  ELSE [ast EXCEPT !.a = [i \in 1 .. Len(ast.a) |-> SubstEnv(ast.a[i], env)]]
Subst(ast, L, R) == SubstEnv(ast, << [name |-> "l", shape |-> L], [name |-> "r", shape |-> R] >>)
IsNullLit(t) == t.t = "lit" /\ t.v.k = "null"
RECURSIVE Shape(_, _)
Shape(t, d) ==
  CASE t.t = "col" -> Node("id", t.name, <<>>)
    [] t.t = "lit" -> IF t.v.k = "null" THEN Node("val", "NULL", <<>>)
                      ELSE IF t.v.n < 0 THEN Node("un", "-", << Node("val", ToString(0 - t.v.n), <<>>) >>)
                      ELSE Node("val", ToString(t.v.n), <<>>)
    [] t.t = "un" -> Subst(Tmpl(d, IF t.op = "-" THEN "neg" ELSE "not"), Shape(t.e, d), Node("none", "", <<>>))
    \* a call of a std function: its template with the arguments' shapes for the parameters
    [] t.t = "call" -> SubstEnv(Tmpl(d, t.f), [i \in 1 .. Len(t.args) |-> [name |-> t.args[i].name, shape |-> Shape(t.args[i].e, d)]])
    [] t.t = "bin" ->
         IF t.op \in {"==", "!="} /\ (IsNullLit(t.l) \/ IsNullLit(t.r))
         THEN Node(IF t.op = "==" THEN "isnull" ELSE "isnotnull", "", << Shape(IF IsNullLit(t.l) THEN t.r ELSE t.l, d) >>)
         ELSE IF NativeOp(t.op) # "" THEN Node("bin", NativeOp(t.op), << Shape(t.l, d), Shape(t.r, d) >>)
         ELSE Subst(Tmpl(d, TemplateName(t.op)), Shape(t.l, d), Shape(t.r, d))
\* every template the tree needs is known for the dialect
RECURSIVE Known(_, _)
Known(t, d) ==
  CASE t.t = "un" -> Tmpl(d, IF t.op = "-" THEN "neg" ELSE "not").k # "none" /\ Known(t.e, d)
    [] t.t = "bin" -> /\ (NativeOp(t.op) # "" \/ Tmpl(d, TemplateName(t.op)).k # "none")
                      /\ Known(t.l, d) /\ Known(t.r, d)
    [] t.t = "call" -> Tmpl(d, t.f).k # "none" /\ \A i \in 1 .. Len(t.args) : Known(t.args[i].e, d)
    [] OTHER -> TRUE

\* ----------------------------------------------------------------------------
\* equality up to what re-grouping cannot change: sums (+ and - as signed terms), products (* and / as factors and
\* divisors, a leading sign pulled out), conjunctions and disjunctions are flattened; % is not
IsAdd(x) == x.k = "bin" /\ x.op \in {"+", "-"}
IsMul(x) == x.k = "bin" /\ x.op \in {"*", "/"}
Flip(s) == IF s = "+" THEN "-" ELSE "+"
Inv(s) == IF s = "*" THEN "/" ELSE "*"
RECURSIVE Canon(_), Terms(_, _), Factors(_, _), Chain(_, _)
\* signed terms of a sum, in order
Terms(x, sg) ==
  IF IsAdd(x) THEN Terms(x.a[1], sg) \o Terms(x.a[2], IF x.op = "-" THEN Flip(sg) ELSE sg)
  ELSE IF x.k = "un" /\ x.op = "-" /\ IsAdd(x.a[1]) THEN Terms(x.a[1], Flip(sg))
  ELSE << Node(sg, "", << Canon(x) >>) >>
\* factors / divisors of a product, in order; a unary minus in front of a factor is a factor -1
Factors(x, md) ==
  IF IsMul(x) THEN Factors(x.a[1], md) \o Factors(x.a[2], IF x.op = "/" THEN Inv(md) ELSE md)
  ELSE IF x.k = "un" /\ x.op = "-" /\ (IsMul(x.a[1]) \/ x.a[1].k \in {"id", "val", "fn"})
       THEN << Node("*", "", << Node("val", "-1", <<>>) >>) >> \o Factors(x.a[1], md)
  ELSE << Node(md, "", << Canon(x) >>) >>
Chain(x, op) == IF x.k = "bin" /\ x.op = op THEN Chain(x.a[1], op) \o Chain(x.a[2], op) ELSE << Canon(x) >>
\* -1 factors cancel in pairs and move to the front
Signed(fs) == LET neg == SelectSeq(fs, LAMBDA f : f.a[1] = Node("val", "-1", <<>>))
                  rest == SelectSeq(fs, LAMBDA f : f.a[1] # Node("val", "-1", <<>>))
              IN (IF Len(neg) % 2 = 1 THEN << Node("*", "", << Node("val", "-1", <<>>) >>) >> ELSE <<>>) \o rest
Canon(x) ==
  IF IsAdd(x) \/ (x.k = "un" /\ x.op = "-" /\ IsAdd(x.a[1])) THEN Node("sum", "", Terms(x, "+"))
  ELSE IF IsMul(x) \/ (x.k = "un" /\ x.op = "-" /\ IsMul(x.a[1])) THEN Node("product", "", Signed(Factors(x, "*")))
  ELSE IF x.k = "bin" /\ x.op \in {"AND", "OR"} THEN Node("chain", x.op, Chain(x, x.op))
  ELSE [x EXCEPT !.a = [i \in 1 .. Len(x.a) |-> Canon(x.a[i])]]

Template == /\ Consume /\ Ev.ev = "Template"
            /\ tm' = IF Ev.error = "" THEN Append(tm, [dialect |-> Ev.dialect, op |-> Ev.op, ast |-> Ev.ast]) ELSE tm
            /\ UNCHANGED <<cur, n, nrej, nskip>>
Tree == Consume /\ Ev.ev = "Tree" /\ cur' = Ev.tree /\ UNCHANGED <<tm, n, nrej, nskip>>
Expr == /\ Consume /\ Ev.ev = "Expr"
        /\ IF Ev.outcome # "sql" \/ ~Known(cur, Ev.dialect) THEN nskip' = nskip + 1 /\ UNCHANGED <<n, nrej>>
           ELSE LET want == Shape(cur, Ev.dialect) IN
                /\ n' = n + 1 /\ UNCHANGED nskip
                /\ nrej' = nrej + (IF Canon(want) = Canon(Ev.ast) THEN 0 ELSE 1)
                /\ (Canon(want) # Canon(Ev.ast) => PrintT(<<"REJECT", Ev.id, Ev.dialect, "grouping", l, ToJson(want)>>))
        /\ UNCHANGED <<tm, cur>>
End == Consume /\ Ev.ev = "End" /\ PrintT(<<"COUNTS", n, nrej, nskip>>) /\ UNCHANGED <<tm, cur, n, nrej, nskip>>
TNext == Template \/ Tree \/ Expr \/ End
TraceSpec == TInit /\ [][TNext]_vars
TraceAccepted ==
  LET d == TLCGet("stats").diameter IN
  /\ PrintT(<<"TRACE", d - 1, Len(Rec)>>)
  /\ d - 1 = Len(Rec)
=============================================================================
