---------------------------- MODULE LiteralMC ----------------------------
(* Every literal of at most MaxLen pieces over the piece alphabet, in     *)
(* every quote style.  TLC checks the design (emission round-trips under  *)
(* ANSI lexing for every value; under backslash-escaping lexers exactly   *)
(* for the values without a backslash - which is finding F5) and prints   *)
(* each literal with the value it denotes.                                *)
EXTENDS Literal, Json, IOUtils
Cfg == JsonDeserialize(IOEnv.LITCFG)     \* [pieces: Seq(piece), maxlen]
Pieces == Cfg.pieces
MaxLen == Cfg.maxlen
Styles == { [q |-> 39, n |-> 1], [q |-> 34, n |-> 1], [q |-> 39, n |-> 3], [q |-> 34, n |-> 3] }

VARIABLES ps, st, raw
vars == <<ps, st, raw>>
Init == ps = <<>> /\ st \in Styles /\ raw \in BOOLEAN /\ (raw => st.n = 1)
Add(i) == /\ Len(ps) < MaxLen /\ CanAppend(ps, Pieces[i], st, raw)
          /\ ps' = Append(ps, Pieces[i]) /\ UNCHANGED <<st, raw>>
Next == \E i \in 1 .. Len(Pieces) : Add(i)
Spec == Init /\ [][Next]_vars

V == IF raw THEN RawValue(ps) ELSE Value(ps)
AnsiRoundTrip == EmitOkAnsi(V)
BackslashRoundTripIffNoBackslash == EmitOkBackslash(V) <=> ~(\E i \in 1 .. Len(V) : V[i] = 92)
\* the printer of the default options keeps every literal but those in which a backslash stands directly before a quote of
\* the value or before the closing quote (whatever the number of backslashes before it)
BackslashBeforeQuote(v) == \/ (v # <<>> /\ v[Len(v)] = 92)
                           \/ \E i \in 1 .. Len(v) - 1 : v[i] = 92 /\ v[i + 1] = 39
PrinterLaw == PrinterKeeps(V) <=> ~BackslashBeforeQuote(V)
Emit2 == (ps # <<>> /\ CanClose(ps, st)) =>
           PrintT(<<"REPLAY", ToJson([pieces |-> ps, q |-> st.q, n |-> st.n, raw |-> raw, value |-> V])>>)
=======================================================================
