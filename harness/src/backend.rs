//! L2 (spec/Backend.tla): observations of the SQL back end through the guarded hooks
//! (`prqlc::debug::verif::set_json_observer`): preprocess (RQ pipeline -> SqlTransforms), split
//! (anchor::split_off_back: input, preceding, atomic) and select (atomic pipeline -> SELECT text).
use crate::api;
use serde_json::{json, Value as J};
use std::io::Write;

thread_local! {
    static EVENTS: std::cell::RefCell<Vec<(String, String)>> = const { std::cell::RefCell::new(Vec::new()) };
}

fn observer(point: &'static str, payload: String) {
    EVENTS.with(|e| e.borrow_mut().push((point.to_string(), payload)));
}

/// args: <sources.ndjson {"id","src"}> <out.ndjson> [dialects comma separated | all] : raw hook payloads
pub fn main_raw(args: &[String]) -> i32 {
    let dialects: Vec<String> = match args.get(2).map(|s| s.as_str()) {
        None | Some("all") => api::DIALECTS.iter().map(|s| s.to_string()).collect(),
        Some(l) => l.split(',').map(|s| s.to_string()).collect(),
    };
    prqlc::debug::verif::set_json_observer(Some(observer));
    let mut out = std::io::BufWriter::new(std::fs::File::create(&args[1]).expect("out"));
    for l in std::fs::read_to_string(&args[0]).expect("sources").lines() {
        if l.trim().is_empty() {
            continue;
        }
        let rec: J = serde_json::from_str(l).expect("json");
        let src = rec["src"].as_str().unwrap_or("");
        for d in &dialects {
            EVENTS.with(|e| e.borrow_mut().clear());
            let r = api::compile(src, Some(d));
            let evs: Vec<J> = EVENTS.with(|e| e.borrow().iter().map(|(p, s)| json!({"point": p, "payload": serde_json::from_str::<J>(s).unwrap_or(J::Null)})).collect());
            let mut e = json!({"id": rec["id"], "dialect": d, "events": evs});
            match r {
                api::Outcome::Ok(sql) => { e["outcome"] = json!("sql"); e["sql"] = json!(sql); }
                api::Outcome::Err(m) => { e["outcome"] = json!("err"); e["reason"] = json!(m.inner.first().map(|x| x.reason.clone()).unwrap_or_default()); }
                api::Outcome::Panic { msg, file, line } => { e["outcome"] = json!("panic"); e["reason"] = json!(format!("{file}:{line}:{msg}")); }
            }
            writeln!(out, "{}", e).unwrap();
        }
    }
    prqlc::debug::verif::set_json_observer(None);
    0
}

// ---------------------------------------------------------------------------------------------
// abstraction of the hook payloads into the records of spec/Backend.tla

fn cids(v: &J, out: &mut Vec<i64>) {
    match v {
        J::Object(m) => {
            for (k, x) in m {
                if k == "ColumnRef" {
                    if let Some(n) = x.as_i64() {
                        out.push(n);
                        continue;
                    }
                }
                cids(x, out);
            }
        }
        J::Array(a) => a.iter().for_each(|x| cids(x, out)),
        _ => {}
    }
}

fn refs_of(v: &J) -> Vec<i64> {
    let mut o = vec![];
    cids(v, &mut o);
    o
}

/// anchor::infer_complexity_expr on the serialised expression
fn expr_cx(e: &J) -> u8 {
    let k = &e["kind"];
    if k.get("Case").is_some() {
        return 1;
    }
    if let Some(op) = k.get("Operator") {
        return op["args"].as_array().map(|a| a.iter().map(expr_cx).max().unwrap_or(0)).unwrap_or(0);
    }
    if let Some(a) = k.get("Array").and_then(|a| a.as_array()) {
        return a.iter().map(expr_cx).max().unwrap_or(0);
    }
    0
}

fn int_lit(e: &J) -> i64 {
    e["kind"]["Literal"]["Integer"].as_i64().unwrap_or(-1)
}

fn ints(v: &J) -> Vec<i64> {
    v.as_array().map(|a| a.iter().filter_map(|x| x.as_i64()).collect()).unwrap_or_default()
}

fn base(k: &str, sup: bool) -> J {
    json!({"k": k, "sup": sup, "id": -1, "cx": "", "refs": [], "wrefs": [], "part": [], "comp": [], "cols": [], "sorted": false, "side": "", "lo": -1, "hi": -1})
}

fn sort_cols(v: &J) -> Vec<i64> {
    v.as_array().map(|a| a.iter().filter_map(|s| s["column"].as_i64()).collect()).unwrap_or_default()
}

/// one RQ transform (the payload of Super(..), or a compiled PQ node of the same shape)
fn abs_rq(kind: &str, v: &J, sup: bool) -> J {
    let mut t = base(kind, sup);
    match kind {
        "Compute" => {
            t["id"] = json!(v["id"].as_i64().unwrap_or(-1));
            let windowed = v.get("window").map(|w| !w.is_null()).unwrap_or(false);
            let agg = v.get("is_aggregation").and_then(|b| b.as_bool()).unwrap_or(false);
            t["cx"] = json!(if windowed { "windowed" } else if agg { "aggregation" } else if expr_cx(&v["expr"]) == 1 { "nongroup" } else { "plain" });
            t["refs"] = json!(refs_of(&v["expr"]));
            if windowed {
                let mut w = ints(&v["window"]["partition"]);
                w.extend(sort_cols(&v["window"]["sort"]));
                t["wrefs"] = json!(w);
            }
        }
        "Filter" => t["refs"] = json!(refs_of(v)),
        "Aggregate" => {
            t["part"] = json!(ints(&v["partition"]));
            t["comp"] = json!(ints(&v["compute"]));
        }
        "Sort" => t["cols"] = json!(sort_cols(v)),
        "Take" => {
            t["sorted"] = json!(v["sort"].as_array().map(|a| !a.is_empty()).unwrap_or(false));
            t["cols"] = json!(sort_cols(&v["sort"]));
            t["part"] = json!(ints(&v["partition"]));
            let (s, e) = (&v["range"]["start"], &v["range"]["end"]);
            t["lo"] = json!(if s.is_null() { -1 } else { int_lit(s) });
            t["hi"] = json!(if e.is_null() { -1 } else { int_lit(e) });
            let mut r = refs_of(s);
            r.extend(refs_of(e));
            t["refs"] = json!(r);
        }
        "Select" => t["cols"] = json!(ints(v)),
        "Join" => {
            t["refs"] = json!(refs_of(&v["filter"]));
            t["side"] = json!(v["side"].as_str().unwrap_or(""));
            if let Some(c) = v["with"]["columns"].as_array() { t["cols"] = json!(c.iter().filter_map(|x| x[1].as_i64()).collect::<Vec<_>>()); }
        }
        "DistinctOn" => t["part"] = json!(ints(v)),
        // the distinct flag of a set operation is carried in `sorted`
        "Union" | "Except" | "Intersect" => t["sorted"] = json!(v["distinct"].as_bool().unwrap_or(false)),
        "From" | "Append" => {
            // RQ level: the table reference lists the instance's columns
            if let Some(c) = v["columns"].as_array() { t["cols"] = json!(c.iter().filter_map(|x| x[1].as_i64()).collect::<Vec<_>>()); }
        }
        _ => {}
    }
    t
}

/// one SqlTransform of a hook payload
fn abs(t: &J) -> J {
    if let Some(s) = t.as_str() {
        return base(s, false);
    }
    let Some((k, v)) = t.as_object().and_then(|m| m.iter().next()) else { return base("?", false) };
    if k == "Super" {
        if let Some(s) = v.as_str() {
            return base(s, true);
        }
        let Some((k2, v2)) = v.as_object().and_then(|m| m.iter().next()) else { return base("?", true) };
        return abs_rq(k2, v2, true);
    }
    abs_rq(k, v, false)
}

fn abs_seq(v: &J) -> Vec<J> {
    v.as_array().map(|a| a.iter().map(abs).collect()).unwrap_or_default()
}

// ---------------------------------------------------------------------------------------------
// abstraction of the `postprocess` observation into the records of spec/SortInfer.tla

fn si_base(k: &str) -> J {
    json!({"k": k, "keys": [], "part": [], "cols": [], "src": -1, "riid": -1, "side": "", "sub": []})
}

fn si_keys(v: &J) -> Vec<J> {
    v.as_array().map(|a| a.iter().map(|s| json!({"col": s["column"].as_i64().unwrap_or(-1), "desc": s["direction"] == "Desc"})).collect()).unwrap_or_default()
}

fn si_rel(t: &mut J, rel: &J) {
    t["riid"] = json!(rel["riid"].as_i64().unwrap_or(-1));
    if let Some(tid) = rel["kind"].get("Ref").and_then(|x| x.as_i64()) {
        t["src"] = json!(tid);
    } else if let Some(p) = rel["kind"].get("SubQuery").and_then(|r| r.get("AtomicPipeline")) {
        t["sub"] = json!(si_pipe(p));
    }
}

fn si_transform(t: &J) -> J {
    if let Some(s) = t.as_str() {
        return si_base(if s == "Distinct" { "Distinct" } else { "Other" });
    }
    let Some((k, v)) = t.as_object().and_then(|m| m.iter().next()) else { return si_base("Other") };
    match k.as_str() {
        "Select" => { let mut x = si_base("Select"); x["cols"] = json!(ints(v)); x }
        "From" => { let mut x = si_base("From"); si_rel(&mut x, v); x }
        "Join" => { let mut x = si_base("Join"); si_rel(&mut x, &v["with"]); x["side"] = json!(v["side"].as_str().unwrap_or("")); x["sub"] = json!([]); x }
        "Sort" => { let mut x = si_base("Sort"); x["keys"] = json!(si_keys(v)); x }
        "Take" => { let mut x = si_base("Take"); x["keys"] = json!(si_keys(&v["sort"])); x["part"] = json!(ints(&v["partition"])); x }
        "Aggregate" => { let mut x = si_base("Aggregate"); x["part"] = json!(ints(&v["partition"])); x }
        "DistinctOn" => { let mut x = si_base("DistinctOn"); x["part"] = json!(ints(v)); x }
        "Union" | "Except" | "Intersect" => si_base("Union"),
        _ => si_base("Other"),
    }
}

fn si_pipe(p: &J) -> Vec<J> {
    p.as_array().map(|a| a.iter().map(si_transform).collect()).unwrap_or_default()
}

fn si_query(q: &J) -> Option<J> {
    let main = q["main_relation"].get("AtomicPipeline")?;
    let rel = |r: &J| r.get("AtomicPipeline").map(si_pipe);
    let ctes: Vec<J> = q["ctes"].as_array().map(|a| a.iter().map(|c| {
        let pipes: Vec<Vec<J>> = if let Some(r) = c["kind"].get("Normal") {
            rel(r).into_iter().collect()
        } else {
            [&c["kind"]["Loop"]["initial"], &c["kind"]["Loop"]["step"]].iter().filter_map(|r| rel(r)).collect()
        };
        json!({"tid": c["tid"].as_i64().unwrap_or(-1), "pipes": pipes})
    }).collect()).unwrap_or_default();
    Some(json!({"ctes": ctes, "main": si_pipe(main)}))
}

fn si_event(p: &J) -> Option<J> {
    let before = si_query(&p["before"])?;
    let after = si_query(&p["after"])?;
    let mut r = vec![];
    for inst in p["instances"].as_array().into_iter().flatten() {
        for pair in inst["redirects"].as_array().into_iter().flatten() {
            r.push(json!({"riid": inst["riid"], "src": pair[0], "tgt": pair[1]}));
        }
    }
    let a: Vec<J> = p["aliases"].as_array().into_iter().flatten().map(|x| json!({"id": x[0], "ref": x[1]})).collect();
    let d: Vec<J> = p["decls"].as_array().into_iter().flatten().map(|x| json!({"cid": x[0], "riid": x[1]})).collect();
    Some(json!({"ev": "Post", "before": before, "after": after, "R": r, "A": a, "D": d}))
}

// ---------------------------------------------------------------------------------------------
// abstraction of the `load` / `names` observations into the records of spec/Names.tla:
// names are numbers: -1 none, n = table_n (n < 100), 100.. = the other names in order of appearance

fn nm_code(name: &J, table: &mut Vec<String>) -> i64 {
    let Some(s) = name.as_str() else { return -1 };
    if let Some(n) = s.strip_prefix("table_").and_then(|d| d.parse::<i64>().ok()) {
        if (0..100).contains(&n) && s == format!("table_{n}") {
            return n;
        }
    }
    if let Some(i) = table.iter().position(|x| x == s) {
        return 100 + i as i64;
    }
    table.push(s.to_string());
    100 + table.len() as i64 - 1
}

fn nm_event(load: &J, names: &J) -> J {
    let mut table: Vec<String> = vec![];
    let loaded: Vec<&J> = load["decls"].as_array().map(|a| a.iter().collect()).unwrap_or_default();
    let mut ids: Vec<i64> = vec![];
    let mut decls: Vec<J> = vec![];
    for d in names["decls"].as_array().into_iter().flatten() {
        let id = d[0].as_i64().unwrap_or(-1);
        let l = loaded.iter().find(|x| x[0].as_i64() == Some(id));
        let (n0, ext) = match l { Some(x) => (nm_code(&x[1], &mut table), x[2].as_bool().unwrap_or(false)), None => (-1, false) };
        ids.push(id);
        decls.push(json!({"id": id, "name": n0, "extern": ext, "out": nm_code(&d[1], &mut table)}));
    }
    let selects: Vec<J> = names["selects"].as_array().into_iter().flatten().map(|s| {
        json!(s.as_array().into_iter().flatten().map(|i| {
            let src = ids.iter().position(|x| Some(*x) == i["source"].as_i64()).map(|p| p as i64 + 1).unwrap_or(0);
            json!({"alias": nm_code(&i["hint"], &mut table), "src": src, "out": nm_code(&i["name"], &mut table)})
        }).collect::<Vec<J>>())
    }).collect();
    json!({"ev": "Names", "decls": decls, "selects": selects, "names": table})
}

fn num(e: &sqlparser::ast::Expr) -> i64 {
    e.to_string().trim().parse::<i64>().unwrap_or(-2)
}

/// the clauses of one SELECT statement text, as sqlparser's parser for the dialect reads it back
fn shape(sql: &str, dialect: &str) -> J {
    use sqlparser::ast::*;
    let dl = crate::sqlast::dialect_of(dialect);
    let text = if dialect == "clickhouse" { sql.replace(" DIV ", " / ") } else { sql.to_string() };
    let stmts = match sqlparser::parser::Parser::parse_sql(&*dl, &text) {
        Ok(s) => s,
        Err(e) => return json!({"parsed": false, "error": e.to_string()}),
    };
    let Some(Statement::Query(q)) = stmts.first() else { return json!({"parsed": false, "error": "not a query"}) };
    let SetExpr::Select(sel) = &*q.body else { return json!({"parsed": false, "error": "not a select"}) };
    let sides: Vec<&str> = sel.from.iter().flat_map(|f| f.joins.iter()).map(|j| match &j.join_operator {
        JoinOperator::Inner(_) | JoinOperator::Join(_) => "Inner",
        JoinOperator::Left(_) | JoinOperator::LeftOuter(_) => "Left",
        JoinOperator::Right(_) | JoinOperator::RightOuter(_) => "Right",
        JoinOperator::FullOuter(_) => "Full",
        JoinOperator::CrossJoin(_) => "Cross",
        _ => "Other",
    }).collect();
    let group = match &sel.group_by {
        GroupByExpr::Expressions(e, _) => e.len(),
        _ => 99,
    };
    let order = match q.order_by.as_ref().map(|o| &o.kind) {
        Some(OrderByKind::Expressions(e)) => e.len(),
        Some(_) => 99,
        None => 0,
    };
    let (mut limit, mut offset) = (-1i64, 0i64);
    match &q.limit_clause {
        Some(LimitClause::LimitOffset { limit: l, offset: o, .. }) => {
            if let Some(l) = l { limit = num(l); }
            if let Some(o) = o { offset = num(&o.value); }
        }
        Some(LimitClause::OffsetCommaLimit { offset: o, limit: l }) => { limit = num(l); offset = num(o); }
        None => {}
    }
    let mut fetch = false;
    if let Some(f) = &q.fetch {
        fetch = true;
        if let Some(n) = &f.quantity { limit = num(n); }
    }
    if let Some(top) = &sel.top {
        if let Some(TopQuantity::Constant(n)) = &top.quantity { limit = *n as i64; }
        if let Some(TopQuantity::Expr(e)) = &top.quantity { limit = num(e); }
    }
    json!({"parsed": true, "from": sel.from.len(), "joins": sides, "where": sel.selection.is_some(), "having": sel.having.is_some(), "group": group,
           "distinct": match &sel.distinct { None => "none", Some(Distinct::Distinct) => "distinct", Some(Distinct::On(_)) => "on" },
           "order": order, "limit": limit, "offset": offset, "fetch": fetch})
}

/// args: <sources.ndjson {"id","src"|"rq"}> <out trace.ndjson> [dialects comma separated | all]
/// A source is PRQL text ("src") or an RQ document ("rq", compiled with rq_to_sql).  Writes the trace BackendTrace reads:
/// Reset per (source, dialect), then Split / Select events in the order the back end produced them, End.
pub fn main(args: &[String]) -> i32 {
    let dialects: Vec<String> = match args.get(2).map(|s| s.as_str()) {
        None | Some("all") => api::DIALECTS.iter().map(|s| s.to_string()).collect(),
        Some(l) => l.split(',').map(|s| s.to_string()).collect(),
    };
    prqlc::debug::verif::set_json_observer(Some(observer));
    let mut out = std::io::BufWriter::new(std::fs::File::create(&args[1]).expect("out"));
    let (mut n_ok, mut n_err, mut n_panic) = (0, 0, 0);
    for l in std::fs::read_to_string(&args[0]).expect("sources").lines() {
        if l.trim().is_empty() {
            continue;
        }
        let rec: J = serde_json::from_str(l).expect("json");
        for d in &dialects {
            EVENTS.with(|e| e.borrow_mut().clear());
            let r = if let Some(src) = rec["src"].as_str() {
                api::compile(src, Some(d))
            } else {
                let o = api::options(Some(d));
                let doc = rec["rq"].to_string();
                api::guarded(|| prqlc::json::to_rq(&doc).and_then(|rq| prqlc::rq_to_sql(rq, &o)))
            };
            let (outcome, detail) = match r {
                api::Outcome::Ok(sql) => { n_ok += 1; ("sql", sql) }
                api::Outcome::Err(m) => { n_err += 1; ("err", m.inner.first().map(|x| x.reason.clone()).unwrap_or_default()) }
                api::Outcome::Panic { msg, file, line } => { n_panic += 1; ("panic", format!("{file}:{line}:{msg}")) }
            };
            writeln!(out, "{}", json!({"ev": "Reset", "id": rec["id"], "dialect": d, "outcome": outcome, "detail": detail})).unwrap();
            let evs: Vec<(String, String)> = EVENTS.with(|e| e.borrow().clone());
            let mut last_load = J::Null;
            for (point, payload) in evs {
                let p: J = serde_json::from_str(&payload).unwrap_or(J::Null);
                match point.as_str() {
                    "load" => last_load = p,
                    "names" => {
                        writeln!(out, "{}", nm_event(&last_load, &p)).unwrap();
                    }
                    "split" => {
                        // From / Join: the columns their relation instance provides
                        let inst = |t: &J, a: &mut J| {
                            let riid = t.get("From").cloned().or_else(|| t.get("Join").map(|j| j["with"].clone()));
                            if let (Some(r), Some(list)) = (riid, p["instances"].as_array()) {
                                if let Some(e) = list.iter().find(|e| e[0] == r) {
                                    a["cols"] = e[1].clone();
                                }
                            }
                        };
                        let with_cols = |v: &J| -> Vec<J> {
                            v.as_array().map(|a| a.iter().map(|t| { let mut x = abs(t); inst(t, &mut x); x }).collect()).unwrap_or_default()
                        };
                        let input = with_cols(&p["input"]);
                        let decl: Vec<J> = input.iter().filter(|t| t["k"] == "Compute").map(|t| json!({"id": t["id"], "cx": t["cx"]})).collect();
                        writeln!(out, "{}", json!({"ev": "Split", "input": input, "output": ints(&p["output"]), "decl": decl,
                            "preceding": with_cols(&p["preceding"]), "atomic": with_cols(&p["atomic"])})).unwrap();
                    }
                    "preprocess" => {
                        let input: Vec<J> = p["input"].as_array().map(|a| a.iter().map(|t| {
                            match t.as_object().and_then(|m| m.iter().next()) { Some((k, v)) => abs_rq(k, v, true), None => base(t.as_str().unwrap_or("?"), true) }
                        }).collect()).unwrap_or_default();
                        writeln!(out, "{}", json!({"ev": "Pre", "input": input, "output": abs_seq(&p["output"])})).unwrap();
                    }
                    "postprocess" => {
                        if let Some(e) = si_event(&p) {
                            writeln!(out, "{}", e).unwrap();
                        }
                    }
                    "select" => {
                        let sql = p["sql"].as_str().unwrap_or("");
                        writeln!(out, "{}", json!({"ev": "Select", "pipe": abs_seq(&p["pipeline"]), "shape": shape(sql, d), "sql": sql})).unwrap();
                    }
                    _ => {}
                }
            }
        }
    }
    writeln!(out, "{}", json!({"ev": "End"})).unwrap();
    prqlc::debug::verif::set_json_observer(None);
    eprintln!("backend: {n_ok} compiled, {n_err} errors, {n_panic} panics");
    0
}
