//! `pv fmtrun`: source -> parse -> format -> parse -> format, plus compile of both texts.
use crate::api;
use serde_json::{json, Value as J};
use std::io::Write;

/// the syntax tree modulo positions and comments
fn normalise(v: &mut J) {
    match v {
        J::Object(m) => {
            m.remove("span");
            m.remove("doc_comment");
            for (_, x) in m.iter_mut() {
                normalise(x);
            }
        }
        J::Array(a) => {
            for x in a.iter_mut() {
                normalise(x);
            }
        }
        _ => {}
    }
}

fn ast_key(pl: &prqlc::pr::ModuleDef) -> String {
    let mut v = serde_json::to_value(pl).unwrap_or(J::Null);
    normalise(&mut v);
    v.to_string()
}

fn outcome_key<T>(o: &api::Outcome<T>, f: impl Fn(&T) -> String) -> String {
    match o {
        api::Outcome::Ok(v) => format!("OK:{}", f(v)),
        api::Outcome::Err(e) => format!("ERR:{}", e.inner.iter().map(|m| m.reason.clone()).collect::<Vec<_>>().join(";")),
        api::Outcome::Panic { msg, file, line } => format!("PANIC:{file}:{line}:{msg}"),
    }
}

/// args: <sources.ndjson {"id","src"}> <out.ndjson>
pub fn main(args: &[String]) -> i32 {
    let mut out = std::io::BufWriter::new(std::fs::File::create(&args[1]).expect("out"));
    for line in std::fs::read_to_string(&args[0]).expect("sources").lines() {
        if line.trim().is_empty() {
            continue;
        }
        let v: J = serde_json::from_str(line).expect("json");
        let src = v["src"].as_str().unwrap_or("").to_string();
        let mut strs: Vec<String> = vec![];
        let mut id = |s: String| -> i64 {
            if let Some(i) = strs.iter().position(|x| *x == s) {
                i as i64 + 1
            } else {
                strs.push(s);
                strs.len() as i64
            }
        };
        let p0 = api::guarded(|| prqlc::prql_to_pl(&src));
        let pl0 = match p0 {
            api::Outcome::Ok(p) => p,
            _ => {
                // the property quantifies over sources that parse
                writeln!(out, "{}", json!({"event":"NoParse","id":v["id"]})).unwrap();
                continue;
            }
        };
        writeln!(out, "{}", json!({"event":"Reset","id":v["id"]})).unwrap();
        let a0 = id(format!("AST:{}", ast_key(&pl0)));
        writeln!(out, "{}", json!({"event":"Apply","f":"parse","dst":"ast","id":a0,"ok":true})).unwrap();
        let t1 = api::guarded(|| prqlc::pl_to_prql(&pl0));
        let t1k = outcome_key(&t1, |s| s.clone());
        let t1ok = matches!(t1, api::Outcome::Ok(_));
        writeln!(out, "{}", json!({"event":"Apply","f":"format","dst":"text","id":id(format!("TXT:{t1k}")),"ok":t1ok,"text":t1k})).unwrap();
        if let api::Outcome::Ok(text1) = t1 {
            let p1 = api::guarded(|| prqlc::prql_to_pl(&text1));
            let k1 = outcome_key(&p1, ast_key);
            let ok1 = matches!(p1, api::Outcome::Ok(_));
            writeln!(out, "{}", json!({"event":"Apply","f":"reparse","dst":"ast","id":id(format!("AST:{}", k1.trim_start_matches("OK:"))),"ok":ok1})).unwrap();
            if let api::Outcome::Ok(pl1) = p1 {
                let t2 = api::guarded(|| prqlc::pl_to_prql(&pl1));
                let t2k = outcome_key(&t2, |s| s.clone());
                writeln!(out, "{}", json!({"event":"Apply","f":"reformat","dst":"text","id":id(format!("TXT:{t2k}")),"ok":matches!(t2, api::Outcome::Ok(_)),"text":t2k})).unwrap();
            }
            let s0 = outcome_key(&api::compile(&src, None), |s| s.clone());
            let s1 = outcome_key(&api::compile(&text1, None), |s| s.clone());
            writeln!(out, "{}", json!({"event":"Apply","f":"compile","dst":"sql","id":id(format!("SQL:{s0}")),"ok":true})).unwrap();
            writeln!(out, "{}", json!({"event":"Apply","f":"compile_formatted","dst":"sql","id":id(format!("SQL:{s1}")),"ok":true})).unwrap();
        }
    }
    writeln!(out, "{}", json!({"event":"End"})).unwrap();
    0
}
