--------------------------- MODULE IdentTrace ---------------------------
EXTENDS Ident, Json, IOUtils
Rec == ndJsonDeserialize(IOEnv.TRACE)
VARIABLES l, n, nrej
vars == <<l, n, nrej>>
TInit == l = 1 /\ n = 0 /\ nrej = 0
Ev == Rec[l]
Consume == l <= Len(Rec) /\ l' = l + 1

\* one event per (name, position): the name used as a column, as a table, as an alias
DialectBad(e, i) == ~(e.dialects[i].compiled /\ TokenOk(e.dialects[i].d, e.name, e.dialects[i].tok))
BadDialects(e) == [i \in { i \in 1 .. Len(e.dialects) : DialectBad(e, i) } |-> e.dialects[i].d]
\* SQLite, with objects of exactly that name holding a marker value: the marker comes back, under that name
SqliteBad(e) == ~(e.sqlite.ran /\ e.sqlite.marker = 4242 /\ (e.pos = "alias" => e.sqlite.colname = e.name.s))
\* the front end refused the program for every dialect (the name collides with a standard-library member
\* or a keyword of PRQL in that position): nothing was bound to anything, nothing to judge here
Refused(e) == \A i \in 1 .. Len(e.dialects) : ~e.dialects[i].compiled
\* the statement as the default options print it (format = true) carries the same identifier token; where it does not, the
\* specification of the printer (PrinterKeepsIdent) says whether that is the printer's known way of reading quoted text
\* ("printer", finding F124) or anything else ("format")
FmtBadSet(e) == { i \in 1 .. Len(e.dialects) : e.dialects[i].compiled /\ ~e.dialects[i].fmt_same }
FmtKind(e, i) == IF e.dialects[i].tok.quoted /\ ~PrinterKeepsIdent(e.name, e.dialects[i].tok.q) THEN "printer" ELSE "format"
FmtReport(e) == \A i \in FmtBadSet(e) : PrintT(<<"FMT", e.id, FmtKind(e, i), e.dialects[i].d, ToJson(e.name.s), e.pos, l>>)
Use ==
  /\ Consume /\ Ev.event = "Ident" /\ n' = n + 1
  /\ FmtReport(Ev)
  /\ IF Refused(Ev) \/ (DOMAIN BadDialects(Ev) = {} /\ ~SqliteBad(Ev)) THEN UNCHANGED nrej
     ELSE nrej' = nrej + 1
          /\ PrintT(<<"REJECT", Ev.id, ToJson(BadDialects(Ev)), IF SqliteBad(Ev) THEN "sqlite-binding" ELSE "", ToJson(Ev.name.s), Ev.pos, l>>)
End == Consume /\ Ev.event = "End" /\ PrintT(<<"COUNTS", n, nrej>>) /\ UNCHANGED <<n, nrej>>
TNext == Use \/ End
TraceSpec == TInit /\ [][TNext]_vars
TraceAccepted ==
  LET d == TLCGet("stats").diameter IN
  /\ PrintT(<<"TRACE", d - 1, Len(Rec)>>)
  /\ d - 1 = Len(Rec)
=======================================================================
