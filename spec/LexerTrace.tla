--------------------------- MODULE LexerTrace ---------------------------
(* Trace validation for C17.  `pv lexrun` enumerates a declared string   *)
(* space (all strings up to maxlen over an alphabet, in length-then-     *)
(* lexicographic order) through prqlc_parser::lexer::lex_source and      *)
(* prqlc::prql_to_tokens.  TLC is the authority on completeness: every   *)
(* string must belong to the space, the strings must be strictly         *)
(* increasing, and the End event must carry the size of the space.       *)
EXTENDS Lexer, Json, IOUtils

Rec == ndJsonDeserialize(IOEnv.TRACE)

VARIABLES l, sp, prev, n, nrej
vars == <<l, sp, prev, n, nrej>>

TInit == l = 1 /\ sp = [alphabet |-> <<>>, aw |-> <<>>, aws |-> <<>>, maxlen |-> 0, shard |-> -1]
         /\ prev = <<>> /\ n = 0 /\ nrej = 0

Ev == Rec[l]
IsEvent(e) == l <= Len(Rec) /\ Rec[l].event = e /\ l' = l + 1

Space == IsEvent("Space") /\ sp' = Ev /\ prev' = <<>> /\ n' = 0 /\ UNCHANGED nrej

RECURSIVE LexLess(_, _)
LexLess(x, y) == IF x = <<>> THEN y # <<>> ELSE IF y = <<>> THEN FALSE
                 ELSE IF x[1] # y[1] THEN x[1] < y[1] ELSE LexLess(Tail(x), Tail(y))
Less(x, y) == Len(x) < Len(y) \/ (Len(x) = Len(y) /\ LexLess(x, y))

InSpace(idx) ==
  \/ sp.shard = -2                 \* a list of strings, not an enumerated space
  \/ /\ Len(idx) <= sp.maxlen
     /\ \A i \in 1 .. Len(idx) : idx[i] \in 1 .. Len(sp.alphabet)
     /\ (sp.shard >= 0 /\ idx # <<>>) => idx[1] = sp.shard + 1
     /\ (n > 0) => Less(prev, idx)

\* widths / blank flags: for an enumerated space they are derived from the
\* declared alphabet, not taken from the event
W(e)  == IF sp.shard = -2 THEN e.w  ELSE [i \in 1 .. Len(e.idx) |-> sp.aw[e.idx[i]]]
WS(e) == IF sp.shard = -2 THEN e.ws ELSE [i \in 1 .. Len(e.idx) |-> sp.aws[e.idx[i]]]

Detail ==
  IF Ev.event # "Lex" THEN <<"", "", "">>
  ELSE LET ps == PrefixSums(W(Ev), 0)
           i == FirstBad(ps, WS(Ev), Ev.toks, 0, TRUE, 1)
       IN IF i = 0 THEN <<"trailing", "", "">>
          ELSE <<IF RelexOk(Ev.toks[i]) THEN "span" ELSE "relex", Ev.toks[i].k, Ev.toks[i].rk>>

Verdict(ok, what) ==
  /\ IF ok THEN UNCHANGED nrej
     ELSE nrej' = nrej + 1 /\ PrintT(<<"REJECT", ToJson(Ev.src), what, l, Detail[1], ToJson(Detail[2]), ToJson(Detail[3])>>)
  /\ prev' = Ev.idx /\ n' = n + 1 /\ UNCHANGED sp

Accepted ==
  /\ IsEvent("Lex")
  /\ Verdict(InSpace(Ev.idx) /\ AcceptOk(W(Ev), WS(Ev), Ev.toks) /\ Ev.api = "ok" /\ Ev.api_ntok = Len(Ev.toks),
             IF ~InSpace(Ev.idx) THEN "not-in-space" ELSE IF Ev.api # "ok" \/ Ev.api_ntok # Len(Ev.toks) THEN "api-disagrees" ELSE "tiling")

Rejected ==
  /\ IsEvent("LexReject")
  /\ Verdict(InSpace(Ev.idx) /\ RejectOk(Ev.nerr) /\ Ev.api = "err" /\ Ev.api_nerr >= 1,
             IF ~InSpace(Ev.idx) THEN "not-in-space" ELSE "reject-shape")

Panicked == IsEvent("LexPanic") /\ Verdict(FALSE, "panic")

RECURSIVE Pow(_, _)
Pow(b, e) == IF e = 0 THEN 1 ELSE b * Pow(b, e - 1)
RECURSIVE SumPow(_, _)
SumPow(b, e) == IF e < 0 THEN 0 ELSE Pow(b, e) + SumPow(b, e - 1)
SpaceSize ==
  LET a == Len(sp.alphabet) IN
  IF sp.shard = -2 THEN n
  ELSE IF sp.shard = -1 THEN SumPow(a, sp.maxlen)
  ELSE SumPow(a, sp.maxlen - 1) + (IF sp.shard = 0 THEN 1 ELSE 0)

End ==
  /\ IsEvent("End")
  /\ IF Ev.count = n /\ n = SpaceSize THEN UNCHANGED nrej
     ELSE nrej' = nrej + 1 /\ PrintT(<<"REJECT", "<space>", "incomplete", l>>)
  /\ PrintT(<<"COUNTS", n, nrej>>)
  /\ UNCHANGED <<sp, prev, n>>

TNext == Space \/ Accepted \/ Rejected \/ Panicked \/ End
TraceSpec == TInit /\ [][TNext]_vars

TraceAccepted ==
  LET d == TLCGet("stats").diameter IN
  /\ PrintT(<<"TRACE", d - 1, Len(Rec)>>)
  /\ d - 1 = Len(Rec)
=======================================================================
