"""C16: every emitted RQ is closed and consistently identified (spec/Rq.tla)."""
import sys, os, json, random, subprocess, glob, copy
sys.path.insert(0, os.path.join(os.path.dirname(os.path.abspath(__file__)), "..", "lib"))
from vlib import *
from progs import *
import l1, gen, rqwalk, l1props

HAND = [
    "let x = (from t | filter a > 1)\nfrom x | join y = x (==k) | select {x.k, y.a}",                 # two references to one let-table
    "let x = (from t | select {k, a})\nlet y = (from x | derive {z = a + 1})\nfrom y | append x2 = (from x | derive {z = 0}) | sort z",
    "from t | select {a = a ?? 0} | loop (filter a < 3 | select {a = a + 1})",
    "from t | join (from u | group a (aggregate {n = count this})) (==a) | select {t.k, n}",
    "from t | group a (window rolling:2 (sort k | derive {s = sum b})) | filter s > 1 | take 3",
    "from t | derive {r = rank k} | filter r < 3 | group a (sort b | take 1) | aggregate {c = count this}",
    "from [{x = 1, y = 2}, {x = 3, y = 4}] | derive {z = x + y} | join t (x == t.k)",
    "from t | select {k} | remove (from u | select {k}) | sort k",
    "from t | select {a} | intersect (from u | select {a})",
    "from s\"SELECT * FROM t\" | derive {x = s\"f({a})\"} | take 2",
    "from t | sort {a, -b} | take 2..3 | derive {l = lag 1 a} | sort l | take 1",
    # unnamed columns through append / join of a sub-pipeline
    "from t | select {a, b + 1} | append (from u | select {a, c})",
    "from t | select {a + 1, b} | append (from u | select {k, c})",
    "from t | join (from u | select {k, c + 1}) (==k)",
    "from t | join (from u | group k (aggregate {max c})) (==k) | sort a",
    "from t | join side:left (from u | derive {c * 2} | select {k, c}) (==k) | select {t.a, c}",
    # sorts around sub-pipelines
    "from t | sort a | join (from u | sort c | take 2) (==k) | take 3",
    "from t | sort a | append (from u | sort c | select {k, a, c}) | take 3",
    "from t | join (from u | sort {-c}) (==k) | sort {t.a} | take 1",
    # select inside group, exclusion, wildcards
    "from t | group a (select {b})",
    "from t | group a (select {a, b} | take 1)",
    "from t | select !{a} | derive {x = b + 1} | filter x > 1",
    "from t | select !{a} | sort a",
    "from t | join u (==k) | select {t.*, u.c} | take 2",
    "from t | select {t.*} | join u (==k) | select !{u.k}",
    # a joined sub-pipeline that is itself a join of relations sharing column names; a let-bound scalar used in two pipelines
    "from x | join (from a | join b (==id)) (x.id == a.id) | select {x.id, b.id}",
    "from t | join (from u | join v = u (u.k == v.k)) (t.k == u.k) | select {t.k, v.c}",
    "let c = 1 + 2\nfrom a | derive {p = c} | join (from b | derive {q = c}) (==id)",
    "let c0 = 5\nfrom t | derive {p = c0 + a} | join (from u | derive {q = c0 + c} | select {k, q}) (==k) | select {t.k, p, q}",
    # a relation-valued function whose parameter is used twice
    "let twice = rel -> (rel | append rel)\nfrom t | select {k, a} | twice",
    "let top = n rel -> (rel | sort {-a} | take n)\nfrom t | top 2 | join (from u | top 1) (==k)",
    "from t | group a (append (from t | select {k, a, b}) | take 1)",
    "from t | select {x = a, x = b}",
    "from t | select {a, a}",
    "from t | derive {c = 1} | join (from u | derive {d = 2}) (==k) | group {t.a} (aggregate {s = sum c + d})",
]

def nest_family():
    """sub-pipelines inside sub-pipelines: inline tables created while another inline table is being lowered (declaration
    order), sub-pipelines with two inputs whose second input leaves through a wildcard / by name (column redirects)"""
    inner = [
        ("u", "c"), ("(from u | filter c > 1)", "c"),
        ("(from u | join v (u.k == v.k) | select {u.k, v.*})", "v.z"),
        ("(from u | join v (u.k == v.k) | select {u.k, v.*})", "z"),
        ("(from u | join v (u.k == v.k) | select {u.k, v.z})", "z"),
        ("(from u | join v (u.k == v.k) | select {u.k, u.c, v.z, w = v.z + 1})", "w"),
        ("(from u | join (from v | filter z > 1) (u.k == v.k) | select {u.k, v.z})", "z"),
        ("(from u | join (from v | filter z > 1) (u.k == v.k) | select {u.k, v.*})", "v.z"),
        ("(from u | join side:left (from v | join (from w | take 2) (==k) | select {v.k, w.q}) (==k) | select {u.k, q})", "q"),
        ("x = (from_text format:json '[{\"k\": 1, \"z\": 2}]' | filter z > 0)", "x.z"),
        ("(from u | append (from v | select {k, a, c}) | select {k, c})", "c"),
        ("(from u | append (from v | join (from w | take 1) (==k) | select {v.k, v.a, w.q}))", "c"),
        ("(from s\"SELECT * FROM u\" | filter c > 1)", "c"),
        ("(from (from u | take 3) | join (from [{k = 1, z = 2}]) (==k))", "z"),
    ]
    out = []
    for rel, col in inner:
        out.append(f"from t | join {rel} (==k) | select {{t.a, {col}}}")
        out.append(f"from t | join {rel} (==k) | filter {col} > 0 | sort {{{col}}} | take 2")
        out.append(f"from t | join side:left {rel} (t.a == {col}) | select {{t.k}}")
        out.append(f"from t | select {{k}} | append (from {rel.split(' = ')[-1] if rel.startswith('x = ') else rel} | select {{k}})")
        out.append(f"let r = (from t | join {rel} (==k) | select {{t.k, y = {col}}})\nfrom r | join r2 = r (==k) | select {{r.y, r2.k}}")
    return out

def check(tier):
    rep = Report("C16", tier)
    d = workdir("C16")
    build_harness()
    dbset = os.path.join(ROOT, "corpus", "dbs_quick.json")
    rnd = random.Random(seed())
    # programs of the L1 generators (bounded-exhaustive + slot models + random), declared and open schemas
    progs = []
    m = model([from_("t")], l1props.alph_c01(), 3 if tier == "quick" else 4)
    p1, info = l1.mc_generate("C16-mc", m, dbset, workers=8)
    progs += p1
    states, transitions = info["distinct"], info["generated"]
    p5, info5 = l1.mc_generate("C16-mc5", model([from_("t")], l1props.alph_c05(), 3 if tier == "quick" else 4), dbset, workers=8)
    progs += p5; states += info5["distinct"]; transitions += info5["generated"]
    for sl in (l1props.slots_c04_top, l1props.slots_c04_group):
        p2, info2 = l1.mc_generate("C16-slots", model([from_("t")], sl("quick"), 4), dbset, workers=8)
        states += info2["distinct"]; transitions += info2["generated"]
        progs += (p2 if tier == "thorough" else rnd.sample(p2, min(len(p2), 1500)))
    p3, info3 = l1.mc_generate("C16-slots3", model([from_("t")], l1props.slots_c03(), 5), dbset, workers=8)
    states += info3["distinct"]; transitions += info3["generated"]
    progs += p3
    g = gen.G(seed(), safe=False, p_shadow=0.1, append_bare=0.3)
    progs += [g.program(i) for i in range(1500 if tier == "quick" else 20000)]
    for i, p in enumerate(progs):
        p["id"] = f"g{i}"
    opened = []
    for p in rnd.sample(progs, min(len(progs), 1500 if tier == "quick" else 15000)):
        q = copy.deepcopy(p); q["decl"] = False; q["id"] = p["id"] + "o"; opened.append(q)
    allp = progs + opened
    write_ndjson(os.path.join(d, "progs.ndjson"), allp)
    pv(["render-ndjson", dbset, os.path.join(d, "progs.ndjson"), os.path.join(d, "src.ndjson")])
    srcs = read_ndjson(os.path.join(d, "src.ndjson"))
    decl = "module default_db {\n  let t <[{k = int, a = int, b = int}]>\n  let u <[{k = int, a = int, c = int}]>\n}\n"
    for i, s in enumerate(HAND):
        srcs.append({"id": f"h{i}", "src": s})
        srcs.append({"id": f"hd{i}", "src": decl + s})
    for i, s in enumerate(nest_family()):
        srcs.append({"id": f"n{i}", "src": s})
        srcs.append({"id": f"nd{i}", "src": decl + s})
    for f in sorted(glob.glob("/repo/prqlc/prqlc/tests/integration/queries/*.prql")):
        srcs.append({"id": "q-" + os.path.basename(f), "src": open(f).read()})
    write_ndjson(os.path.join(d, "src.ndjson"), srcs)
    pv(["rqjson", os.path.join(d, "src.ndjson"), os.path.join(d, "rq.ndjson")])
    rqs = read_ndjson(os.path.join(d, "rq.ndjson"))
    # walks -> trace shards
    shards, cur, n_rq, kinds = [], [], 0, {}
    src_of = {}
    for r in rqs:
        if r["rq"] is None:
            continue
        n_rq += 1
        src_of[r["id"]] = r["src"]
        cur.append({"ev": "Reset", "id": r["id"], "tid": -1, "kind": "", "ncols": 0, "defs": [], "uses": [], "compute": [], "agg": False})
        w = rqwalk.walk(r["rq"])
        for e in w:
            kinds[e["ev"]] = kinds.get(e["ev"], 0) + 1
        cur += w
        if len(cur) > 60000:
            shards.append(cur); cur = []
    if cur:
        shards.append(cur)
    endev = {"ev": "End", "id": "", "tid": -1, "kind": "", "ncols": 0, "defs": [], "uses": [], "compute": [], "agg": False}
    paths = []
    for i, sh in enumerate(shards):
        for e in sh:
            e.setdefault("id", "")
        pth = os.path.join(d, f"walk{i}.ndjson")
        write_ndjson(pth, sh + [endev]); paths.append(pth)
    from concurrent.futures import ThreadPoolExecutor
    def validate(pth):
        return pth, tlc("RqTrace", "RqTrace.cfg", env={"TRACE": pth}, workers=1, deque=True, xmx="6g")
    with ThreadPoolExecutor(max_workers=6) as ex:
        results = list(ex.map(validate, paths))
    nvalid = 0; tstates = 0
    for pth, (out, tinfo) in results:
        tr = tuples(out, "TRACE")
        if not tinfo["no_error"] or not tr or tr[0][1] != tr[0][2]:
            open(pth + ".tlc.out", "w").write(out)
            raise ToolError("RqTrace did not consume the trace: " + tinfo.get("error_text", out[-1200:])[:1500])
        tstates += tinfo.get("distinct", 0)
        c = tuples(out, "COUNTS"); nvalid += c[-1][1] if c else 0
        for r in tuples(out, "REJECT"):
            rep.violation({"property": "C16", "kind": "rq-" + r[2], "prql": src_of.get(r[1]), "id": r[1], "failing_event": r[2],
                           "trace_file": os.path.relpath(pth, ROOT), "line": r[3]},
                          {"what": "rq-" + r[2], "src": src_of.get(r[1], "")})
    # binding demonstration: break one invariant per kind in a copy of the first RQ walks
    bad = copy.deepcopy(shards[0][:4000])
    done = set()
    touched = False
    for bi, e in enumerate(bad):
        if e["ev"] == "Reset":
            touched = False; continue
        if touched:
            continue
        before = len(done)
        if e["ev"] == "Compute" and "dup" not in done and e["defs"]:
            e["defs"] = [0]; done.add("dup")                      # id defined twice (0 is a From column)
        elif e["ev"] == "Filter" and "dangling" not in done and e["uses"]:
            e["uses"] = e["uses"] + [99999]; done.add("dangling")  # use of an undefined id
        elif e["ev"] == "Select" and "arity" not in done and len(e["uses"]) > 1 and bi + 1 < len(bad) and bad[bi + 1]["ev"] == "PipeEnd":
            e["uses"] = e["uses"][:-1]; done.add("arity")          # select arity != declared columns
        elif e["ev"] == "From" and "tid" not in done:
            e["tid"] = 424242; done.add("tid")                     # undeclared table
        touched = len(done) > before
    write_ndjson(os.path.join(d, "bad.ndjson"), bad + [endev])
    bout, _ = tlc("RqTrace", "RqTrace.cfg", env={"TRACE": os.path.join(d, "bad.ndjson")}, workers=1, deque=True)
    nb = len(tuples(bout, "REJECT"))
    if nb < len(done):
        raise ToolError(f"C16 selftest: {len(done)} corrupted RQ walks, only {nb} rejected")
    samples = [{"prql": srcs[0]["src"], "walk": [e["ev"] for e in shards[0][:12]]}, {"prql": HAND[0]}, {"prql": HAND[2]}]
    cov = {"states": states + tstates, "transitions": transitions + tstates, "traces_validated_against_impl": nvalid, "samples": samples,
           "explanation": f"{len(srcs)} sources (bounded-exhaustive L1 models, window/sort slot models, seeded random programs incl. shadowing and bare appends, declared and open schemas, hand-written nested shapes, the repository's integration queries); {n_rq} were accepted by the resolver and their RQ walks ({sum(kinds.values())} events) validated by the monitor of Rq.tla",
           "rq_validated": nvalid, "event_kinds": kinds, "sources": len(srcs), "selftest": {"corruptions": sorted(done), "rejected": nb}}
    return rep.finish("model_checking", cov, ["visibility is the form the property states: defined earlier in the same pipeline (inside Loop: in the enclosing one)",
                                               "the walk is a projection of the public serde form of RelationalQuery (lib/rqwalk.py)"])
