"""Driver of the L2 back-end machine (spec/Backend.tla):
   mc()      BackendMC - every abstract pipeline of the bounded alphabet through the split machine (design level), the
             anti-vacuity run on the machine as found (BackendMC_unrepaired.cfg must find the F97/F98 pipelines), and the
             REPLAY pipelines rendered to RQ documents for the real back end;
   run()     sources (PRQL text or RQ documents) -> `pv backend` (hook events of preprocess / split_off_back / select
             assembly for each dialect) -> BackendTrace (REJECT = violation, DRIFT = code and machine differ);
   selftest  planted defects in recorded events must be rejected with the right verdict."""
import os, json, copy
from vlib import *

def _cfg(path, **kv):
    kinds = kv.pop("Kinds")
    lines = ["SPECIFICATION Spec", "CONSTANTS"] + [f"  {k} = {v}" for k, v in kv.items()]
    lines.append("  Kinds = {" + ", ".join('"%s"' % k for k in kinds) + "}")
    lines += ["INVARIANTS EmittedOk NoLoss Progress Closed", "CHECK_DEADLOCK FALSE"]
    open(path, "w").write("\n".join(lines) + "\n")

ALL_KINDS = ["Filter", "Aggregate", "Sort", "Take", "Distinct", "DistinctOn", "Join", "Union", "Except", "Intersect"]

def mc(tier, name="backend"):
    """-> (pipelines for replay, info).  info["design_violation"] when the repaired machine violates an invariant (a defect of
    the design that is not a listed finding shows here first); ToolError when the machine as found does not."""
    def one(maxlen, emit, workers):
        cfg = os.path.join(SPEC, f"BackendMC_{name}_{maxlen}.cfg")
        _cfg(cfg, Repaired="TRUE", MaxLen=maxlen, MaxComp=2, Emit="TRUE" if emit else "FALSE", Report="FALSE", Kinds=ALL_KINDS)
        try:
            return tlc("BackendMC", os.path.basename(cfg), workers=workers, xmx="20g", timeout=4 * 3600)
        finally:
            os.remove(cfg)
    out, info = one(3, True, 8)
    if not info["no_error"]:
        return [], dict(info, design_violation=True)
    pipes = replay_lines(out)
    info["bound"] = "<= 3 transforms between From and Select, <= 2 Computes"
    if tier == "thorough":
        _, deep = one(4, False, 14)
        info["deeper"] = {"bound": "<= 4 transforms, <= 2 Computes", "states": deep.get("distinct"), "transitions": deep.get("generated"), "holds": deep["no_error"], "wall_s": deep["wall_s"]}
        if not deep["no_error"]:
            return pipes, dict(info, design_violation=True, error_text=deep.get("error_text"))
    # the arithmetic of chained takes against their meaning on sequences (WindowLaw, ShapeLaw)
    outw, infow = tlc("WindowMC", "WindowMC.cfg", workers=2)
    info["window_law"] = {"chains": infow.get("distinct"), "holds": infow["no_error"]}
    if not infow["no_error"]:
        return pipes, dict(info, design_violation=True, error_text=infow.get("error_text"))
    out2, info2 = tlc("BackendMC", "BackendMC_unrepaired.cfg", workers=4)
    if info2["no_error"] or "EmittedOk is violated" not in out2:
        raise ToolError("BackendMC on the machine as found (before the F97/F98 repair) no longer finds the take | distinct pipeline: the model has gone vacuous")
    info["unrepaired_machine_violates"] = "EmittedOk"
    return pipes, info

def names_mc(tier):
    """NamesMC: the naming machine of spec/Names.tla (QueryLoader::load, assign_names, RelVarNameAssigner transcribed) on every
    configuration of the bound; the machines as found (before the repairs of F88 and of F115) must fail."""
    b = (3, 2) if tier == "quick" else (3, 3)
    cfg = os.path.join(SPEC, f"NamesMC_{os.getpid()}.cfg")
    open(cfg, "w").write(f"SPECIFICATION Spec\nCONSTANTS\n  RepairedN88 = TRUE\n  RepairedN115 = TRUE\n  MaxDecls = {b[0]}\n  MaxInsts = {b[1]}\nINVARIANT NamesOk\nCHECK_DEADLOCK FALSE\n")
    try:
        out, info = tlc("NamesMC", os.path.basename(cfg), workers=6, xmx="8g")
    finally:
        os.remove(cfg)
    res = {"bound": f"<= {b[0]} table declarations (named t, table_0, table_1 or anonymous; extern or not), <= {b[1]} instances in the first SELECT, <= 1 in a second",
           "configurations": (info.get("distinct") or 0) // 2, "states": info.get("distinct"), "invariant": "NamesOk", "holds": info["no_error"], "wall_s": info["wall_s"]}
    if not info["no_error"]:
        res["error_text"] = info.get("error_text", out[-3000:])
        return res
    for c, want in (("NamesMC_u88.cfg", "generated-captures-user-name"), ("NamesMC_u115.cfg", "extern-renamed")):
        o2, i2 = tlc("NamesMC", c, workers=4)
        if i2["no_error"] or want not in o2:
            raise ToolError(f"NamesMC on the machine as found ({c}) no longer reports {want}: the model has gone vacuous")
    res["machines_as_found_violate"] = {"before F88": "generated-captures-user-name", "before F115": "extern-renamed"}
    return res

def sort_mc(tier):
    """SortMC: the sort-inference machine of spec/SortInfer.tla (postprocess::infer_sorts transcribed) on every compiled query of
    the bound; the post-processed query must satisfy the Verdict against the Meaning of the query.  The machine as found
    (SortMC_unrepaired.cfg, before the repair of F113) must fail."""
    def one(maxctes, maxsteps, workers):
        cfg = os.path.join(SPEC, f"SortMC_{os.getpid()}_{maxctes}_{maxsteps}.cfg")
        open(cfg, "w").write(f"SPECIFICATION Spec\nCONSTANTS\n  RepairedSI = TRUE\n  Mutant = \"none\"\n  MaxCtes = {maxctes}\n  MaxSteps = {maxsteps}\n  AllowF42 = FALSE\nINVARIANT MachineMeetsMeaning\nCHECK_DEADLOCK FALSE\n")
        try:
            return tlc("SortMC", os.path.basename(cfg), workers=workers, xmx="12g", timeout=3 * 3600)
        finally:
            os.remove(cfg)
    b = (1, 3) if tier == "quick" else (2, 3)
    out, info = one(b[0], b[1], 6 if tier == "quick" else 12)
    res = {"bound": f"<= {b[0]} CTE(s) + main relation, <= {b[1]} transforms in all", "states": info.get("distinct"), "transitions": info.get("generated"),
           "invariant": "MachineMeetsMeaning", "holds": info["no_error"], "wall_s": info["wall_s"]}
    if not info["no_error"]:
        res["error_text"] = info.get("error_text", out[-3000:])
        return res
    # anti-vacuity: the pass as found before the F113 repair, the F42 shape (known finding: the empty Sort pushed at the end of
    # the main relation hides the sort of a take), and three deliberate mistakes must each be refuted with its verdict
    refuted = {}
    def must_fail(module, cfg_text, want, what, workers=4):
        cfg = os.path.join(SPEC, f"{module}_{os.getpid()}_av.cfg")
        open(cfg, "w").write(cfg_text)
        try:
            o, i = tlc(module, os.path.basename(cfg), workers=workers)
        finally:
            os.remove(cfg)
        if i["no_error"] or want not in o:
            raise ToolError(f"{module} no longer refutes {what} (expected {want}): the model has gone vacuous")
        refuted[what] = want
    base = "SPECIFICATION Spec\nCONSTANTS\n  RepairedSI = {r}\n  Mutant = \"{m}\"\n  MaxCtes = {c}\n  MaxSteps = {st}\n  AllowF42 = {f}\nINVARIANT MachineMeetsMeaning\nCHECK_DEADLOCK FALSE\n"
    must_fail("SortMC", base.format(r="FALSE", m="none", c=1, st=2, f="FALSE"), "sort-not-redirected", "the pass before the F113 repair")
    must_fail("SortMC", base.format(r="TRUE", m="none", c=1, st=2, f="TRUE"), "take-order", "known finding F42 (a take whose stand-alone Sort the flattener dropped, in the main relation)")
    must_fail("SortMC", base.format(r="TRUE", m="join-clears", c=1, st=3, f="FALSE"), "final-order", "mutant: a join forgets the order of its left input")
    must_fail("SortMC", base.format(r="TRUE", m="take-prefers-inherited", c=2, st=2, f="FALSE"), "take-order", "mutant: a take prefers the inherited sorting to its own sort")
    must_fail("SortMC", base.format(r="TRUE", m="distinct-keeps", c=1, st=3, f="FALSE"), "distinct-select-extended", "mutant: DISTINCT keeps the sorting")
    res["refuted_on_every_run"] = refuted
    # end to end: BackendMC's pipelines cut by the split machine (Part A), post-processed by the sort machine (Part E), judged
    # against the meaning of the uncut pipeline
    ss = "SPECIFICATION SpecX\nCONSTANTS\n  Repaired = TRUE\n  RepairedSI = TRUE\n  Mutant = \"{m}\"\n  MaxLen = {n}\n  MaxComp = 1\n  Kinds = {{\"Filter\", \"Aggregate\", \"Sort\", \"Take\", \"Distinct\", \"DistinctOn\", \"Join\", \"Union\"}}\n  Emit = FALSE\n  Report = FALSE\nINVARIANTS SplitKeepsOrder SortsMeetMeaning\nCHECK_DEADLOCK FALSE\n"
    n = 3 if tier == "quick" else 4
    cfg = os.path.join(SPEC, f"SplitSortMC_{os.getpid()}.cfg")
    open(cfg, "w").write(ss.format(m="none", n=n))
    try:
        o3, i3 = tlc("SplitSortMC", os.path.basename(cfg), workers=6 if tier == "quick" else 12, xmx="16g", timeout=3 * 3600)
    finally:
        os.remove(cfg)
    res["split_then_sort"] = {"bound": f"<= {n} transforms between From and Select, <= 1 Compute", "states": i3.get("distinct"), "invariants": ["SplitKeepsOrder", "SortsMeetMeaning"],
                              "holds": i3["no_error"], "wall_s": i3["wall_s"]}
    if not i3["no_error"]:
        res["holds"] = False
        res["error_text"] = i3.get("error_text", o3[-3000:])
        return res
    must_fail("SplitSortMC", ss.format(m="join-clears", n=3), "SortsMeetMeaning is violated", "mutant join-clears on the cut pipelines", workers=6)
    res["states"] = (res.get("states") or 0) + (i3.get("distinct") or 0)
    return res

# ------------------------------------------------------------------------------------------------------------------
# abstract pipeline (records of Backend.tla) -> RQ document for prqlc::rq_to_sql
def _ref(c): return {"kind": {"ColumnRef": c}, "span": None}
def _lit(n): return {"kind": {"Literal": {"Integer": n}}, "span": None}
def _op(name, *args): return {"kind": {"Operator": {"name": name, "args": list(args)}}, "span": None}

def rq_doc(pipe):
    names = {1: "a", 2: "b"}
    ts, vis, cur_sort, fresh = [], [1, 2], [], [200]
    final = pipe[-1]["cols"]
    for t in pipe:
        k = t["k"]
        if k == "From":
            ts.append({"From": {"columns": [[{"Single": "a"}, 1], [{"Single": "b"}, 2]], "name": "t", "prefer_cte": True, "source": 0}})
        elif k == "Filter":
            ts.append({"Filter": _op("std.gt", _ref(t["refs"][0]), _lit(0))})
        elif k == "Compute":
            c = {"id": t["id"]}
            names[t["id"]] = f"c{t['id']}"
            if t["cx"] == "plain":
                c["expr"] = _op("std.add", _ref(t["refs"][0]), _lit(1))
            elif t["cx"] == "nongroup":
                c["expr"] = {"kind": {"Case": [{"condition": _op("std.gt", _ref(t["refs"][0]), _lit(0)), "value": _ref(t["refs"][0])}]}, "span": None}
            elif t["cx"] == "windowed":
                c["expr"] = _op("std.sum", _ref(t["refs"][0]))
                c["window"] = {"frame": {"kind": "Rows", "range": {"start": None, "end": None}}, "partition": [],
                               "sort": [{"column": w, "direction": "Asc"} for w in t["wrefs"]]}
            else:
                c["expr"] = _op("std.sum", _ref(t["refs"][0])); c["is_aggregation"] = True
            ts.append({"Compute": c})
            if t["cx"] != "aggregation":
                vis.append(t["id"])
        elif k == "Aggregate":
            ts.append({"Aggregate": {"partition": t["part"], "compute": t["comp"]}})
            vis = list(t["part"]) + list(t["comp"]); cur_sort = []
        elif k == "Sort" and t["sup"]:
            cur_sort = [{"column": c, "direction": "Asc"} for c in t["cols"]]
            ts.append({"Sort": cur_sort})
        elif k == "Take":
            ts.append({"Take": {"partition": [], "range": {"start": None, "end": _lit(t["hi"])}, "sort": cur_sort if t["sorted"] else []}})
        elif k == "Distinct":
            part = final if set(final) <= set(vis) else list(vis)
            ts.append({"Take": {"partition": part, "range": {"start": None, "end": _lit(1)}, "sort": []}}); cur_sort = []
        elif k == "DistinctOn":
            ts.append({"Take": {"partition": t["part"], "range": {"start": None, "end": _lit(1)}, "sort": []}}); cur_sort = []
        elif k == "Join":
            nid = t["cols"][0]; names[nid] = "k"
            ts.append({"Join": {"side": t["side"], "with": {"columns": [[{"Single": "k"}, nid]], "name": "u", "prefer_cte": True, "source": 1},
                                "filter": _op("std.eq", _ref(t["refs"][0]), _ref(nid))}})
            vis.append(nid)
        elif k in ("Union", "Except", "Intersect"):
            cols = []
            for c in vis:
                fresh[0] += 1; cols.append([{"Single": names.get(c, f"c{c}")}, fresh[0]])
            ts.append({"Append": {"columns": cols, "name": "v", "prefer_cte": True, "source": 2}}); cur_sort = []
        elif k == "Select":
            ts.append({"Select": t["cols"]})
    def tbl(i, n, cols):
        return {"id": i, "name": None, "relation": {"columns": [{"Single": c} for c in cols], "kind": {"ExternRef": {"LocalTable": [n]}}}}
    return {"def": {"other": {}, "version": None},
            "relation": {"columns": [{"Single": names.get(c, f"c{c}")} for c in final], "kind": {"Pipeline": ts}},
            "tables": [tbl(0, "t", ["a", "b"]), tbl(1, "u", ["k"]), tbl(2, "v", ["a", "b"])]}

# ------------------------------------------------------------------------------------------------------------------
def validate(trace_path):
    out, info = tlc("BackendTrace", "BackendTrace.cfg", env={"TRACE": trace_path}, workers=1, deque=True, xmx="6g")
    tr = tuples(out, "TRACE")
    if not info["no_error"] or not tr or tr[0][1] != tr[0][2]:
        open(trace_path + ".tlc.out", "w").write(out)
        raise ToolError("BackendTrace did not consume the trace: " + info.get("error_text", out[-1200:])[:1500])
    c = tuples(out, "COUNTS")[-1]
    return {"rejects": tuples(out, "REJECT"), "drift": tuples(out, "DRIFT"), "splits": c[1], "selects": c[2], "pres": c[5], "posts": c[6] if len(c) > 6 else 0, "names": c[7] if len(c) > 7 else 0, "states": info.get("distinct", 0)}

def run(d, srcs, dialects="all", nsh=8, tag="be"):
    """srcs: [{"id", "src"} | {"id", "rq"}].  -> {"rejects": [...], "drift": [...], counters}"""
    nd = 12 if dialects == "all" else len(dialects.split(","))
    nsh = max(nsh, len(srcs) * nd // 15000 + 1)          # keep a trace shard small enough for one TLC run
    per = (len(srcs) + nsh - 1) // nsh
    shards = [srcs[i * per:(i + 1) * per] for i in range(nsh)]
    shards = [s for s in shards if s]
    src_of = {r["id"]: r for r in srcs}
    from concurrent.futures import ThreadPoolExecutor
    def one(i):
        ip = os.path.join(d, f"{tag}src{i}.ndjson"); tp = os.path.join(d, f"{tag}trace{i}.ndjson")
        write_ndjson(ip, shards[i])
        r = pv(["backend", ip, tp, dialects])
        v = validate(tp)
        v["trace"] = tp; v["pv"] = r.stderr.strip().splitlines()[-1] if r.stderr.strip() else ""
        return v
    with ThreadPoolExecutor(max_workers=min(8, len(shards) or 1)) as ex:
        results = list(ex.map(one, range(len(shards))))
    res = {"rejects": [], "drift": [], "splits": 0, "selects": 0, "pres": 0, "posts": 0, "names": 0, "states": 0, "compiled": 0, "errors": 0, "panics": 0}
    import re
    for v in results:
        evs = None
        for kind in ("rejects", "drift"):
            for t in v[kind]:
                if evs is None:
                    evs = read_ndjson(v["trace"])
                line = t[4] if kind == "rejects" else t[3]
                e = evs[line - 1]
                # the Reset of this compilation
                j = line - 1
                while evs[j]["ev"] != "Reset":
                    j -= 1
                rec = {"id": t[1], "dialect": t[2], "event": e, "sql": evs[j].get("detail"), "trace_file": v["trace"], "line": line,
                       "source": src_of.get(t[1], {})}
                if kind == "rejects":
                    rec["verdict"] = t[3]
                    rec["pair"] = [int(re.sub(r"\D", "", str(x)) or 0) for x in t[5:7]] if len(t) > 6 else None
                res[kind].append(rec)
        for k in ("splits", "selects", "pres", "posts", "names", "states"):
            res[k] += v[k]
        m = re.search(r"(\d+) compiled, (\d+) errors, (\d+) panics", v["pv"])
        if m:
            res["compiled"] += int(m.group(1)); res["errors"] += int(m.group(2)); res["panics"] += int(m.group(3))
    return res

def describe(rec):
    """short text of a rejected event: the kinds of the atomic pipeline / the clauses"""
    e = rec["event"]
    if e["ev"] == "Pre":
        f = lambda t: (t["cx"] if t["k"] == "Compute" else t["k"]) + ("/" + ",".join(map(str, t["part"])) if t["k"] in ("Take", "DistinctOn") and t["part"] else "")
        return " ".join(f(t) for t in e["input"]) + " => " + " ".join(f(t) for t in e["output"])
    if e["ev"] == "Names":
        nm = lambda n: "-" if n == -1 else (f"table_{n}" if n < 100 else e["names"][n - 100])
        return ("decls " + ", ".join(f"{nm(d['name'])}{'*' if d['extern'] else ''}->{nm(d['out'])}" for d in e["decls"]) + " ; selects "
                + " | ".join(", ".join(f"{nm(i['alias'])}@{i['src']}->{nm(i['out'])}" for i in sel) for sel in e["selects"]))
    if e["ev"] == "Post":
        f = lambda t: t["k"] + ("[" + ",".join(("-" if k["desc"] else "") + str(k["col"]) for k in t["keys"]) + "]" if t["k"] in ("Sort", "Take") else "") + (f"({t['src']})" if t["k"] in ("From", "Join") and t["src"] >= 0 else "")
        q = lambda x: " ; ".join(f"cte{c['tid']}: " + " | ".join(" ".join(f(t) for t in p) for p in c["pipes"]) for c in x["ctes"]) + " ; main: " + " ".join(f(t) for t in x["main"])
        return q(e["before"]) + "  =>  " + q(e["after"])
    if e["ev"] == "Split":
        ks = [(t["cx"] if t["k"] == "Compute" else t["k"]) + ("*" if t.get("sorted") else "") for t in e["atomic"]]
        return " ".join(ks)
    return json.dumps(e.get("shape")) + " <- " + " ".join(t["k"] for t in e["pipe"])

def selftest(d):
    """binding demonstration: one planted defect per rule of Backend.tla in recorded events"""
    srcs = SELF_SRCS
    ip = os.path.join(d, "self.src.ndjson"); tp = os.path.join(d, "self.trace.ndjson"); write_ndjson(ip, srcs)
    return _selftest(d, ip, tp)

SELF_SRCS = [{"id": "s1", "src": "from t | select {a, b} | sort a | take 3 | filter b > 1 | derive {w = sum b} | group a (aggregate {s = sum w}) | filter s > 0 | sort s | take 2..3"},
            {"id": "s2", "src": "from t | select {a, b} | derive {w = sum b} | group a (aggregate {s = sum w})"},
            {"id": "s3", "src": "from t | select {a, b} | group {a, b} (take 1) | filter b > 1"},
            {"id": "s4", "src": "from t | filter a > 1 | derive {c = a + 1} | select {c}"},
            {"id": "s5", "src": "let x = (from t | sort {(a + b)} | select {k, a})\nfrom x | join y = x (==k) | take 5"},
            {"id": "s6", "src": "from t | sort {-b} | take 5 | filter a > 1 | sort k | take 2"},
            {"id": "s7", "src": "from t | sort a | select {k, a}"}]

def _selftest(d, ip, tp):
    pv(["backend", ip, tp, "sqlite"])
    evs = read_ndjson(tp)
    base = validate(tp)
    if base["splits"] < 2 or base["selects"] < 2:
        raise ToolError(f"back-end selftest: the recorder produced no events: {base['splits']} {base['selects']}")
    if base["rejects"]:
        # the code under test already violates a rule on the selftest's own inputs: that is the main run's finding, not a
        # defect of the validator; the planting needs a clean baseline and is skipped in this run
        return {"planted": 0, "recognised": 0, "skipped": "the unplanted events of the selftest inputs are rejected: " + ", ".join(sorted({t[3] for t in base["rejects"]}))}
    want = {}
    planted = [evs[0]]
    def plant(name, ev):
        planted.append(dict(evs[0], id=name)); planted.append(ev);
    splits = [e for e in evs if e["ev"] == "Split"]; selects = [e for e in evs if e["ev"] == "Select"]
    # (1) the take of the first SELECT moved into the SELECT that filters: LIMIT before WHERE
    s = next(e for e in splits if any(t["k"] == "Filter" for t in e["atomic"]))
    take = next(t for e in splits for t in e["input"] if t["k"] == "Take" and t["sorted"])
    m = copy.deepcopy(s); i = next(i for i, t in enumerate(m["atomic"]) if t["k"] == "Filter")
    m["atomic"].insert(i, take); m["input"] = m["preceding"][:-1] + [t for t in m["atomic"] if t["k"] != "Select"] + [m["input"][-1]]
    plant("order", m); want["order"] = "clause-order"
    # (2) a transform dropped by the split
    m = copy.deepcopy(s); del m["atomic"][i]
    plant("loss", m); want["loss"] = "loss"
    # (3) an aggregate over a window function in one SELECT
    s3 = [e for e in splits if any(t["cx"] == "aggregation" for t in e["atomic"])][-1]
    wc = next(t for e in splits for t in e["input"] if t["cx"] == "windowed")
    m = copy.deepcopy(s3); j = next(i for i, t in enumerate(m["atomic"]) if t["cx"] == "aggregation")
    m["atomic"].insert(j, wc); m["atomic"][j + 1]["refs"] = [wc["id"]]
    m["input"] = m["preceding"][:-1] + [t for t in m["atomic"] if t["k"] != "Select"] + [m["input"][-1]]
    plant("nest", m); want["nest"] = "nesting"
    # (4) statement clauses that do not belong to the pipeline
    sl = next(e for e in selects if e["shape"]["limit"] != -1)
    for fld, val, verdict in (("limit", 5, "assembly-limit"), ("offset", 0, "assembly-offset"), ("order", 0, "assembly-order-by"), ("where", True, "assembly-where"), ("distinct", "distinct", "assembly-distinct")):
        m = copy.deepcopy(sl); m["shape"][fld] = val
        plant("sh-" + fld, m); want["sh-" + fld] = verdict
    # (5) preprocess: a group-take over some columns compiled to DISTINCT although the rest of the row is still used;
    #     a Compute carried across a filter; a transform lost
    pres = [e for e in evs if e["ev"] == "Pre"]
    pd = next(e for e in pres if any(t["k"] == "Distinct" for t in e["output"]))
    m = copy.deepcopy(pd); tk = next(t for t in m["input"] if t["k"] == "Take" and t["part"]); tk["part"] = tk["part"][:1]
    plant("pre-distinct", m); want["pre-distinct"] = "preprocess-distinct-partition-mismatch"
    pc = next(e for e in pres if [t["k"] for t in e["output"]][:3] == ["From", "Filter", "Compute"])
    m = copy.deepcopy(pc); m["output"][1], m["output"][2] = m["output"][2], m["output"][1]
    plant("pre-moved", m); want["pre-moved"] = "preprocess-compute-moved"
    m = copy.deepcopy(pc); del m["output"][1]
    plant("pre-lost", m); want["pre-lost"] = "preprocess-kind-changed"
    # (6) sort inference (spec/SortInfer.tla): the order next to a LIMIT inside a CTE reversed; the final order reversed; a
    #     carried sort column left un-redirected; a sort key of a relation instance that is not in this SELECT
    def post_of(sid):
        i = next(i for i, e in enumerate(evs) if e["ev"] == "Reset" and e["id"] == sid)
        return next(e for e in evs[i + 1:] if e["ev"] == "Post")
    def flip(pipe):
        for t in pipe:
            if t["k"] == "Sort":
                for k in t["keys"]:
                    k["desc"] = not k["desc"]
    m = copy.deepcopy(post_of("s6")); c = next(c for c in m["after"]["ctes"] if any(t["k"] == "Take" for p in c["pipes"] for t in p)); flip(c["pipes"][0])
    plant("si-take", m); want["si-take"] = "sortinfer-take-order"
    m = copy.deepcopy(post_of("s7")); flip(m["after"]["main"])
    plant("si-final", m); want["si-final"] = "sortinfer-final-order"
    p5 = post_of("s5")
    main_from = next(t for t in p5["after"]["main"] if t["k"] == "From")
    red = next(r for r in p5["R"] if r["riid"] == main_from["riid"] and any(k["col"] == r["tgt"] for t in p5["after"]["main"] if t["k"] == "Sort" for k in t["keys"]))
    def rekey(pipe, old, new):
        for t in pipe:
            if t["k"] == "Sort":
                for k in t["keys"]:
                    if k["col"] == old:
                        k["col"] = new
    m = copy.deepcopy(p5); rekey(m["after"]["main"], red["tgt"], red["src"])
    plant("si-redirect", m); want["si-redirect"] = "sortinfer-sort-not-redirected"
    main_riids = {t["riid"] for t in p5["after"]["main"] if t["k"] in ("From", "Join")}
    selected = {c for cte in p5["after"]["ctes"] for pp_ in cte["pipes"] for t in pp_ if t["k"] == "Select" for c in t["cols"]}
    inner = next(x["cid"] for x in p5["D"] if x["riid"] not in main_riids and x["cid"] not in selected)   # a column of an instance inside a CTE that no CTE selects
    m = copy.deepcopy(p5); rekey(m["after"]["main"], red["tgt"], inner)
    plant("si-scope", m); want["si-scope"] = "sortinfer-sort-out-of-scope"
    planted.append({"ev": "End"})
    pp = os.path.join(d, "self.planted.ndjson"); write_ndjson(pp, planted)
    got = {t[1]: t[3] for t in validate(pp)["rejects"]}
    if got != want:
        raise ToolError(f"back-end selftest: planted defects not recognised: got {got}, want {want}")
    return {"planted": len(want), "recognised": len(got)}
