--------------------------- MODULE SqlScopeTrace ---------------------------
(* Trace validation for C07: per (program, dialect) one Begin, the walk of  *)
(* the statement read back from the emitted SQL, End.  An event the monitor *)
(* cannot take is consumed by Reject, which prints the rule broken; the     *)
(* rest of that statement is skipped, the next Begin resynchronises.        *)
EXTENDS SqlScope, Json, IOUtils

Rec == ndJsonDeserialize(IOEnv.TRACE)
VARIABLES l, m, cur, bad, nq, nrej, nskip
vars == <<l, m, cur, bad, nq, nrej, nskip>>
TInit == l = 1 /\ m = M0 /\ cur = "" /\ bad = FALSE /\ nq = 0 /\ nrej = 0 /\ nskip = 0
Ev == Rec[l]
Consume == l <= Len(Rec) /\ l' = l + 1

\* Begin: outcome err/panic is not a successful compilation, nothing to judge (C12 owns panics);
\* a successful one must read back as exactly one statement, and SQLite must prepare it
BeginVerdict(e) ==
  IF e.kind # "sql" THEN "skip"
  ELSE IF ~e.flag THEN "syntax"
  ELSE IF e.n # 1 THEN "not-single-statement"
  ELSE IF e.clause = "prepare-failed" THEN "prepare"
  \* the statement as the default options print it (format = true) does not consist of the same tokens (under the dialect's
  \* tokenizer) as the compact statement judged here: what a default compile hands to the database is another text
  ELSE IF e.clause = "printed-differs" THEN "printed"
  ELSE ""
BeginOk == /\ Consume /\ Ev.ev = "Begin" /\ BeginVerdict(Ev) = ""
           /\ m' = Begin(Ev) /\ cur' = Ev.name /\ bad' = FALSE /\ nq' = nq + 1 /\ UNCHANGED <<nrej, nskip>>
BeginSkip == /\ Consume /\ Ev.ev = "Begin" /\ BeginVerdict(Ev) = "skip"
             /\ m' = Begin(Ev) /\ cur' = Ev.name /\ bad' = TRUE /\ nskip' = nskip + 1 /\ UNCHANGED <<nq, nrej>>
BeginReject == /\ Consume /\ Ev.ev = "Begin" /\ BeginVerdict(Ev) \notin {"", "skip"}
               /\ m' = Begin(Ev) /\ cur' = Ev.name /\ bad' = TRUE /\ nq' = nq + 1 /\ nrej' = nrej + 1
               /\ PrintT(<<"REJECT", Ev.name, Ev.q, BeginVerdict(Ev), "Begin", l>>) /\ UNCHANGED nskip

Walk == /\ Consume /\ Ev.ev \notin {"Begin", "End", "Stop"} /\ ~bad /\ Verdict(m, Ev) = ""
        /\ m' = Step(m, Ev) /\ UNCHANGED <<cur, bad, nq, nrej, nskip>>
Reject == /\ Consume /\ Ev.ev \notin {"Begin", "End", "Stop"} /\ ~bad /\ Verdict(m, Ev) # ""
          /\ bad' = TRUE /\ nrej' = nrej + 1
          /\ PrintT(<<"REJECT", cur, m.dialect, Verdict(m, Ev), Ev.ev \o ":" \o Ev.q \o ":" \o Ev.name \o ":" \o Ev.clause \o ":" \o Ev.kind, l>>)
          /\ UNCHANGED <<m, cur, nq, nskip>>
Skip == Consume /\ Ev.ev \notin {"Begin", "End", "Stop"} /\ bad /\ UNCHANGED <<m, cur, bad, nq, nrej, nskip>>
\* End of a statement: a judged walk must have been complete (otherwise the recorder is wrong)
EndOk == /\ Consume /\ Ev.ev = "End" /\ (bad \/ (Complete(m) /\ FrameOk(m) /\ TakesOk(m))) /\ UNCHANGED <<m, cur, bad, nq, nrej, nskip>>
EndFrame == /\ Consume /\ Ev.ev = "End" /\ ~bad /\ Complete(m) /\ ~FrameOk(m)
            /\ PrintT(<<"REJECT", cur, m.dialect, "frame", ToString(Top(m.results).cols), l>>) /\ nrej' = nrej + 1 /\ UNCHANGED <<m, cur, bad, nq, nskip>>
EndBad == /\ Consume /\ Ev.ev = "End" /\ ~bad /\ ~Complete(m)
          /\ PrintT(<<"REJECT", cur, m.dialect, "walk", "End", l>>) /\ nrej' = nrej + 1 /\ UNCHANGED <<m, cur, bad, nq, nskip>>
Stop == Consume /\ Ev.ev = "Stop" /\ PrintT(<<"COUNTS", nq, nrej, nskip>>) /\ UNCHANGED <<m, cur, bad, nq, nrej, nskip>>

EndTakes == /\ Consume /\ Ev.ev = "End" /\ ~bad /\ Complete(m) /\ FrameOk(m) /\ ~TakesOk(m)
            /\ PrintT(<<"REJECT", cur, m.dialect, "takes", ToString(m.takes), l>>) /\ nrej' = nrej + 1 /\ UNCHANGED <<m, cur, bad, nq, nskip>>
TNext == EndTakes \/ BeginOk \/ BeginSkip \/ BeginReject \/ Walk \/ Reject \/ Skip \/ EndOk \/ EndBad \/ EndFrame \/ Stop
TraceSpec == TInit /\ [][TNext]_vars
TraceAccepted ==
  LET d == TLCGet("stats").diameter IN
  /\ PrintT(<<"TRACE", d - 1, Len(Rec)>>)
  /\ d - 1 = Len(Rec)
=============================================================================
