//! `pv sqlshape`: the SQL expression a PRQL expression becomes, as the tree the dialect's parser reads back
//! (spec/SqlShape.tla): operator templates of std.sql.prql and the first projection of compiled sources are parsed with
//! sqlparser's parser for the dialect and normalised to {k, op, a} (parentheses dropped: they only matter through the
//! grouping they cause).
use crate::api;
use serde_json::{json, Value as J};
use sqlparser::ast::*;
use sqlparser::dialect::GenericDialect;
use std::io::Write;

fn node(k: &str, op: String, a: Vec<J>) -> J {
    json!({"k": k, "op": op, "a": a})
}

fn fn_args(f: &Function) -> Vec<J> {
    match &f.args {
        FunctionArguments::List(l) => l
            .args
            .iter()
            .map(|a| match a {
                FunctionArg::Unnamed(FunctionArgExpr::Expr(e)) => norm(e),
                // `f(a = b)`: some dialects' parsers read this as a named argument; in the emitted text it is a comparison
                FunctionArg::Named { name, arg: FunctionArgExpr::Expr(e), operator: FunctionArgOperator::Equals } => {
                    // (oracle limit: the text is an expression `name = ...`; read it again as one, so that the rest of it
                    // groups by operator precedence and not as the value of a named argument)
                    let text = format!("{name} = {e}");
                    let g = GenericDialect {};
                    match sqlparser::parser::Parser::new(&g).try_with_sql(&text).and_then(|mut p| p.parse_expr()) {
                        Ok(x) => norm(&x),
                        Err(_) => node("bin", "=".into(), vec![node("id", name.value.clone(), vec![]), norm(e)]),
                    }
                }
                other => node("text", other.to_string(), vec![]),
            })
            .collect(),
        FunctionArguments::None => vec![],
        other => vec![node("text", other.to_string(), vec![])],
    }
}

pub fn norm(e: &Expr) -> J {
    match e {
        Expr::Nested(x) => norm(x),
        Expr::BinaryOp { left, op, right } => node("bin", op.to_string(), vec![norm(left), norm(right)]),
        Expr::UnaryOp { op, expr } => node("un", op.to_string(), vec![norm(expr)]),
        Expr::Identifier(i) => node("id", i.value.clone(), vec![]),
        Expr::CompoundIdentifier(p) => node("id", p.iter().map(|i| i.value.clone()).collect::<Vec<_>>().join("."), vec![]),
        Expr::Value(v) => node("val", v.to_string(), vec![]),
        Expr::IsNull(x) => node("isnull", String::new(), vec![norm(x)]),
        Expr::IsNotNull(x) => node("isnotnull", String::new(), vec![norm(x)]),
        Expr::Between { expr, negated, low, high } => node("between", negated.to_string(), vec![norm(expr), norm(low), norm(high)]),
        Expr::Like { negated, expr, pattern, .. } => node("like", negated.to_string(), vec![norm(expr), norm(pattern)]),
        Expr::Function(f) if f.over.is_none() && f.filter.is_none() => node("fn", f.name.to_string().to_uppercase(), fn_args(f)),
        Expr::Trim { expr, trim_where: None, trim_what: None, trim_characters: None } => node("fn", "TRIM".into(), vec![norm(expr)]),
        Expr::Substring { expr, substring_from, substring_for, .. } => {
            let mut a = vec![norm(expr)];
            if let Some(x) = substring_from { a.push(norm(x)); }
            if let Some(x) = substring_for { a.push(norm(x)); }
            node("fn", "SUBSTRING".into(), a)
        }
        Expr::Floor { expr, .. } => node("fn", "FLOOR".into(), vec![norm(expr)]),
        Expr::Ceil { expr, .. } => node("fn", "CEIL".into(), vec![norm(expr)]),
        Expr::Cast { expr, data_type, .. } => node("cast", data_type.to_string(), vec![norm(expr)]),
        Expr::Case { operand: None, conditions, else_result, .. } => {
            let mut a = vec![];
            for c in conditions {
                a.push(norm(&c.condition));
                a.push(norm(&c.result));
            }
            if let Some(x) = else_result {
                a.push(norm(x));
            }
            node("case", String::new(), a)
        }
        other => node("text", other.to_string(), vec![]),
    }
}

fn first_projection(sql: &str, dialect: &str) -> Result<J, String> {
    let dl = crate::sqlast::dialect_of(dialect);
    let text = if dialect == "clickhouse" { sql.replace(" DIV ", " / ") } else { sql.to_string() };
    let stmts = sqlparser::parser::Parser::parse_sql(&*dl, &text).map_err(|e| e.to_string())?;
    let Some(Statement::Query(q)) = stmts.first() else { return Err("not a query".into()) };
    let SetExpr::Select(sel) = &*q.body else { return Err("not a select".into()) };
    match sel.projection.first() {
        Some(SelectItem::ExprWithAlias { expr, .. }) | Some(SelectItem::UnnamedExpr(expr)) => Ok(norm(expr)),
        _ => Err("no expression in the projection".into()),
    }
}

/// args: <in.json {"templates": [{"dialect","op","text"}], "sources": [{"id","src"}], "dialects": [..]}> <out.ndjson>
pub fn main(args: &[String]) -> i32 {
    let inp: J = serde_json::from_str(&std::fs::read_to_string(&args[0]).expect("input")).expect("json");
    let mut out = std::io::BufWriter::new(std::fs::File::create(&args[1]).expect("out"));
    for t in inp["templates"].as_array().cloned().unwrap_or_default() {
        let d = t["dialect"].as_str().unwrap_or("generic");
        let sql = format!("SELECT {} AS v FROM t", t["text"].as_str().unwrap_or(""));
        let mut e = json!({"ev": "Template", "dialect": d, "op": t["op"], "text": t["text"], "ast": J::Null, "error": ""});
        match first_projection(&sql, d) {
            Ok(a) => e["ast"] = a,
            Err(x) => e["error"] = json!(x),
        }
        writeln!(out, "{}", e).unwrap();
    }
    let dialects: Vec<String> = inp["dialects"].as_array().map(|a| a.iter().filter_map(|x| x.as_str().map(|s| s.to_string())).collect()).unwrap_or_default();
    for s in inp["sources"].as_array().cloned().unwrap_or_default() {
        let src = s["src"].as_str().unwrap_or("");
        for d in &dialects {
            let mut e = json!({"ev": "Expr", "id": s["id"], "dialect": d, "outcome": "", "sql": "", "ast": J::Null, "detail": ""});
            match api::compile(src, Some(d)) {
                api::Outcome::Ok(sql) => {
                    e["sql"] = json!(sql);
                    match first_projection(&sql, d) {
                        Ok(a) => { e["outcome"] = json!("sql"); e["ast"] = a; }
                        Err(x) => { e["outcome"] = json!("unparsed"); e["detail"] = json!(x); }
                    }
                }
                api::Outcome::Err(m) => { e["outcome"] = json!("err"); e["detail"] = json!(m.inner.first().map(|x| x.reason.clone()).unwrap_or_default()); }
                api::Outcome::Panic { msg, file, line } => { e["outcome"] = json!("panic"); e["detail"] = json!(format!("{file}:{line}:{msg}")); }
            }
            writeln!(out, "{}", e).unwrap();
        }
    }
    0
}
