"""Constructors for the program / step / expression records shared by the TLA+ models,
the Rust harness and the orchestrator, and the step alphabets of the bounded models."""

def V(x):
    if x is None: return {"k": "null", "n": 0, "d": 1, "s": ""}
    if x is True: return {"k": "bool", "n": 1, "d": 1, "s": ""}
    if x is False: return {"k": "bool", "n": 0, "d": 1, "s": ""}
    if isinstance(x, str): return {"k": "text", "n": 0, "d": 1, "s": x}
    if isinstance(x, tuple): return {"k": "num", "n": x[0], "d": x[1], "s": ""}
    return {"k": "num", "n": x, "d": 1, "s": ""}

def col(name, q=""): return {"t": "col", "q": q, "name": name}
def star(q): return {"t": "star", "q": q}
def lit(x): return {"t": "lit", "v": V(x)}
def bin_(op, l, r): return {"t": "bin", "op": op, "l": l, "r": r}
def un(op, e): return {"t": "un", "op": op, "e": e}
def case(*arms): return {"t": "case", "arms": [{"c": c, "v": v} for c, v in arms]}
def agg(f, e, n=1): return {"t": "agg", "f": f, "e": e, "n": n}
def inr(e, lo, hi): return {"t": "in", "e": e, "lo": lo, "hi": hi}
def E(x):
    """shorthand: str -> column, int/None/bool -> literal"""
    if isinstance(x, dict): return x
    if isinstance(x, str): return col(x)
    return lit(x)

INF = 1000000
def from_(t, alias=""): return {"op": "from", "t": t, "alias": alias}
def fromlit(cols, rows, alias=""): return {"op": "fromlit", "cols": list(cols), "rows": [[V(x) for x in r] for r in rows], "alias": alias}
def item(e, n=""): return {"n": n, "e": E(e)}
def select(*items): return {"op": "select", "items": [i if "e" in i and "n" in i else item(i) for i in items]}
def exclude(*cols): return {"op": "exclude", "cols": [E(c) for c in cols]}
def derive(*items): return {"op": "derive", "items": list(items)}
def filter_(e): return {"op": "filter", "e": e}
def sort(*keys): return {"op": "sort", "keys": [{"d": d, "e": E(e)} for d, e in keys]}
def take(lo, hi, rng=False): return {"op": "take", "lo": lo, "hi": hi, "range": rng}
def aggregate(*items): return {"op": "aggregate", "items": list(items)}
def group(by, pipe): return {"op": "group", "by": [E(b) for b in by], "pipe": pipe}
def window(fk, lo, hi, pipe, sugar=""): return {"op": "window", "fk": fk, "lo": lo, "hi": hi, "pipe": pipe, "sugar": sugar}
def join(side, with_, on, alias="", explicit=False):
    return {"op": "join", "side": side, "with": with_, "on": on, "alias": alias, "explicit_side": explicit}
def eqcol(name): return {"t": "eqcol", "name": name}
def append(with_): return {"op": "append", "with": with_}
def remove(with_): return {"op": "remove", "with": with_}
def intersect(with_): return {"op": "intersect", "with": with_}
def loop(pipe): return {"op": "loop", "pipe": pipe}

# ---------------------------------------------------------------------------------------
# Step alphabets (tables t(k,a,b), u(k,a,c)).  One representative argument per shape; the
# models enumerate every sequence up to the depth.

def core_alphabet():
    a, b, k = col("a"), col("b"), col("k")
    return [
        select(item("k"), item("a")),
        select(item("a"), item(bin_("+", a, b), "x")),
        select(item("b"), item("k")),
        derive(item(bin_("*", b, lit(2)), "x")),
        derive(item(bin_("??", a, lit(0)), "a")),                 # shadows a
        derive(item(agg("sum", b), "s")),                          # whole-table window
        filter_(bin_(">", a, lit(0))),
        filter_(bin_("==", b, lit(None))),
        filter_(bin_("||", bin_("<", b, lit(2)), bin_("==", a, lit(None)))),
        sort(("asc", "a")),
        sort(("desc", "b"), ("asc", "k")),
        sort(("asc", "k")),
        take(1, 2),
        take(2, 3, True),
        take(2, INF, True),
        aggregate(item(agg("sum", b), "s"), item(agg("count", k), "n")),
        aggregate(item(agg("max", a), "m"), item(agg("average", b), "v")),
        group(["a"], [aggregate(item(agg("sum", b), "s"), item(agg("count", k), "n"))]),
        group(["a"], [sort(("desc", "k")), take(1, 1)]),
        group(["a"], [derive(item(agg("min", k), "mk"))]),
        join("inner", [from_("u")], eqcol("k")),
        join("left", [from_("u")], bin_("==", col("a", "t"), col("a", "u"))),
        append([from_("u")]),
    ]

def bad(kind, text): return {"op": "bad", "kind": kind, "text": text}
def at(step, *positions):
    """restrict a step to the given (1-based) positions of the pipeline"""
    s = dict(step); s["at"] = list(positions); return s

def model(first, steps, depth):
    steps = [dict(s, at=s.get("at", [])) for s in steps]
    return {"first": first, "steps": steps, "depth": depth}
