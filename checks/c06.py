"""C06: refactorings PRQL defines as equivalent do not change results (spec/Rewrite.tla + RewriteMC)."""
import sys, os, json, random, copy
sys.path.insert(0, os.path.join(os.path.dirname(os.path.abspath(__file__)), "..", "lib"))
from vlib import *
from progs import *
import l1, l1check, gen, l1props

k, a, b = col("k"), col("a"), col("b")
def P(*steps): return {"decls": [], "steps": [dict(s, at=[]) for s in steps]}

def hand_bases():
    x = col("x")
    return [
        P(from_("t"), filter_(bin_("&&", bin_(">", a, lit(0)), bin_("!=", b, lit(None)))), derive(item(bin_("+", bin_("*", a, lit(2)), b), "x")), sort(("desc", "x"), ("asc", "k")), take(1, 2)),
        P(from_("t"), select(item(bin_("-", a, b), "d"), item("k")), filter_(bin_(">", col("d"), lit(0))), aggregate(item(agg("sum", col("d")), "s"))),
        P(from_("t"), sort(("asc", "a"), ("desc", "k")), take(2, 3, True), derive(item(case((bin_(">", b, lit(1)), a), (lit(True), lit(0))), "c"))),
        P(from_("t"), filter_(bin_("&&", bin_("||", bin_("<", a, lit(2)), bin_("==", b, lit(None))), bin_(">", k, lit(1)))), group(["a"], [aggregate(item(agg("count", k), "n"), item(agg("max", b), "m"))])),
        P(from_("t"), derive(item(bin_("??", b, lit(0)), "bb")), group(["a"], [sort(("desc", "k")), take(1, 1)]), select(item("a"), item("bb"))),
        P(from_("t"), filter_(inr(a, lit(0), lit(2))), sort(("asc", "k")), derive(item(agg("sum", b), "tot"), item(agg("row_number", k), "rn"))),
        P(from_("t"), select(item("k"), item(bin_("*", a, a), "sq")), sort(("desc", "sq"), ("asc", "k")), take(1, 3), filter_(bin_("&&", bin_(">=", col("sq"), lit(1)), bin_("<", k, lit(4))))),
        P(from_("u"), filter_(bin_("!=", col("c"), lit(None))), derive(item(bin_("-", lit(0), col("c")), "nc")), aggregate(item(agg("min", col("nc")), "mn"), item(agg("count", k), "n"))),
        P(from_("t"), join("left", [from_("u")], eqcol("k"), explicit=True), filter_(bin_("&&", bin_(">", col("a", "t"), lit(0)), bin_("==", col("c"), lit(None))))),
        P(from_("t"), sort(("asc", "b"), ("asc", "k")), filter_(bin_("&&", bin_("!=", a, lit(None)), bin_("!=", b, lit(None)))), take(1, 2), select(item("k"), item(bin_("+", a, b), "s"))),
        # conjuncts that are constant
        P(from_("t"), select(item("a"), item("b")), filter_(bin_("&&", bin_(">", a, lit(1)), lit(False)))),
        P(from_("t"), filter_(bin_("&&", lit(True), bin_(">", a, lit(0)))), aggregate(item(agg("count", k), "n"))),
        P(from_("t"), group(["a"], [aggregate(item(agg("sum", b), "s"))]), filter_(bin_("&&", bin_(">", col("s"), lit(0)), bin_("==", lit(1), lit(2))))),
        # a computed column ahead of table columns, then a group: the partition is `this.*` minus the key
        P(from_("t"), select(item(bin_("+", a, lit(1)), "x"), item("b"), item("k")), group(["k"], [derive(item(agg("max", b), "m"))])),
        P(from_("t"), derive(item(bin_("*", b, lit(2)), "y")), select(item("y"), item("a"), item("k")), exclude("k")),
    ]

def open_family(rep, d, tier):
    """C06 where the language machine has no meaning to offer (open schemas, stars in select lists): the law on observed
    results (spec/RewriteLaw.tla).  prefix x continuation, and the same program with the prefix named by let / into / a
    module member or an identity step inserted; the variant must return the base's relation on every database instance."""
    tcols = "k, a, b"
    prefixes = [
        ("from t | select {c = a + 1, t.*}", True, "t"), ("from t | derive {c = a + 1} | select {c, t.*}", True, "t"),
        ("from t | derive {c = a + 1}", True, "t"), ("from t | select {t.*, c = a + 1}", True, "t"),
        ("from t | join u (==k) | select {t.*, u.c}", True, "j"), ("from t | join u (==k) | select {u.c, t.*}", True, "j"),
        ("from t | join side:left u (==k) | select {c2 = u.c ?? 0, t.*}", False, "j"),
        ("from t | filter a > 0 | sort {-k}", False, "t"), ("from t | select !{b}", False, "x"), ("from t | derive {c = a + 1} | select !{a}", True, "x"),
        ("from t | select {k2 = k * 2, t.*} | derive {s = k2 + a}", False, "t"),
        ("from t | group k (aggregate {n = count this, m = max b})", False, "g"),
        ("from t | select {t.*} | derive {c = b ?? 0}", True, "t"),
    ]
    conts = [("", None), ("filter c > 1", "c"), ("filter k > 1", None), ("derive {d = k + 1}", None), ("select {k}", None),
             ("group k (aggregate {cnt = count this})", None), ("sort {k, a, b} | take 2", "t-only"), ("select !{k}", None), ("sort {-k}", None)]
    srcs = []
    n = 0
    for pre, has_c, kind in prefixes:
        for cont, need in conts:
            if need == "c" and not has_c:
                continue
            if need == "t-only" and kind != "t":
                continue
            if kind == "g" and ("a" in cont.replace("aggregate", "") and "take" in cont):
                continue
            tail = (" | " + cont) if cont else ""
            base = f"o{n}"; n += 1
            srcs.append({"id": base, "src": pre + tail})
            srcs.append({"id": base + "-let", "base": base, "src": f"let x = ({pre})\nfrom x{tail}"})
            srcs.append({"id": base + "-into", "base": base, "src": f"{pre}\ninto x\nfrom x{tail}"})
            srcs.append({"id": base + "-mod", "base": base, "src": f"module m {{\n  let x = ({pre})\n}}\nfrom m.x{tail}"})
            srcs.append({"id": base + "-id", "base": base, "src": f"{pre} | filter true{tail}"})
            if cont.startswith("filter") and "&&" not in cont:
                srcs.append({"id": base + "-split", "base": base, "src": f"{pre} | filter true && ({cont[7:]})"})
    # declarations that refer to each other by relative qualified names, moved together into a module (and a module of
    # the same name left at the root: the moved declarations must keep seeing their own)
    mods = [
        ("module cfg {\n  let k2 = 2\n}\nlet t2 = (from t | derive {y = a * cfg.k2})\nfrom t2 | select {k, y}",
         ["module m {\n  module cfg {\n    let k2 = 2\n  }\n  let t2 = (from t | derive {y = a * cfg.k2})\n}\nfrom m.t2 | select {k, y}",
          "module cfg {\n  let k2 = 100\n}\nmodule m {\n  module cfg {\n    let k2 = 2\n  }\n  let t2 = (from t | derive {y = a * cfg.k2})\n}\nfrom m.t2 | select {k, y}",
          "module m {\n  module cfg {\n    let k2 = 2\n  }\n  let t2 = (from t | derive {y = a * m.cfg.k2})\n}\nfrom m.t2 | select {k, y}"]),
        ("module fns {\n  let dbl = x -> x * 2\n}\nlet t2 = (from t | derive {y = fns.dbl a})\nfrom t2 | filter y > 1",
         ["module m {\n  module fns {\n    let dbl = x -> x * 2\n  }\n  let t2 = (from t | derive {y = fns.dbl a})\n}\nfrom m.t2 | filter y > 1",
          "module fns {\n  let dbl = x -> x * 3\n}\nmodule m {\n  module fns {\n    let dbl = x -> x * 2\n  }\n  let t2 = (from t | derive {y = fns.dbl a})\n}\nfrom m.t2 | filter y > 1"]),
        ("module src {\n  let big = (from t | filter a > 0)\n}\nlet t3 = (from src.big | select {k, a})\nfrom t3 | sort {k, a}",
         ["module m {\n  module src {\n    let big = (from t | filter a > 0)\n  }\n  let t3 = (from src.big | select {k, a})\n}\nfrom m.t3 | sort {k, a}",
          "module src {\n  let big = (from t | filter a < 0)\n}\nmodule m {\n  module src {\n    let big = (from t | filter a > 0)\n  }\n  let t3 = (from src.big | select {k, a})\n}\nfrom m.t3 | sort {k, a}"]),
    ]
    # a call across a module boundary: the arguments of a call belong to the caller - a bare name in an argument means what
    # it means at the call site, whatever the callee's module declares under that name (seeded change c06g-1)
    mods += [
        ("let lim = 7\nfrom t | derive {y = lim * 2} | select {k, y}",
         ["let lim = 7\nmodule m {\n  let lim = 5\n  let f = x -> x * 2\n}\nfrom t | derive {y = m.f lim} | select {k, y}",
          "let lim = 7\nmodule m {\n  let lim = 5\n  let f = x -> x * 2\n}\nfrom t | derive {y = (lim | m.f)} | select {k, y}",
          "let lim = 7\nmodule m {\n  let lim = 5\n  let f = x s:1 -> x * s\n}\nfrom t | derive {y = m.f lim s:2} | select {k, y}",
          "let lim = 7\nmodule m {\n  let lim = 5\n  let f = x s:1 -> s * 2\n}\nfrom t | derive {y = m.f 0 s:lim} | select {k, y}",
          "let lim = 7\nmodule m {\n  module n {\n    let lim = 5\n    let f = x -> x * 2\n  }\n}\nfrom t | derive {y = m.n.f lim} | select {k, y}"]),
        ("from t | derive {y = a * 2} | select {k, y}",
         ["module m {\n  let a = 5\n  let f = x -> x * 2\n}\nfrom t | derive {y = m.f a} | select {k, y}",
          "module m {\n  let a = 5\n  let f = x -> x * 2\n}\nfrom t | derive {y = (a | m.f)} | select {k, y}",
          "module m {\n  let b = 5\n  let f = x y -> x * y\n}\nfrom t | derive {y = m.f a 2} | select {k, y}"]),
        ("from t | derive {y = 5 * 2} | select {k, y}",
         ["let f = x -> x * 2\nlet lim = 7\nmodule m {\n  let lim = 5\n  let j = f lim\n}\nfrom t | derive {y = m.j} | select {k, y}",
          "module g {\n  let f = x -> x * 2\n  let lim = 7\n}\nmodule m {\n  let lim = 5\n  let j = g.f lim\n}\nfrom t | derive {y = m.j} | select {k, y}"]),
        ("from t | filter a > 0 | sort {-a, k} | take 3",
         ["let topn = n rel<relation> -> (rel | sort {-a, k} | take n)\nmodule m {\n  let pos = (from t | filter a > 0)\n  let top = (pos | topn 3)\n}\nfrom m.top",
          "module fn {\n  let topn = n rel<relation> -> (rel | sort {-a, k} | take n)\n}\nlet pos = (from t | filter a > 0)\nfrom pos | fn.topn 3"]),
    ]
    for i, (b_, vs) in enumerate(mods):
        srcs.append({"id": f"md{i}", "src": b_})
        for j, v_ in enumerate(vs):
            srcs.append({"id": f"md{i}-mod{j}", "base": f"md{i}", "src": v_})
    # binding demonstration: a variant that is not a refactoring of its base must be rejected
    srcs.append({"id": "self-base", "src": "from t | select {c = a + 1, t.*}"})
    srcs.append({"id": "self-cols", "base": "self-base", "src": "from t | select {c = a + 1, c2 = a, t.*}"})
    srcs.append({"id": "self-rows", "base": "self-base", "src": "from t | select {c = a + 2, t.*}"})
    ip = os.path.join(d, "open.src.ndjson"); op = os.path.join(d, "open.res.ndjson"); write_ndjson(ip, srcs)
    pv(["runsrc", os.path.join(ROOT, "corpus", "dbs_quick.json"), ip, op])
    out, info = tlc("RewriteLaw", "RewriteLaw.cfg", env={"TRACE": op}, workers=1, deque=True)
    tr = tuples(out, "TRACE")
    if not info["no_error"] or not tr or tr[0][1] != tr[0][2]:
        raise ToolError("RewriteLaw did not consume the trace: " + info.get("error_text", out[-1200:])[:1500])
    res = {r["id"]: r for r in read_ndjson(op) if r.get("ev") == "Result"}
    src_of = {s_["id"]: s_["src"] for s_ in srcs}
    got_self = {}
    nrej = 0
    for t in tuples(out, "REJECT"):
        vid, bid, verdict = t[1], t[2], t[3]
        if vid.startswith("self-"):
            got_self[vid] = verdict
            continue
        nrej += 1
        rep.violation({"property": "C06", "kind": "open-" + verdict, "base": src_of[bid], "variant": src_of[vid], "base_sql": res[bid].get("sql"), "variant_sql": res[vid].get("sql"),
                       "base_columns": res[bid].get("names"), "variant_columns": res[vid].get("names"), "variant_detail": res[vid].get("detail")},
                      {"what": "open-" + verdict, "src": src_of[vid], "base_src": src_of[bid], "sql": res[vid].get("sql") or "", "detail": res[vid].get("detail") or "",
                       "rewrite": vid.rsplit("-", 1)[-1]})
    if got_self != {"self-cols": "columns", "self-rows": "rows"}:
        raise ToolError(f"C06 open-family selftest: wrong variants not rejected as expected: {got_self}")
    c = tuples(out, "COUNTS")[-1]
    ran = sum(1 for r in res.values() if r["outcome"] == "rows")
    return {"open_schema_family": {"bases": c[1] - 1, "variants": c[2] - 2, "executed": ran, "rejections": nrej,
                                   "explanation": "open-schema programs with stars in select lists (prefix x continuation) and the same program with the prefix named by let / into / a module member, an identity step inserted or a filter split, executed on SQLite per database instance; spec/RewriteLaw.tla requires the variant to return the base's columns (up to order when distinct) and bag of rows"}}, c[2]

def check(tier):
    rep = Report("C06", tier)
    d = workdir("C06")
    build_harness()
    dbset = os.path.join(ROOT, "corpus", "dbs_quick.json" if tier == "quick" else "dbs_thorough.json")
    rnd = random.Random(seed())
    bases = hand_bases()
    g = gen.G(seed(), safe=True, p_join=0.0, p_append=0.0, p_group=0.2)
    want = 50 if tier == "quick" else 500
    tries = 0
    while len(bases) < 15 + want and tries < want * 4:
        tries += 1
        p = g.program(tries, n=rnd.randint(3, 5), start="t")
        bases.append({"decls": [], "steps": [dict(s, at=[]) for s in p["steps"]]})
    # drop bases the specification does not accept as well-formed, supported programs (pre-check with PrqlMC-free run)
    pre = [dict(b_, id=f"b{i}", decl=True) for i, b_ in enumerate(bases)]
    res0 = l1check.run(rep, "C06-base", pre, dbset, {"rows", "order", "ExecError", "Panic", "rejected-wellformed"})
    bad = set(pid for pid, _, _ in res0["rejects"])
    ok_ids = [p["id"] for p in pre if p["id"] not in bad]
    # keep only bases whose status is ok in the spec: ask TLC through the model's BaseOk invariant (it fails otherwise)
    states = transitions = 0
    rewritten = []
    chunk = 12
    good_bases = [bases[int(i[1:])] for i in ok_ids]
    depth = 1 if tier == "quick" else 2
    def run_mc(bs, dep, tag):
        cfgp = os.path.join(d, f"cfg-{tag}.json")
        json.dump({"bases": bs, "depth": dep}, open(cfgp, "w"))
        out, info = tlc("RewriteMC", "RewriteMC.cfg", env={"DBSET": dbset, "REWRITECFG": cfgp}, workers=8, xmx="10g", timeout=1500)
        return out, info
    for ci in range(0, len(good_bases), chunk):
        bs = good_bases[ci:ci + chunk]
        out, info = run_mc(bs, depth, f"c{ci}")
        if not info["no_error"]:
            if "BaseOk" in info.get("error_text", ""):
                # a base outside the supported fragment / ill-formed: find and drop it, then redo the chunk
                keep = []
                for one in bs:
                    o1, i1 = run_mc([one], 0, "one")
                    if i1["no_error"]:
                        keep.append(one)
                if not keep:
                    continue
                out, info = run_mc(keep, depth, f"c{ci}")
            if not info["no_error"]:
                open(os.path.join(d, "mc.out"), "w").write(out)
                raise ToolError("RewriteMC: a rewrite does not preserve the specification's denotation: " + info.get("error_text", "")[:2000])
        states += info["distinct"]; transitions += info["generated"]
        rewritten += replay_lines(out)
    # depth 2 compositions on the hand-written bases also in quick
    if tier == "quick":
        out, info = run_mc(hand_bases()[:6], 2, "deep")
        if not info["no_error"]:
            raise ToolError("RewriteMC (depth 2): " + info.get("error_text", "")[:2000])
        states += info["distinct"]; transitions += info["generated"]
        rw2 = replay_lines(out)
        rewritten += rnd.sample(rw2, min(len(rw2), 1200))
    progs = []
    nreordered = 0
    for i, r in enumerate(rewritten):
        progs.append({"id": f"w{i}", "decl": True, "decls": r["decls"], "steps": r["steps"]})
        if r.get("reordered"):
            # the specification itself (which transcribes the resolver's `this.*` rule) says this rewrite returns the
            # columns in another order: the property is broken by design of that rule, not by this one program
            nreordered += 1
            if nreordered <= 40:
                rep.violation({"property": "C06", "kind": "column-order", "base": r["base"], "program": progs[-1],
                               "note": "RewriteMC: Denote(rewritten) equals Denote(base) only up to the order of the columns"},
                              {"what": "rewrite-column-order", "decls": len(r["decls"])})
    res = l1check.run(rep, "C06-rw", progs, dbset, {"rows", "order", "frame", "ExecError", "Panic", "rejected-wellformed"},
                      reduce_cap=60 if tier == "quick" else 400)
    st = l1.selftest(os.path.join(ROOT, "corpus", "dbs_quick.json"))
    kinds = {}
    for p in progs:
        for dd in p["decls"]:
            key = dd["kind"] + ":" + (dd.get("surface") or "") + (":module" if dd.get("module") else "")
            kinds[key] = kinds.get(key, 0) + 1
    samples = []
    for p in progs[:2] + progs[-2:]:
        sd = res["side"].get(p["id"], {})
        samples.append({"prql": sd.get("src", "").split("}\n", 1)[-1], "sql": sd.get("sql")})
    ocov, on = open_family(rep, d, tier)
    cov = {**ocov, "states": states, "transitions": transitions,
           "traces_validated_against_impl": res0["accepted"] + res0["rejected"] + res["accepted"] + res["rejected"] + on, "samples": samples,
           "exhaustive": True,
           "explanation": f"RewriteMC: {len(good_bases)} base programs x every applicable rewrite (name a prefix with let / into / module member, extract a function: positional, piped, named-with-default; split a conjunctive filter; insert filter true / select-all / repeated sort; move a declaration into a module), depth {depth} (depth 2 on the hand-written bases); TLC checked Denote(rewritten) = Denote(base) on every instance for all {states} states; the {len(progs)} rewritten programs were compiled, executed and validated by PrqlTrace against that denotation",
           "bases": len(good_bases), "rewritten_programs": len(progs), "declaration_kinds": kinds,
           "rejections_by_kind": res["by_what"], "selftest": st}
    return rep.finish("model_checking", cov, l1props.ASSUME + ["a rewritten program is validated against its own denotation, which TLC has shown equal to the base program's"])
