----------------------------- MODULE SortInfer -----------------------------
(* L2, Part E - sort inference (prqlc/src/sql/pq/postprocess.rs::infer_sorts). *)
(*                                                                          *)
(* After the pipeline has been cut into CTEs, sorts are not emitted where   *)
(* the user wrote them: the pass carries "the sorting in effect" through    *)
(* each atomic pipeline and from CTE to CTE, and materialises it only in    *)
(* front of a Take / DISTINCT ON and at the end of the main relation.       *)
(*                                                                          *)
(* Machine  SortingInference transcribed: Steps = fold_sql_transforms (one  *)
(*          case per SqlTransform), FoldPipe (the SELECT of a CTE is        *)
(*          extended by the sort columns), InferQuery = fold_sql_query.     *)
(* Meaning  what C03 says about the same query, independent of the pass:    *)
(*          the order established by the most recent sort still in effect;  *)
(*          select / derive / filter / take and the left input of an inner  *)
(*          or left join retain it, group (DISTINCT, DISTINCT ON),          *)
(*          aggregate and append reset it; the order of a relation is the   *)
(*          order of the CTE it reads ("however many sub-queries").         *)
(* Verdict  the sorts of a post-processed query against the Meaning: every  *)
(*          Take is preceded by a Sort that begins with the order in effect *)
(*          there, the main relation ends with one, and every sort key is a *)
(*          column of a relation instance of that SELECT which the CTE it   *)
(*          reads really selects.                                           *)
(*                                                                          *)
(* SortMC runs the Machine on every query of a bounded alphabet and checks  *)
(* Verdict = "ok"; SortTrace evaluates Verdict on the queries the real      *)
(* compiler post-processed (hook `postprocess`) and compares the real       *)
(* result with the Machine's (DRIFT).                                       *)
EXTENDS Integers, Sequences, FiniteSets, TLC

\* TRUE: as repaired in /repo (finding F113: every instance of a CTE gets the redirect of a column added to its SELECT)
CONSTANT RepairedSI
\* "none": the pass as it is.  The other values are deliberate mistakes (the kind seeded changes made) that the bounded
\* models must refute - run as anti-vacuity tests: "join-clears" (a join forgets the order of its left input),
\* "take-prefers-inherited" (a take orders by the sorting inherited from the CTE although it has a sort of its own),
\* "distinct-keeps" (DISTINCT keeps the sorting, so the CTE's SELECT DISTINCT gets the sort column added)
CONSTANT Mutant

\* one record shape for all transforms of a compiled PQ pipeline
\*   k    : "Select" "From" "Join" "Sort" "Take" "Aggregate" "Distinct" "DistinctOn" "Union" "Other"
\*   keys : Sort keys / the rq::Take.sort embedded in a Take: sequence of [col, desc]
\*   part : partition of a Take / DistinctOn
\*   cols : Select list
\*   src  : tid of the CTE a From / Join reads (-1: a sub-query or something that is not a CTE)
\*   riid : relation instance of a From / Join
\*   side : join side
\*   sub  : the pipeline of a From that is a sub-query (else <<>>)
P(k) == [k |-> k, keys |-> <<>>, part |-> <<>>, cols |-> <<>>, src |-> -1, riid |-> -1, side |-> "", sub |-> <<>>]
Key(c, d) == [col |-> c, desc |-> d]
SetOf(s) == { s[i] : i \in 1 .. Len(s) }
IsPrefixOf(a, b) == Len(a) <= Len(b) /\ \A i \in 1 .. Len(a) : a[i] = b[i]

\* redirects: set of [riid, src, tgt] (RelationInstance.cid_redirects of every instance)
Redirect(c, riid, R) == IF \E r \in R : r.riid = riid /\ r.src = c THEN (CHOOSE r \in R : r.riid = riid /\ r.src = c).tgt ELSE c
Rd(keys, riid, R) == [i \in 1 .. Len(keys) |-> [keys[i] EXCEPT !.col = Redirect(keys[i].col, riid, R)]]

\* ======================================================================
\* the Machine
\* ======================================================================
\* env = [ctes : tid -> [sorting, do], main : BOOLEAN, R : redirects]
\* s   = [sorting, do, out]    (do = last_sorting_from_distinct_on)
RECURSIVE FoldPipe(_, _)
RECURSIVE Steps(_, _, _)
Steps(ts, s, env) ==
  IF ts = <<>> THEN s
  ELSE LET t == Head(ts) IN
    Steps(Tail(ts),
      CASE t.k = "From" ->
             LET inner == IF t.sub # <<>> THEN FoldPipe(t.sub, env) ELSE [out |-> <<>>, sorting |-> <<>>, do |-> FALSE]
                 base == IF t.sub # <<>> THEN [sorting |-> inner.sorting, do |-> inner.do]
                         ELSE IF t.src \in DOMAIN env.ctes THEN env.ctes[t.src]
                         ELSE [sorting |-> <<>>, do |-> FALSE]
             IN [sorting |-> Rd(base.sorting, t.riid, env.R), do |-> base.do,
                 out |-> Append(s.out, IF t.sub # <<>> THEN [t EXCEPT !.sub = inner.out] ELSE t)]
        \* just store the sorting, do not emit the Sort
        [] t.k = "Sort" -> [s EXCEPT !.sorting = t.keys, !.do = FALSE]
        [] t.k = "Distinct" /\ Mutant = "distinct-keeps" -> [s EXCEPT !.do = TRUE, !.out = Append(s.out, t)]
        [] t.k \in {"Distinct", "Aggregate"} -> [sorting |-> <<>>, do |-> FALSE, out |-> Append(s.out, t)]
        \* a sorting that only selected the row of a DISTINCT ON does not pass a join
        [] t.k = "Join" -> IF s.do \/ Mutant = "join-clears" THEN [sorting |-> <<>>, do |-> FALSE, out |-> Append(s.out, t)]
                           ELSE [s EXCEPT !.out = Append(s.out, t)]
        \* emit the Sort in front of the Take: the sort embedded by the lowering if there is one
        [] t.k = "Take" -> LET e == IF Mutant = "take-prefers-inherited" /\ s.sorting # <<>> THEN s.sorting
                                     ELSE IF t.part = <<>> /\ t.keys # <<>> THEN t.keys ELSE s.sorting
                           IN [s EXCEPT !.out = s.out \o << [P("Sort") EXCEPT !.keys = e], t >>]
        [] t.k = "DistinctOn" -> [s EXCEPT !.do = TRUE, !.out = s.out \o << [P("Sort") EXCEPT !.keys = s.sorting], t >>]
        [] OTHER -> [s EXCEPT !.out = Append(s.out, t)],
      env)

\* the SELECT of a CTE must produce the columns its sorting names
RECURSIVE AddCols(_, _)
AddCols(cols, keys) == IF keys = <<>> THEN cols
                       ELSE AddCols(IF Head(keys).col \in SetOf(cols) THEN cols ELSE Append(cols, Head(keys).col), Tail(keys))
FirstSelect(p) == IF \E i \in 1 .. Len(p) : p[i].k = "Select" THEN CHOOSE i \in 1 .. Len(p) : p[i].k = "Select" /\ \A j \in 1 .. i - 1 : p[j].k # "Select" ELSE 0
ExtendSelect(p, keys) == LET i == FirstSelect(p) IN IF i = 0 THEN p ELSE [p EXCEPT ![i].cols = AddCols(p[i].cols, keys)]

FoldPipe(ts, env) ==
  LET s == Steps(ts, [sorting |-> <<>>, do |-> FALSE, out |-> <<>>], env)
  IN [out |-> IF env.main THEN s.out ELSE ExtendSelect(s.out, s.sorting), sorting |-> s.sorting, do |-> s.do]

\* a query: [ctes : Seq([tid, pipes]), main : pipeline]; pipes = <<pipeline>> (normal), <<initial, step>> (loop),
\* <<>> (a literal, an s-string, an operator: nothing to fold)
RECURSIVE FoldPipes(_, _, _)
FoldPipes(pipes, env, acc) ==      \* acc = [outs, sorting, do]
  IF pipes = <<>> THEN acc
  ELSE LET r == FoldPipe(Head(pipes), env)
       IN FoldPipes(Tail(pipes), env, [outs |-> Append(acc.outs, r.out), sorting |-> r.sorting, do |-> r.do])
\* the SELECT list of a CTE that is one atomic pipeline (find_last_select_for_cte)
SelCols(pipes) == IF Len(pipes) # 1 \/ FirstSelect(pipes[1]) = 0 THEN <<>> ELSE pipes[1][FirstSelect(pipes[1])].cols
\* the id the model gives the i-th column added to instance x (the code: ctx.anchor.cid.gen())
FreshCid(x, i) == x * 10 + 5 + i
\* insts : tid -> relation instances that read the CTE (empty function: the redirects are all in R already - trace mode)
\* pick  : tid -> the one instance the code as found registers the new columns with (the first in a HashMap)
RECURSIVE FoldCtes(_, _, _, _, _)
FoldCtes(ctes, env, outs, insts, pick) ==
  IF ctes = <<>> THEN [env |-> env, outs |-> outs]
  ELSE LET c == Head(ctes)
           r == FoldPipes(c.pipes, env, [outs |-> <<>>, sorting |-> <<>>, do |-> FALSE])
           here == [sorting |-> r.sorting, do |-> r.do]
           selB == SelCols(c.pipes)
           selA == SelCols(r.outs)
           newcols == SelectSeq(selA, LAMBDA x : x \notin SetOf(selB))
           targets == IF c.tid \notin DOMAIN insts \/ insts[c.tid] = {} THEN {}
                      ELSE IF RepairedSI THEN insts[c.tid] ELSE {pick[c.tid]}
           newR == { [riid |-> x, src |-> newcols[i], tgt |-> FreshCid(x, i)] : x \in targets, i \in 1 .. Len(newcols) }
       IN FoldCtes(Tail(ctes),
                   [env EXCEPT !.ctes = [t \in DOMAIN env.ctes \cup {c.tid} |-> IF t = c.tid THEN here ELSE env.ctes[t]],
                               !.R = env.R \cup newR],
                   Append(outs, [tid |-> c.tid, pipes |-> r.outs]), insts, pick)
EmptyFn == [x \in {} |-> 0]
InferQueryX(q, R, insts, pick) ==
  LET c == FoldCtes(q.ctes, [ctes |-> EmptyFn, main |-> FALSE, R |-> R], <<>>, insts, pick)
      m == FoldPipe(q.main, [c.env EXCEPT !.main = TRUE])
  IN [ctes |-> c.outs, main |-> Append(m.out, [P("Sort") EXCEPT !.keys = m.sorting]), final |-> m.sorting, R |-> c.env.R]
InferQuery(q, R) == InferQueryX(q, R, EmptyFn, EmptyFn)

\* ======================================================================
\* the Meaning (C03 read on the compiled query), in canonical columns
\* ======================================================================
\* canonical column: follow redirects back to the column of the CTE, aliases (a Compute that is a bare reference) to
\* the column they name.  A = set of [id, ref].
RECURSIVE Canon(_, _, _, _)
Canon(c, R, A, fuel) ==
  IF fuel = 0 THEN c
  ELSE IF \E r \in R : r.tgt = c /\ r.src # c THEN Canon((CHOOSE r \in R : r.tgt = c /\ r.src # c).src, R, A, fuel - 1)
  ELSE IF \E a \in A : a.id = c /\ a.ref # c THEN Canon((CHOOSE a \in A : a.id = c /\ a.ref # c).ref, R, A, fuel - 1)
  ELSE c
CanonKeys(keys, R, A) == [i \in 1 .. Len(keys) |-> [keys[i] EXCEPT !.col = Canon(keys[i].col, R, A, 24)]]

\* menv = [ctes : tid -> order, R, A]; result [ord, takes : orders in effect at the Takes, dons : inner sorts of the
\* DISTINCT ONs, in pipeline order]
RECURSIVE MeanPipe(_, _)
RECURSIVE MeanSteps(_, _, _)
MeanSteps(ts, m, menv) ==
  IF ts = <<>> THEN m
  ELSE LET t == Head(ts) IN
    MeanSteps(Tail(ts),
      CASE t.k = "From" -> [m EXCEPT !.ord = IF t.sub # <<>> THEN MeanPipe(t.sub, menv).ord
                                             ELSE IF t.src \in DOMAIN menv.ctes THEN menv.ctes[t.src] ELSE <<>>,
                                     !.prevsort = <<>>, !.expl = FALSE, !.reset = FALSE]
        [] t.k = "Sort" -> [m EXCEPT !.ord = CanonKeys(t.keys, menv.R, menv.A), !.prevsort = CanonKeys(t.keys, menv.R, menv.A), !.expl = TRUE, !.reset = FALSE]
        \* group and aggregate reset the order; so does append; what order a right / full join leaves is not said
        [] t.k \in {"Aggregate", "Distinct", "Union"} -> [m EXCEPT !.ord = <<>>, !.prevsort = <<>>, !.expl = FALSE, !.reset = TRUE]
        [] t.k = "DistinctOn" -> [m EXCEPT !.ord = <<>>, !.dons = Append(m.dons, m.prevsort), !.prevsort = <<>>, !.expl = FALSE, !.reset = TRUE]
        [] t.k = "Join" -> [m EXCEPT !.ord = IF t.side \in {"Inner", "Left"} THEN m.ord ELSE <<>>, !.prevsort = <<>>,
                                     !.expl = IF t.side \in {"Inner", "Left"} THEN m.expl ELSE FALSE]
        \* a Sort of this SELECT that is still in effect is the order at the take.  Without one, the sort the lowering embedded
        \* in an un-partitioned take is the order in effect as the resolver saw it (the flattener drops the stand-alone Sort
        \* when a group follows: then only the takes carry it) and goes before an order inherited from the CTE.  (With a
        \* Sort of this SELECT in effect a different embedded sort is stale or leaked - findings F33, F47, F56 - and not
        \* what the statement is ordered by.)  The order in effect afterwards stays what the query itself establishes.
        \* After an aggregate / de-duplication / union of this SELECT the order is reset: a sort still embedded in a later take
        \* dates from before the reset (sort a | aggregate .. | take 3: F33's stale sort) and is not the order in effect.
        [] t.k = "Take" -> LET o == IF ~m.expl /\ ~m.reset /\ t.part = <<>> /\ t.keys # <<>> THEN CanonKeys(t.keys, menv.R, menv.A) ELSE m.ord
                           IN [m EXCEPT !.takes = Append(m.takes, o), !.prevsort = <<>>]
        [] OTHER -> [m EXCEPT !.prevsort = <<>>],
      menv)
MeanPipe(ts, menv) == MeanSteps(ts, [ord |-> <<>>, takes |-> <<>>, dons |-> <<>>, prevsort |-> <<>>, expl |-> FALSE, reset |-> FALSE], menv)

RECURSIVE MeanCtes(_, _)
MeanCtes(ctes, menv) ==
  IF ctes = <<>> THEN menv
  ELSE LET c == Head(ctes)
           o == IF c.pipes = <<>> THEN <<>> ELSE MeanPipe(c.pipes[Len(c.pipes)], menv).ord
       IN MeanCtes(Tail(ctes), [menv EXCEPT !.ctes = [t \in DOMAIN menv.ctes \cup {c.tid} |-> IF t = c.tid THEN o ELSE menv.ctes[t]]])
\* the environment in which pipeline number n of the query is read (n = Len(ctes) + 1: the main relation)
MeanEnv(q, R, A, n) == MeanCtes(SubSeq(q.ctes, 1, n - 1), [ctes |-> EmptyFn, R |-> R, A |-> A])

\* ======================================================================
\* Verdict: the post-processed pipeline `a` of the query against the Meaning of the pipeline `b` it was made from
\* ======================================================================
\* One SELECT has one ORDER BY: the statement is ordered by the LAST Sort of its atomic pipeline (gen_query), and every
\* LIMIT and DISTINCT ON of that SELECT selects rows in that order (the anchor cuts the pipeline wherever two different
\* orders would be needed: Backend.tla, BadPair).
\* (A set operation closes the SELECT of what stands before it: the sorts and takes in front of a Union belong to the
\* left operand, which gets its own ORDER BY / LIMIT.)
SegOf(a, j) == { i \in 1 .. Len(a) : /\ \A u \in 1 .. Len(a) : a[u].k = "Union" => ~(i < u /\ u < j) /\ ~(j < u /\ u < i)
                                     /\ (a[i].k = "Union" => FALSE) }
SortsIn(a, S) == { i \in S : a[i].k = "Sort" }
EffSortAt(a, j) == LET ss == SortsIn(a, SegOf(a, j)) IN IF ss = {} THEN <<>> ELSE a[CHOOSE i \in ss : \A x \in ss : x <= i].keys
EffSort(a) == IF a = <<>> THEN <<>> ELSE EffSortAt(a, Len(a))
NthOf(S, n) == CHOOSE j \in S : Cardinality({ i \in S : i < j }) = n - 1
Where(a, k) == { j \in 1 .. Len(a) : a[j].k = k }
Count(a, k) == Cardinality({ j \in 1 .. Len(a) : a[j].k = k })
PipeOrderVerdict(b, a, menv, isMain) ==
  LET m == MeanPipe(b, menv)
      eff == CanonKeys(EffSort(a), menv.R, menv.A)
      selOf(p) == IF FirstSelect(p) = 0 THEN <<>> ELSE p[FirstSelect(p)].cols
  IN IF Count(a, "Take") # Len(m.takes) \/ Count(a, "DistinctOn") # Len(m.dons) THEN "transform-lost"
     \* SELECT DISTINCT de-duplicates its select list: a column added to carry a sort would split the groups
     ELSE IF Count(a, "Distinct") > 0 /\ selOf(a) # selOf(b) THEN "distinct-select-extended"
     ELSE IF \E n \in 1 .. Len(m.takes) : ~IsPrefixOf(m.takes[n], CanonKeys(EffSortAt(a, NthOf(Where(a, "Take"), n)), menv.R, menv.A)) THEN "take-order"
     ELSE IF \E n \in 1 .. Len(m.dons) : ~IsPrefixOf(m.dons[n], CanonKeys(EffSortAt(a, NthOf(Where(a, "DistinctOn"), n)), menv.R, menv.A)) THEN "distinct-on-order"
     ELSE IF isMain /\ ~IsPrefixOf(m.ord, eff) THEN "final-order"
     ELSE "ok"

\* scope of the emitted sorts.  D = set of [cid, riid] for the columns that are columns of a relation instance
\* (ColumnDecl::RelationColumn); sel(tid) = the SELECT list of CTE tid after the pass
Instances(a) == { [riid |-> a[i].riid, src |-> a[i].src] : i \in { i \in 1 .. Len(a) : a[i].k \in {"From", "Join"} } }
KeyScope(c, a, R, A, D, sel, selB) ==
  IF ~(\E d \in D : d.cid = c) THEN "ok"                        \* a Compute: where it is materialised is the anchor's business
  ELSE LET riid == (CHOOSE d \in D : d.cid = c).riid IN
       IF ~(\E x \in Instances(a) : x.riid = riid) THEN
            \* a column of an instance further down, which a CTE this SELECT reads hands up (a column of the same origin is
            \* in its SELECT list): the order of a let-bound relation, and the sort embedded in a Take that has moved two
            \* CTEs up, are carried under the inner column's identity and reach the statement by the column's name
            \* (whether that name binds there is judged on the statement text: SqlScope.tla); anything else cannot be named
            \* here at all - but a column the pass itself added to the CTE's SELECT has a redirect for every instance that
            \* reads the CTE
            IF \E x \in Instances(a) : x.src \in DOMAIN sel /\ \E i \in 1 .. Len(sel[x.src]) : Canon(sel[x.src][i], R, A, 24) = Canon(c, R, A, 24)
            THEN (IF \E x \in Instances(a) : x.src \in DOMAIN sel /\ c \in SetOf(sel[x.src]) /\ c \notin SetOf(selB[x.src])
                  THEN "sort-not-redirected" ELSE "ok")
            ELSE "sort-out-of-scope"
       ELSE LET src == (CHOOSE x \in Instances(a) : x.riid = riid).src IN
            IF src \notin DOMAIN sel THEN "ok"
            ELSE IF c \in SetOf(sel[src]) \/ (\E r \in R : r.riid = riid /\ r.tgt = c /\ r.src \in SetOf(sel[src])) THEN "ok"
            ELSE IF \E r \in R : r.riid = riid /\ r.tgt = c THEN "sort-not-carried"
            ELSE "ok"                                          \* a column of a table that is not a CTE of this query
PipeScopeVerdict(a, isMain, R, A, D, sel, selB) ==
  LET e == EffSort(a)
      bad == { i \in 1 .. Len(e) : KeyScope(e[i].col, a, R, A, D, sel, selB) # "ok" }
  IN IF bad = {} THEN "ok" ELSE KeyScope(e[CHOOSE i \in bad : TRUE].col, a, R, A, D, sel, selB)

\* the columns a CTE produces, under the identities its readers may know them by: the SELECT list of its pipeline
\* (a loop: of its initial and of its step pipeline - the instances that read it are redirected from the initial one)
RECURSIVE CatSel(_)
CatSel(pipes) == IF pipes = <<>> THEN <<>>
                 ELSE (IF FirstSelect(Head(pipes)) = 0 THEN <<>> ELSE Head(pipes)[FirstSelect(Head(pipes))].cols) \o CatSel(Tail(pipes))
SelOf(ctes) == [t \in { ctes[i].tid : i \in 1 .. Len(ctes) } |-> CatSel(ctes[CHOOSE i \in 1 .. Len(ctes) : ctes[i].tid = t].pipes)]

\* all pipelines of the query, numbered: <<n, k, pipeline>> (CTE n, its k-th pipeline), the main relation last
PipesOf(q) == LET nc == Len(q.ctes) IN
  { <<n, k>> \in (1 .. nc) \X (1 .. 2) : k <= Len(q.ctes[n].pipes) } \cup { <<nc + 1, 1>> }
PipeAt(q, p) == IF p[1] = Len(q.ctes) + 1 THEN q.main ELSE q.ctes[p[1]].pipes[p[2]]
\* before / after: the query before and after the pass
QueryVerdicts(before, after, R, A, D) ==
  LET sel == SelOf(after.ctes) selB == SelOf(before.ctes) IN
  { <<p, v>> \in PipesOf(before) \X {"transform-lost", "distinct-select-extended", "take-order", "distinct-on-order", "final-order", "sort-out-of-scope", "sort-not-carried", "sort-not-redirected", "shape"} :
      IF Len(after.ctes) # Len(before.ctes) \/ p \notin PipesOf(after) THEN v = "shape"
      ELSE LET isMain == p[1] = Len(before.ctes) + 1
               o == PipeOrderVerdict(PipeAt(before, p), PipeAt(after, p), MeanEnv(before, R, A, p[1]), isMain)
               s == PipeScopeVerdict(PipeAt(after, p), isMain, R, A, D, sel, selB)
           IN v = o \/ v = s }
QueryVerdict(before, after, R, A, D) ==
  LET vs == QueryVerdicts(before, after, R, A, D) IN IF vs = {} THEN "ok" ELSE (CHOOSE x \in vs : TRUE)[2]

\* ======================================================================
\* conformance: does the code's result equal the Machine's (up to the identity of generated columns)?
\* ======================================================================
RECURSIVE Shape(_, _, _)
Shape(p, R, A) == [i \in 1 .. Len(p) |->
    IF p[i].k = "Sort" THEN <<"Sort", CanonKeys(p[i].keys, R, A)>>
    ELSE IF p[i].k = "Select" THEN <<"Select", { Canon(p[i].cols[j], R, A, 24) : j \in 1 .. Len(p[i].cols) }>>
    ELSE IF p[i].k = "From" /\ p[i].sub # <<>> THEN <<"From", Shape(p[i].sub, R, A)>>
    ELSE <<p[i].k, 0>>]
DriftAt(before, after, R, A) ==
  LET m == InferQuery(before, R) IN
  { p \in PipesOf(before) :
      \/ p \notin PipesOf(after) \/ p \notin PipesOf(m)
      \/ Shape(PipeAt(m, p), R, A) # Shape(PipeAt(after, p), R, A) }
=============================================================================
