"""bin/check <id> --replay <file>: re-run the program of a replay file through the same path and
print the verdict of the specification."""
import json, os, sys
from vlib import *
import l1

def scope_replay(pid, path, v):
    """C07 / C05 dialect frames: recompile the program for the dialect and re-run the scope monitor"""
    import scoperun
    d = workdir("replay-scope")
    TU = {"t": ["k", "a", "b"], "u": ["k", "a", "c"]}
    src = {"id": "replay", "src": v["prql"]}
    if re.search(r"\bfrom (t|u)\b", v["prql"]) or "let t <" in v["prql"]:
        src["schema"] = TU
    expect = None
    if v.get("kind") == "dialect-frame":
        src["id"] = "replay" + ("o" if str(v.get("program", {}).get("id", "")).endswith("o") else "")
        expect = {src["id"]: v["expected_frame"]}
    sr = scoperun.run(d, [src], dialects=v.get("dialect", "all"), expect=expect, nsh=1)
    want = "frame" if v.get("kind") == "dialect-frame" else None
    rj = [r for r in sr["rejects"] if (want is None) == (r["verdict"] != "frame")]
    for r in rj:
        print("rejected:", r["dialect"], r["verdict"], r["detail"]); print("  SQL:", r["rec"].get("sql"))
    if rj:
        print(f"VIOLATION property={pid} replay={path}"); return 1
    print("accepted"); return 0

def purity_replay(pid, path, v):
    """C11: the input again, from several fresh processes and threads; every API must give one artefact"""
    d = workdir("replay-purity")
    ip = os.path.join(d, "in.json"); json.dump([{"id": "replay", "src": v["prql"], "dialect": None}], open(ip, "w"))
    outs = {}
    for k in range(8):
        op = os.path.join(d, f"o{k}.ndjson")
        pv(["purity", ip, op, "4" if k == 0 else "1", "2", "1" if k == 0 else "0", "replay"])
        for e in read_ndjson(op):
            if e.get("event") == "Result":
                outs.setdefault(e["input"], set()).add(e.get("text", ""))
    bad = {k: sorted(x) for k, x in outs.items() if len(x) > 1}
    for k, x in bad.items():
        print("differs:", k); [print("   ", t[:300]) for t in x]
    if bad:
        print(f"VIOLATION property={pid} replay={path}"); return 1
    print("one artefact per API over 8 processes"); return 0

def main(pid, path):
    import re as _re
    globals()["re"] = _re
    v = json.load(open(path))
    if pid == "C07" or v.get("kind") == "dialect-frame":
        return scope_replay(pid, path, v)
    if pid == "C11" and v.get("prql") and not v["prql"].startswith("[["):
        return purity_replay(pid, path, v)
    if "program" not in v:
        print(json.dumps(v, indent=1)[:3000])
        print("this replay file names the failing input (fields above); re-run `bin/check %s quick` to have it judged again in context" % pid); return 2
    dbset = os.path.join(ROOT, v.get("dbset", "corpus/dbs_quick.json"))
    progs = [v["program"]]
    if v.get("reduced"):
        r = dict(v["reduced"]["program"]); r["id"] = "reduced"; progs.append(r)
    res = l1.run_and_validate("replay", progs, dbset, target=v.get("target", "sqlite"))
    for p in progs:
        s = res["side"].get(p["id"], {})
        print("----", p["id"]); print(s.get("src")); print("SQL:", s.get("sql")); print("names:", s.get("names"), "error:", s.get("exec_error") or s.get("error") or s.get("panic"))
    rej = [(a, b) for a, b, _ in res["rejects"]]
    print("rejected by PrqlTrace:", rej)
    if rej:
        print(f"VIOLATION property={pid} replay={path}")
        return 1
    print("accepted"); return 0
