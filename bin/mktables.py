#!/usr/bin/env python3
"""Regenerates the generated tables of DESIGN.md (between BEGIN/END markers) from evidence/, known_findings.json,
MANIFEST.json and seeded/*/meta.json."""
import json, os, glob, re, subprocess
ROOT = os.path.dirname(os.path.dirname(os.path.abspath(__file__)))
def put(s, name, body):
    a, b = f"<!-- BEGIN:{name} -->", f"<!-- END:{name} -->"
    i, j = s.index(a) + len(a), s.index(b)
    return s[:i] + "\n" + body.rstrip() + "\n" + s[j:]
def esc(t): return str(t).replace("|", "\\|").replace("\n", " ")
man = json.load(open(os.path.join(ROOT, "MANIFEST.json")))
tech = {c["property_id"]: c for c in man["checks"]}
rows = ["| id | level | deciding specification (technique) | quick tier on the unchanged tree: model states / traces or statements validated against the code / wall | known findings met |", "|---|---|---|---|---|"]
for f in sorted(glob.glob(os.path.join(ROOT, "evidence", "C*.json"))):
    e = json.load(open(f)); c = e["coverage"]; pid = e["property_id"]
    if e.get("tier") != "quick":
        continue
    t = tech.get(pid, {}).get("technique", "")
    mods = sorted(set(re.findall(r"\b([A-Z][A-Za-z]+(?:MC|Trace)?)\.tla|\(([A-Z][A-Za-z]+)(?:,|\))", t)))
    rows.append(f"| {pid} | {e['level']} | {esc(t[:330])}{'…' if len(t) > 330 else ''} | {c.get('states', '–')} / {c.get('traces_validated_against_impl', '–')} / {e['wall_s']} s | {', '.join(sorted(e['known_findings_seen'])) or '–'} |")
s = open(os.path.join(ROOT, "DESIGN.md")).read()
s = put(s, "evidence", "\n".join(rows))
kf = json.load(open(os.path.join(ROOT, "known_findings.json")))["findings"]
def num(f): return int(re.sub(r"\D", "", f["id"]) or 0)
fx = ["**Repaired in `/repo`** (`fix:` commits):", "", "| id | properties | commit | what failed |", "|---|---|---|---|"]
for f in sorted([f for f in kf if f["status"] == "fixed"], key=num):
    fx.append(f"| {f['id']} | {' '.join(f['properties'])} | `{f.get('commit', '')}` | {esc(f['what'])} |")
kn = ["", "**Recorded as known findings** (reported as `KNOWN-FINDING`, exit 0; matched by the signature in `known_findings.json`; not repaired because the repair is not small, touches design decisions of the compiler, or needs an engine that is not in the sandbox to validate):", "",
      "| id | properties | what fails (specific input / call site) |", "|---|---|---|"]
for f in sorted([f for f in kf if f["status"] == "known"], key=num):
    kn.append(f"| {f['id']} | {' '.join(f['properties'])} | {esc(f['what'])} |")
s = put(s, "findings", "\n".join(fx + kn))
sd = ["| change | property | file touched | suite passes / demo fails only with the change | detected by its quick check |", "|---|---|---|---|---|"]
for f in sorted(glob.glob(os.path.join(ROOT, "seeded", "*", "meta.json"))):
    m = json.load(open(f)); d = os.path.dirname(f)
    files = sorted(set(re.findall(r"^\+\+\+ b/(\S+)", open(os.path.join(d, "patch.diff")).read(), re.M)))
    det = m.get("detected_by", {})
    dt = "; ".join(f"{k}: {'yes' if v['detected'] else 'NO'} ({v['violation_lines']} lines)" for k, v in sorted(det.items())) or "not run yet"
    sd.append(f"| {m['id']} | {m['property']} | {', '.join(x.replace('prqlc/prqlc/src/', '').replace('prqlc/prqlc-parser/src/', 'parser:') for x in files)} | {'yes' if m['suite_passes'] else 'NO'} / {'yes' if m['confirmed'] else 'NO'} | {dt} |")
s = put(s, "seeds", "\n".join(sd))
open(os.path.join(ROOT, "DESIGN.md"), "w").write(s)
print("tables written")
