SPECIFICATION Spec
CONSTANTS
  Repaired = TRUE
  MaxLen = 3
  MaxComp = 2
  Kinds = {"Filter", "Aggregate", "Sort", "Take", "Distinct", "DistinctOn", "Join", "Union", "Except", "Intersect"}
  Emit = FALSE
  Report = FALSE
INVARIANTS EmittedOk NoLoss Progress Closed
CHECK_DEADLOCK FALSE
