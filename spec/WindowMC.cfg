SPECIFICATION Spec
CONSTANTS
  Repaired = TRUE
  Max = 4
  N = 7
INVARIANTS WindowLaw ShapeLaw
CHECK_DEADLOCK FALSE
