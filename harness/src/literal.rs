//! `pv literal`: literals of LiteralMC -> PRQL spelling -> compile for every dialect; value on SQLite,
//! string tokens under each dialect's tokenizer.
use crate::api;
use serde_json::{json, Value as J};
use sqlparser::dialect::*;
use sqlparser::tokenizer::{Token, Tokenizer};
use std::io::Write;

fn dialect_of(d: &str) -> Box<dyn Dialect> {
    match d {
        "ansi" => Box::new(AnsiDialect {}),
        "bigquery" => Box::new(BigQueryDialect {}),
        "clickhouse" => Box::new(ClickHouseDialect {}),
        "duckdb" => Box::new(DuckDbDialect {}),
        "mssql" => Box::new(MsSqlDialect {}),
        "mysql" => Box::new(MySqlDialect {}),
        "postgres" | "glaredb" => Box::new(PostgreSqlDialect {}),
        "redshift" => Box::new(RedshiftSqlDialect {}),
        "sqlite" => Box::new(SQLiteDialect {}),
        "snowflake" => Box::new(SnowflakeDialect {}),
        _ => Box::new(GenericDialect {}),
    }
}

pub fn spelling(l: &J) -> String {
    let q = char::from_u32(l["q"].as_u64().unwrap_or(34) as u32).unwrap_or('"');
    let n = l["n"].as_u64().unwrap_or(1) as usize;
    let mut s = String::new();
    // "f": the same value written as an f-string without interpolations (braces are written twice)
    let fstr = l["f"] == true;
    if l["raw"] == true {
        s.push('r');
    } else if fstr {
        s.push('f');
    }
    for _ in 0..n {
        s.push(q);
    }
    for p in l["pieces"].as_array().unwrap_or(&vec![]) {
        if p["k"] == "raw" {
            let c = char::from_u32(p["c"].as_u64().unwrap_or(63) as u32).unwrap_or('?');
            s.push(c);
            if fstr && (c == '{' || c == '}') {
                s.push(c);
            }
        } else {
            s.push('\\');
            s.push_str(p["e"].as_str().unwrap_or(""));
        }
    }
    for _ in 0..n {
        s.push(q);
    }
    s
}

fn cps(s: &str) -> Vec<u32> {
    s.chars().map(|c| c as u32).collect()
}

/// token shape (kinds only) and the string tokens of a statement under dialect d
pub(crate) fn tokens(d: &str, sql: &str) -> (Vec<String>, Vec<Vec<u32>>) {
    let dia = dialect_of(d);
    match Tokenizer::new(dia.as_ref(), sql).tokenize() {
        Ok(ts) => {
            let mut shape = vec![];
            let mut strs = vec![];
            for t in ts {
                match t {
                    Token::Whitespace(_) => {}
                    Token::SingleQuotedString(s) | Token::NationalStringLiteral(s) | Token::EscapedStringLiteral(s)
                    | Token::DoubleQuotedString(s) | Token::TripleSingleQuotedString(s) | Token::TripleDoubleQuotedString(s) => {
                        shape.push("STR".to_string());
                        strs.push(cps(&s));
                    }
                    Token::Word(w) => shape.push(format!("W:{}", w.value.to_lowercase())),
                    Token::Number(n, _) => shape.push(format!("N:{n}")),
                    other => shape.push(format!("{other}")),
                }
            }
            (shape, strs)
        }
        Err(e) => (vec![format!("TOKENIZE-ERROR:{e}")], vec![]),
    }
}

/// args: <literals.ndjson> <out.ndjson>
pub fn main(args: &[String]) -> i32 {
    let mut out = std::io::BufWriter::new(std::fs::File::create(&args[1]).expect("out"));
    let conn = rusqlite::Connection::open_in_memory().expect("sqlite");
    conn.execute_batch("CREATE TABLE t (k, a, b); INSERT INTO t VALUES (1, 2, 3);").expect("schema");
    // reference shapes: the same statement with the literal 'x'
    let mut refs = std::collections::HashMap::new();
    for d in api::DIALECTS {
        if let api::Outcome::Ok(sql) = api::compile("from t | select {v = \"x\", w = 7}", Some(d)) {
            refs.insert(d.to_string(), tokens(d, &sql).0);
        }
    }
    writeln!(out, "{}", json!({"event":"Refs","shapes":refs})).unwrap();
    for (i, line) in std::fs::read_to_string(&args[0]).expect("literals").lines().enumerate() {
        if line.trim().is_empty() {
            continue;
        }
        let l: J = serde_json::from_str(line).expect("json");
        let sp = spelling(&l);
        let src = format!("from t | select {{v = {sp}, w = 7}}");
        let mut ds = vec![];
        let mut sqlite = json!({"ran": false, "v": [], "w": -1, "nrows": -1, "isnull": false, "err": ""});
        for d in api::DIALECTS {
            match api::compile(&src, Some(d)) {
                api::Outcome::Ok(sql) => {
                    let (shape, strs) = tokens(d, &sql);
                    // the same statement as the default options print it (format = true): the same tokens
                    let (fmt_same, fmt_sql) = match api::compile_formatted(&src, Some(d)) {
                        api::Outcome::Ok(fsql) => {
                            let (fshape, fstrs) = tokens(d, &fsql);
                            // a statement the dialect's tokenizer cannot read either way is the token rule's finding, not the printer's
                            let both_unreadable = |a: &Vec<String>, b: &Vec<String>| a.first().map_or(false, |x| x.starts_with("TOKENIZE-ERROR")) && b.first().map_or(false, |x| x.starts_with("TOKENIZE-ERROR"));
                            (both_unreadable(&fshape, &shape) || (fshape == shape && fstrs == strs), fsql)
                        }
                        api::Outcome::Err(e) => (false, format!("ERROR {:?}", e.inner.first().map(|m| m.reason.clone()))),
                        api::Outcome::Panic { msg, .. } => (false, format!("PANIC {msg}")),
                    };
                    ds.push(json!({"d": d, "compiled": true, "shape_ok": Some(&shape) == refs.get(d), "nstr": strs.len(),
                                   "val": strs.first().cloned().unwrap_or_default(), "sql": sql, "fmt_same": fmt_same, "fmt_sql": fmt_sql}));
                    if d == "sqlite" {
                        match crate::db::query(&conn, &sql) {
                            Ok(r) => {
                                let row = r.rows.first().cloned().unwrap_or(json!([]));
                                let v = &row[0];
                                sqlite = json!({"ran": true, "nrows": r.rows.len(), "isnull": v["k"] == "null",
                                    "v": if v["k"] == "text" { json!(cps(v["s"].as_str().unwrap_or(""))) } else { json!([]) },
                                    "istext": v["k"] == "text",
                                    "w": row[1]["n"].as_i64().unwrap_or(-1), "err": ""});
                            }
                            Err(e) => sqlite = json!({"ran": false, "v": [], "w": -1, "nrows": -1, "isnull": false, "istext": false, "err": e}),
                        }
                    }
                }
                api::Outcome::Err(e) => ds.push(json!({"d": d, "compiled": false, "shape_ok": false, "nstr": 0, "val": [], "sql": e.inner.first().map(|m| m.reason.clone()), "fmt_same": true, "fmt_sql": ""})),
                api::Outcome::Panic { msg, .. } => ds.push(json!({"d": d, "compiled": false, "shape_ok": false, "nstr": 0, "val": [], "sql": format!("PANIC {msg}"), "fmt_same": true, "fmt_sql": ""})),
            }
        }
        if sqlite.get("istext").is_none() {
            sqlite["istext"] = json!(false);
        }
        writeln!(out, "{}", json!({"event":"Lit","id":i,"lit":l,"spelling":sp,"sqlite":sqlite,"dialects":ds})).unwrap();
    }
    writeln!(out, "{}", json!({"event":"End"})).unwrap();
    0
}

// ---------------------------------------------------------------------------------------------
// numeric literals

fn digits(s: &str) -> Vec<u32> {
    s.chars().filter_map(|c| c.to_digit(10)).collect()
}

/// decimal text -> {ip, fp, ex, hasexp}; None if it is not a plain decimal number
fn parse_decimal(txt: &str) -> Option<J> {
    let t = txt.trim();
    let (mant, ex, hasexp) = match t.find(|c| c == 'e' || c == 'E') {
        Some(i) => (&t[..i], t[i + 1..].parse::<i64>().ok()?, true),
        None => (t, 0, false),
    };
    let (ip, fp) = match mant.find('.') {
        Some(i) => (&mant[..i], &mant[i + 1..]),
        None => (mant, ""),
    };
    if ip.is_empty() && fp.is_empty() {
        return None;
    }
    if !ip.chars().all(|c| c.is_ascii_digit()) || !fp.chars().all(|c| c.is_ascii_digit()) {
        return None;
    }
    let ipd = if ip.is_empty() { vec![0] } else { digits(ip) };
    Some(json!({"ip": ipd, "fp": digits(fp), "ex": ex, "hasexp": hasexp}))
}

pub fn number_spelling(l: &J) -> String {
    let ip: Vec<u64> = l["ip"].as_array().map(|a| a.iter().map(|d| d.as_u64().unwrap_or(0)).collect()).unwrap_or_default();
    let us: Vec<u64> = l["us"].as_array().map(|a| a.iter().map(|d| d.as_u64().unwrap_or(0)).collect()).unwrap_or_default();
    let mut s = String::new();
    for (i, d) in ip.iter().enumerate() {
        if i > 0 && us.contains(&(i as u64)) {
            s.push('_');
        }
        s.push_str(&d.to_string());
    }
    let fp: Vec<u64> = l["fp"].as_array().map(|a| a.iter().map(|d| d.as_u64().unwrap_or(0)).collect()).unwrap_or_default();
    if !fp.is_empty() {
        s.push('.');
        for d in fp {
            s.push_str(&d.to_string());
        }
    }
    if l["hasexp"] == true {
        s.push_str(&format!("e{}", l["ex"].as_i64().unwrap_or(0)));
    }
    s
}

/// args: <numbers.ndjson> <out.ndjson>
pub fn main_numbers(args: &[String]) -> i32 {
    let mut out = std::io::BufWriter::new(std::fs::File::create(&args[1]).expect("out"));
    let conn = rusqlite::Connection::open_in_memory().expect("sqlite");
    conn.execute_batch("CREATE TABLE t (k, a, b); INSERT INTO t VALUES (1, 2, 3);").expect("schema");
    let none = json!({"ip": [0], "fp": [], "ex": 0, "hasexp": false});
    for (i, line) in std::fs::read_to_string(&args[0]).expect("numbers").lines().enumerate() {
        if line.trim().is_empty() {
            continue;
        }
        let l: J = serde_json::from_str(line).expect("json");
        let sp = number_spelling(&l);
        let src = format!("from t | select {{v = {sp}, w = 7}}");
        let mut ds = vec![];
        let mut sqlite = json!({"ran": false, "w": -1, "nrows": -1, "exact": false, "tok": none, "text": ""});
        for d in api::DIALECTS {
            match api::compile(&src, Some(d)) {
                api::Outcome::Ok(sql) => {
                    let dia = dialect_of(d);
                    let toks = Tokenizer::new(dia.as_ref(), &sql).tokenize().unwrap_or_default();
                    // number tokens before the first AS
                    let mut nums = vec![];
                    for t in &toks {
                        match t {
                            Token::Number(n, _) => nums.push(n.clone()),
                            Token::Word(w) if w.value.eq_ignore_ascii_case("as") => break,
                            _ => {}
                        }
                    }
                    let tok = nums.first().and_then(|n| parse_decimal(n));
                    ds.push(json!({"d": d, "compiled": true, "ntok": if tok.is_some() { nums.len() } else { 0 }, "tok": tok.unwrap_or(none.clone()), "sql": sql}));
                    if d == "sqlite" {
                        if let Ok(r) = crate::db::query(&conn, &sql) {
                            let mut st = conn.prepare(&sql).unwrap();
                            let mut q = st.query([]).unwrap();
                            let mut text = String::new();
                            let mut isint = false;
                            if let Ok(Some(row)) = q.next() {
                                match row.get_ref(0) {
                                    Ok(rusqlite::types::ValueRef::Integer(v)) => { text = v.to_string(); isint = true; }
                                    Ok(rusqlite::types::ValueRef::Real(v)) => text = format!("{v:?}"),
                                    _ => {}
                                }
                            }
                            let w = r.rows.first().map(|x| x[1]["n"].as_i64().unwrap_or(-1)).unwrap_or(-1);
                            let sig: usize = l["ip"].as_array().map(|a| a.len()).unwrap_or(0) + l["fp"].as_array().map(|a| a.len()).unwrap_or(0);
                            let tok = parse_decimal(&text);
                            sqlite = json!({"ran": true, "w": w, "nrows": r.rows.len(), "exact": tok.is_some() && (isint || sig <= 15),
                                            "tok": tok.unwrap_or(none.clone()), "text": text});
                        }
                    }
                }
                api::Outcome::Err(e) => ds.push(json!({"d": d, "compiled": false, "ntok": 0, "tok": none, "sql": e.inner.first().map(|m| m.reason.clone())})),
                api::Outcome::Panic { msg, .. } => ds.push(json!({"d": d, "compiled": false, "ntok": 0, "tok": none, "sql": format!("PANIC {msg}")})),
            }
        }
        writeln!(out, "{}", json!({"event":"Num","id":i,"lit":l,"spelling":sp,"sqlite":sqlite,"dialects":ds})).unwrap();
    }
    writeln!(out, "{}", json!({"event":"End"})).unwrap();
    0
}

// ---------------------------------------------------------------------------------------------
// identifiers

/// PRQL spelling of a name: bare when it is a simple identifier that PRQL does not read as a keyword, a literal
/// or a standard-library name; in backticks otherwise
fn prql_ident(name: &str) -> String {
    const WORDS: [&str; 40] = ["let", "into", "case", "prql", "type", "module", "internal", "func", "import", "enum", "true", "false",
        "null", "select", "from", "derive", "filter", "group", "sort", "take", "join", "aggregate", "window", "append", "loop", "count",
        "sum", "min", "max", "average", "date", "text", "math", "this", "that", "std", "in", "as", "all", "any"];
    if WORDS.contains(&name) || name.contains('$') {
        format!("`{name}`")
    } else {
        crate::render::ident(name)
    }
}

/// the identifier token at the place the name was used: first word after SELECT (column / alias position: the
/// word after AS) or after FROM (table position)
fn ident_token(d: &str, sql: &str, pos: &str) -> J {
    let dia = dialect_of(d);
    let toks: Vec<Token> = Tokenizer::new(dia.as_ref(), sql).tokenize().unwrap_or_default().into_iter()
        .filter(|t| !matches!(t, Token::Whitespace(_))).collect();
    let anchor = match pos { "table" => "from", "alias" => "as", _ => "select" };
    let mut it = toks.iter();
    while let Some(t) = it.next() {
        if let Token::Word(w) = t {
            if w.quote_style.is_none() && w.value.eq_ignore_ascii_case(anchor) {
                // the next word token (for a column it may be qualified: t.name -> take the last part)
                let mut last: Option<&sqlparser::tokenizer::Word> = None;
                let mut expect_word = true;
                for t2 in it.by_ref() {
                    match t2 {
                        Token::Word(w2) if expect_word => { last = Some(w2); expect_word = false; }
                        Token::Period if !expect_word => { expect_word = true; }
                        _ => break,
                    }
                }
                return match last {
                    Some(w2) => json!({"found": true, "value": w2.value, "quoted": w2.quote_style.is_some(), "q": w2.quote_style.map(|c| c as u32).unwrap_or(0)}),
                    None => json!({"found": false, "value": "", "quoted": false, "q": 0}),
                };
            }
        }
    }
    json!({"found": false, "value": "", "quoted": false, "q": 0})
}

/// args: <names.ndjson {"s","cps","lower"}> <out.ndjson>
pub fn main_idents(args: &[String]) -> i32 {
    let mut out = std::io::BufWriter::new(std::fs::File::create(&args[1]).expect("out"));
    let mut id = 0;
    for line in std::fs::read_to_string(&args[0]).expect("names").lines() {
        if line.trim().is_empty() {
            continue;
        }
        let n: J = serde_json::from_str(line).expect("json");
        let name = n["s"].as_str().unwrap_or("");
        let pid = prql_ident(name);
        // names of standard-library members are reached as `this.<name>` (keywords.md); as a table name
        // they would need a module path, which is outside this check
        const STD: [&str; 27] = ["this", "that", "std", "select", "from", "derive", "filter", "group", "sort", "take", "join", "aggregate", "window", "append",
            "loop", "count", "sum", "min", "max", "average", "date", "text", "math", "in", "as", "all", "any"];
        let is_std = STD.contains(&name);
        for pos in ["column", "table", "alias"] {
            if is_std && pos == "table" {
                continue;
            }
            let src = match pos {
                "column" if is_std => format!("from t | select {{this.{pid}}}"),
                "column" => format!("from t | select {{{pid}}}"),
                "table" => format!("from {pid} | select {{m}}"),
                _ => format!("from t | select {{{pid} = m}}"),
            };
            let mut ds = vec![];
            let mut sqlite = json!({"ran": false, "marker": -1, "colname": "", "err": ""});
            for d in api::DIALECTS {
                match api::compile(&src, Some(d)) {
                    api::Outcome::Ok(sql) => {
                        let tok = ident_token(d, &sql, pos);
                        // the same statement as the default options print it (format = true): the same identifier token
                        let (fmt_same, fmt_sql) = match api::compile_formatted(&src, Some(d)) {
                            api::Outcome::Ok(fsql) => (ident_token(d, &fsql, pos) == tok, fsql),
                            api::Outcome::Err(e) => (false, format!("ERROR {:?}", e.inner.first().map(|m| m.reason.clone()))),
                            api::Outcome::Panic { msg, .. } => (false, format!("PANIC {msg}")),
                        };
                        ds.push(json!({"d": d, "compiled": true, "tok": tok, "sql": sql, "fmt_same": fmt_same, "fmt_sql": fmt_sql}));
                        if d == "sqlite" {
                            // objects of exactly that name hold the marker; decoys hold something else
                            let conn = rusqlite::Connection::open_in_memory().expect("sqlite");
                            let q = crate::db::qi(name);
                            let setup = match pos {
                                "column" => format!("CREATE TABLE t (k, {q}, m); INSERT INTO t VALUES (1, 4242, 7);"),
                                "table" => format!("CREATE TABLE {q} (k, m); INSERT INTO {q} VALUES (1, 4242);"),
                                _ => "CREATE TABLE t (k, m); INSERT INTO t VALUES (1, 4242);".to_string(),
                            };
                            let _ = conn.execute_batch(&setup);
                            match crate::db::query(&conn, &sql) {
                                Ok(r) => {
                                    let v = r.rows.first().map(|x| x[0]["n"].as_i64().unwrap_or(-1)).unwrap_or(-1);
                                    sqlite = json!({"ran": true, "marker": v, "colname": r.names.first().cloned().unwrap_or_default(), "err": ""});
                                }
                                Err(e) => sqlite = json!({"ran": false, "marker": -1, "colname": "", "err": e}),
                            }
                        }
                    }
                    api::Outcome::Err(e) => ds.push(json!({"d": d, "compiled": false, "tok": {"found": false, "value": "", "quoted": false, "q": 0}, "sql": e.inner.first().map(|m| m.reason.clone()), "fmt_same": true, "fmt_sql": ""})),
                    api::Outcome::Panic { msg, .. } => ds.push(json!({"d": d, "compiled": false, "tok": {"found": false, "value": "", "quoted": false, "q": 0}, "sql": format!("PANIC {msg}"), "fmt_same": true, "fmt_sql": ""})),
                }
            }
            writeln!(out, "{}", json!({"event":"Ident","id":id,"name":n,"pos":pos,"src":src,"sqlite":sqlite,"dialects":ds})).unwrap();
            id += 1;
        }
    }
    writeln!(out, "{}", json!({"event":"End"})).unwrap();
    0
}
