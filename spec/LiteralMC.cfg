SPECIFICATION Spec
INVARIANT AnsiRoundTrip
INVARIANT BackslashRoundTripIffNoBackslash
INVARIANT Emit2
CHECK_DEADLOCK FALSE
