----------------------------- MODULE LexGenMC -----------------------------
(* The property C17 states, checked on the generative lexer specification  *)
(* itself for every string up to a length over an alphabet: the tokens of  *)
(* an accepted source tile it (ordered, disjoint, only blanks between and  *)
(* after them) and every token's slice, lexed alone, is that one token.    *)
(* Over the lexical alphabet of C17 both hold; over an alphabet that can   *)
(* spell a keyword next to a character that cannot end an expression the   *)
(* second fails (finding F43, which the specification transcribes).        *)
EXTENDS LexGen
CONSTANTS Alphabet, MaxLen
VARIABLE s
Init == s = <<>>
Next == Len(s) < MaxLen /\ \E c \in Alphabet : s' = Append(s, c)
Spec == Init /\ [][Next]_s

Gap(a, b) == \A i \in a .. b - 1 : s[i] \in Blank
ModelTiles ==
  LET m == Lex(s) IN
  m.ok => /\ \A i \in 1 .. Len(m.toks) : m.toks[i].s < m.toks[i].e /\ m.toks[i].e <= Len(s) + 1
          /\ \A i \in 1 .. Len(m.toks) : Gap(IF i = 1 THEN 1 ELSE m.toks[i - 1].e, m.toks[i].s)
          /\ Gap(IF m.toks = <<>> THEN 1 ELSE m.toks[Len(m.toks)].e, Len(s) + 1)
ModelRelex ==
  LET m == Lex(s) IN
  m.ok => \A i \in 1 .. Len(m.toks) :
            LET r == Lex(SubSeq(s, m.toks[i].s, m.toks[i].e - 1))
            IN r.ok /\ Len(r.toks) = 1 /\ r.toks[1].k = m.toks[i].k
=============================================================================
