------------------------------ MODULE NamesMC ------------------------------
(* Every configuration of the bound through the naming machine of Names.tla: *)
(* up to MaxDecls table declarations (named t, u, table_0, table_1 or        *)
(* anonymous; tables of the database or relations of the query) and up to    *)
(* two SELECTs of up to MaxInsts relation instances (alias t, table_0,       *)
(* table_1 or none) reading them.  Invariant: the result satisfies Verdict.  *)
EXTENDS Names

CONSTANTS MaxDecls, MaxInsts

VARIABLES cfg, verdict
vars == <<cfg, verdict>>

DeclNames == {None, 100, 0, 1}
Aliases == {None, 100, 0}
Decl == [name : DeclNames, extern : BOOLEAN]
\* a table of the database always has a name; two tables of the database have different names
WellFormed(ds) == /\ \A i \in 1 .. Len(ds) : ds[i].extern => ds[i].name # None
                  /\ \A i, j \in 1 .. Len(ds) : (i < j /\ ds[i].extern /\ ds[j].extern) => ds[i].name # ds[j].name
SeqsUpTo(S, n) == UNION { [1 .. k -> S] : k \in 1 .. n }

Init == /\ verdict = "none"
        /\ \E ds \in SeqsUpTo(Decl, MaxDecls) :
             /\ WellFormed(ds)
             /\ \E s1 \in SeqsUpTo([alias : Aliases, src : 1 .. Len(ds)], MaxInsts),
                   s2 \in {<<>>} \cup SeqsUpTo([alias : {None, 0}, src : 1 .. Len(ds)], 1) :
                  \* a user does not give two instances of one SELECT the same alias
                  /\ \A i, j \in 1 .. Len(s1) : (i < j /\ s1[i].alias # None) => s1[i].alias # s1[j].alias
                  /\ cfg = [decls |-> ds, selects |-> IF s2 = <<>> THEN <<s1>> ELSE <<s1, s2>>]
Judge == verdict = "none" /\ verdict' = NamesVerdict(cfg, NamesRun(cfg)) /\ UNCHANGED cfg
Done == verdict # "none" /\ UNCHANGED vars
Next == Judge \/ Done
Spec == Init /\ [][Next]_vars

NamesOk == verdict \in {"none", "ok"}
=============================================================================
