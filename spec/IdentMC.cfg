SPECIFICATION Spec
INVARIANT ClassOk
INVARIANT Emit
CHECK_DEADLOCK FALSE
