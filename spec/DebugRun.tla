------------------------------ MODULE DebugRun ------------------------------
(* developer aid: run the steps of the first program of a recorded trace through the language machine and print the result *)
EXTENDS Prql, Json, IOUtils
Rec == ndJsonDeserialize(IOEnv.TRACE)
InitEv == Rec[CHOOSE i \in 1 .. Len(Rec) : Rec[i].event = "Init"]
StepEvs == SelectSeq(Rec, LAMBDA e : e.event = "Step")
Steps == [i \in 1 .. Len(StepEvs) |-> StepEvs[i].s]
Res == RunPipe(InitState(Len(InitEv.dbs)), Steps, InitEv.dbs, InitEv.schema)
Show(v) == IF v.k = "null" THEN "NULL" ELSE IF v.k = "undef" THEN "UNDEF" ELSE IF v.d = 1 THEN ToString(v.n) ELSE ToString(v.n) \o "/" \o ToString(v.d)
ASSUME PrintT(<<"STATUS", Res.status, "dirs", Res.dirs, "loose", Res.loose, [i \in 1 .. Len(Res.frame) |-> Res.frame[i].name]>>)
ASSUME \A d \in 1 .. Len(Res.W) : PrintT(<<"DB", d - 1, { [ns |-> w.ns, rows |-> [i \in 1 .. Len(w.rows) |-> [j \in 1 .. Len(w.rows[i].v) |-> Show(w.rows[i].v[j])]]] : w \in Res.W[d] }>>)
VARIABLE x
Init == x = 0
Next == UNCHANGED x
=============================================================================
