--------------------------- MODULE NumberTrace ---------------------------
(* For every numeric literal of the declared set: the number token of the   *)
(* emitted SQL (every dialect) must denote the literal's value - the same   *)
(* digits for an integer, the same decimal value for a float - and SQLite   *)
(* must return that value.                                                  *)
EXTENDS Number, Json, IOUtils
Rec == ndJsonDeserialize(IOEnv.TRACE)
VARIABLES l, n, nrej
vars == <<l, n, nrej>>
TInit == l = 1 /\ n = 0 /\ nrej = 0
Ev == Rec[l]
Consume == l <= Len(Rec) /\ l' = l + 1

\* the token as recorded: [neg, ip, fp, ex, hasexp] parsed from the SQL text by the harness (digits only, no judgement)
TokOk(lit, tok) ==
  IF IsInteger(lit) /\ FitsI64(lit)
    THEN tok.fp = <<>> /\ ~tok.hasexp /\ StripLeadingZeros(tok.ip) = ExpectInt(lit)     \* exactly its digits
    \* the same decimal value as far as an f64 holds it; a literal of at most 15 significant digits is the shortest
    \* decimal of its own double (IEEE 754 binary64 keeps 15 digits), so the token - the shortest decimal of the double
    \* the compiler carried - must be the literal's value exactly: a neighbouring double (110.00000000000001) is a fault
    ELSE IF Len(StripTrailingZeros(Sig(Canon(lit)))) <= 15 THEN Canon(tok) = Canon(lit)
    ELSE SameFloat(Canon(tok), Canon(lit))
Fault(e) ==
  IF \E i \in 1 .. Len(e.dialects) : ~(e.dialects[i].compiled /\ e.dialects[i].ntok = 1 /\ TokOk(e.lit, e.dialects[i].tok))
    THEN "token:" \o (e.dialects[CHOOSE i \in 1 .. Len(e.dialects) : ~(e.dialects[i].compiled /\ e.dialects[i].ntok = 1 /\ TokOk(e.lit, e.dialects[i].tok))]).d
  ELSE IF ~(e.sqlite.ran /\ e.sqlite.w = 7 /\ e.sqlite.nrows = 1) THEN "sqlite-structure"
  \* value read back: compared as a decimal string by the same canonical form
  ELSE IF e.sqlite.exact /\ ~SameFloat(Canon(e.sqlite.tok), Canon(e.lit)) THEN "sqlite-value"
  ELSE "ok"
Num ==
  /\ Consume /\ Ev.event = "Num" /\ n' = n + 1
  /\ LET f == Fault(Ev) IN
     IF f = "ok" THEN UNCHANGED nrej
     ELSE nrej' = nrej + 1 /\ PrintT(<<"REJECT", Ev.id, f, ToJson(Ev.spelling), l>>)
End == Consume /\ Ev.event = "End" /\ PrintT(<<"COUNTS", n, nrej>>) /\ UNCHANGED <<n, nrej>>
TNext == Num \/ End
TraceSpec == TInit /\ [][TNext]_vars
TraceAccepted ==
  LET d == TLCGet("stats").diameter IN
  /\ PrintT(<<"TRACE", d - 1, Len(Rec)>>)
  /\ d - 1 = Len(Rec)
=======================================================================
