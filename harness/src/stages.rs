//! `pv stages`: every path of StagesMC over the public API, for every source and configuration.
use crate::api;
use serde_json::{json, Value as J};
use std::io::Write;

enum Art {
    Src(String),
    Pl(prqlc::pr::ModuleDef),
    Json(String),
    Rq(prqlc::ir::rq::RelationalQuery),
    Out(String),
}

struct Interner {
    pls: Vec<prqlc::pr::ModuleDef>,
    rqs: Vec<prqlc::ir::rq::RelationalQuery>,
    strs: Vec<(String, String)>,
}
impl Interner {
    fn id(&mut self, node: &str, a: &Art) -> i64 {
        match a {
            Art::Pl(p) => {
                if let Some(i) = self.pls.iter().position(|x| x == p) {
                    return i as i64 + 1;
                }
                self.pls.push(p.clone());
                self.pls.len() as i64
            }
            Art::Rq(r) => {
                if let Some(i) = self.rqs.iter().position(|x| x == r) {
                    return i as i64 + 1;
                }
                self.rqs.push(r.clone());
                self.rqs.len() as i64
            }
            Art::Json(s) => {
                // a JSON document is identified up to the order of object members (serde_json::Value keeps them sorted)
                let canon = serde_json::from_str::<J>(s).map(|v| v.to_string()).unwrap_or_else(|_| s.clone());
                let key = (node.to_string(), canon);
                if let Some(i) = self.strs.iter().position(|x| *x == key) {
                    return i as i64 + 1;
                }
                self.strs.push(key);
                self.strs.len() as i64
            }
            Art::Src(s) | Art::Out(s) => {
                let key = (node.to_string(), s.clone());
                if let Some(i) = self.strs.iter().position(|x| *x == key) {
                    return i as i64 + 1;
                }
                self.strs.push(key);
                self.strs.len() as i64
            }
        }
    }
}

fn err_key(e: &prqlc::ErrorMessages) -> String {
    let parts: Vec<String> = e
        .inner
        .iter()
        .map(|m| format!("{:?}|{}|{:?}|{:?}", m.code, m.reason, m.span.map(|s| (s.start, s.end, s.source_id)), m.hints))
        .collect();
    format!("ERR:{}", parts.join(";"))
}

/// Apply function f to artefact a. Returns (destination node, artefact) or a panic description.
fn apply(f: &str, a: &Art, opts: &prqlc::Options) -> Result<(String, Art), String> {
    use api::Outcome::*;
    macro_rules! out {
        ($r:expr, $node:expr, $wrap:expr) => {
            match $r {
                Ok(v) => Result::Ok(($node.to_string(), $wrap(v))),
                Err(e) => Result::Ok(("out".to_string(), Art::Out(err_key(&e)))),
                Panic { msg, file, line } => Result::Err(format!("{file}:{line}: {msg}")),
            }
        };
    }
    match (f, a) {
        ("compile", Art::Src(s)) => out!(api::guarded(|| prqlc::compile(s, opts)), "out", |v: String| Art::Out(format!("SQL:{v}"))),
        ("parse", Art::Src(s)) => out!(api::guarded(|| prqlc::prql_to_pl(s)), "pl", Art::Pl),
        ("from_pl", Art::Pl(p)) => out!(api::guarded(|| prqlc::json::from_pl(p)), "pljson", Art::Json),
        ("to_pl", Art::Json(j)) => out!(api::guarded(|| prqlc::json::to_pl(j)), "pl", Art::Pl),
        ("resolve", Art::Pl(p)) => out!(api::guarded(|| prqlc::pl_to_rq(p.clone())), "rq", Art::Rq),
        ("from_rq", Art::Rq(r)) => out!(api::guarded(|| prqlc::json::from_rq(r)), "rqjson", Art::Json),
        ("to_rq", Art::Json(j)) => out!(api::guarded(|| prqlc::json::to_rq(j)), "rq", Art::Rq),
        ("gen", Art::Rq(r)) => out!(api::guarded(|| prqlc::rq_to_sql(r.clone(), opts)), "out", |v: String| Art::Out(format!("SQL:{v}"))),
        _ => Result::Err(format!("bad application {f}")),
    }
}

/// args: <paths.ndjson: {"path":[..]}> <sources.ndjson: {"id","src"}> <configs.json: [{"dialect":..|null,"format":bool,"signature":bool}]> <out.ndjson>
pub fn main(args: &[String]) -> i32 {
    let paths: Vec<Vec<String>> = std::fs::read_to_string(&args[0]).expect("paths").lines().filter(|l| !l.trim().is_empty())
        .map(|l| { let v: J = serde_json::from_str(l).expect("json"); v["path"].as_array().unwrap().iter().map(|x| x.as_str().unwrap().to_string()).collect() }).collect();
    let cfgs: Vec<J> = serde_json::from_str(&std::fs::read_to_string(&args[2]).expect("configs")).expect("json");
    let mut out = std::io::BufWriter::new(std::fs::File::create(&args[3]).expect("out"));
    for line in std::fs::read_to_string(&args[1]).expect("sources").lines() {
        if line.trim().is_empty() {
            continue;
        }
        let v: J = serde_json::from_str(line).expect("json");
        let src = v["src"].as_str().unwrap_or("").to_string();
        for (ci, c) in cfgs.iter().enumerate() {
            let mut o = api::options(c["dialect"].as_str());
            o.format = c["format"].as_bool().unwrap_or(false);
            o.signature_comment = c["signature"].as_bool().unwrap_or(false);
            let mut it = Interner { pls: vec![], rqs: vec![], strs: vec![] };
            writeln!(out, "{}", json!({"event":"Reset","id":format!("{}#{}", v["id"].as_str().unwrap_or("?"), ci)})).unwrap();
            for p in &paths {
                writeln!(out, "{}", json!({"event":"Path"})).unwrap();
                let mut cur = Art::Src(src.clone());
                for f in p {
                    match apply(f, &cur, &o) {
                        Ok((dst, a)) => {
                            let id = it.id(&dst, &a);
                            writeln!(out, "{}", json!({"event":"Apply","f":f,"dst":dst,"id":id})).unwrap();
                            let stop = dst == "out";
                            cur = a;
                            if stop {
                                break;
                            }
                        }
                        Err(msg) => {
                            // a panic is compared like any other outcome (totality itself is C12's concern):
                            // artefact -7 at node "out"
                            writeln!(out, "{}", json!({"event":"Apply","f":f,"dst":"out","id":-7,"panic":msg})).unwrap();
                            break;
                        }
                    }
                }
            }
        }
    }
    writeln!(out, "{}", json!({"event":"End"})).unwrap();
    0
}
