"""Driver of the L1 binding: PrqlMC (TLC) -> programs -> pv run -> PrqlTrace (TLC)."""
import json, os, subprocess, time
from vlib import *

def mc_generate(name, model, dbset, workers=8, timeout=1800):
    """Explore the bounded L1 machine; returns (programs, info).  Every reachable state is one
    program; TLC checks the machine's own invariants on all of them."""
    d = workdir(name)
    ap = os.path.join(d, "alphabet.json")
    json.dump(model, open(ap, "w"))
    out, info = tlc("PrqlMC", "PrqlMC.cfg", env={"DBSET": dbset, "ALPHABET": ap}, workers=workers,
                    timeout=timeout, xmx="12g")
    if not info["no_error"]:
        open(os.path.join(d, "mc.out"), "w").write(out)
        raise ToolError("PrqlMC reported an error (the model's own invariants): " + info.get("error_text", "")[:1500])
    progs = replay_lines(out)
    for i, p in enumerate(progs):
        p["id"] = f"{name}-{i}"
        p["decl"] = True
    return progs, info

def run_and_validate(name, progs, dbset, target="sqlite", shard=4000, par=6):
    """pv run + PrqlTrace.  Returns dict(rejects=[(id, what)], counts, side={id: info}, events)."""
    d = workdir(name)
    build_harness()
    shards = [progs[i:i + shard] for i in range(0, len(progs), shard)] or [[]]
    procs = []
    for i, sh in enumerate(shards):
        pp = os.path.join(d, f"progs{i}.ndjson")
        write_ndjson(pp, sh)
        procs.append(subprocess.Popen([PV, "run", dbset, pp, os.path.join(d, f"events{i}.ndjson"),
                                       os.path.join(d, f"side{i}.ndjson"), target],
                                      stdout=subprocess.PIPE, stderr=subprocess.PIPE, text=True))
        if len(procs) >= par:
            for p in procs:
                p.wait()
                if p.returncode != 0:
                    raise ToolError("pv run failed: " + p.stderr.read()[-2000:])
            procs = []
    for p in procs:
        p.wait()
        if p.returncode != 0:
            raise ToolError("pv run failed: " + p.stderr.read()[-2000:])
    rejects, counts, nevents = [], [0, 0, 0], 0
    side = {}
    skipped_ids = set()
    # validate shards with a few TLC processes in parallel
    from concurrent.futures import ThreadPoolExecutor
    def validate(i):
        ev = os.path.join(d, f"events{i}.ndjson")
        out, info = tlc("PrqlTrace", "PrqlTrace.cfg", env={"TRACE": ev}, workers=1, deque=True, xmx="8g")
        return i, out, info
    with ThreadPoolExecutor(max_workers=par) as ex:
        results = list(ex.map(validate, range(len(shards))))
    for i, out, info in results:
        tr = tuples(out, "TRACE")
        if not info["no_error"] or not tr or tr[0][1] != tr[0][2]:
            open(os.path.join(d, f"trace{i}.out"), "w").write(out)
            raise ToolError(f"PrqlTrace did not consume the trace (shard {i}): " + info.get("error_text", out[-1500:])[:2000])
        nevents += tr[0][2]
        c = tuples(out, "COUNTS")
        if c:
            for j in range(3):
                counts[j] += c[-1][1 + j]
        for r in tuples(out, "REJECT"):
            rejects.append((r[1], r[2], {"frame": json.loads(r[4]), "src": json.loads(r[5])}))
        for s in read_ndjson(os.path.join(d, f"side{i}.ndjson")):
            side[s["id"]] = s
        for r in tuples(out, "SKIPPED"):
            skipped_ids.add(r[1])
    return {"rejects": rejects, "accepted": counts[0], "rejected": counts[1], "skipped": counts[2],
            "events": nevents, "side": side, "skipped_ids": skipped_ids}

def selftest(dbset):
    """Demonstrate the binding: a recorded execution with one corrupted field (a value, the row
    order, a column name, a missing row) must be rejected by PrqlTrace at exactly that program."""
    from progs import from_, filter_, bin_, col, lit, select, item, sort, take, aggregate, agg
    a, b = col("a"), col("b")
    progs = [
        {"id": "st1", "decl": True, "steps": [from_("t"), select(item("k"), item(bin_("+", a, lit(1)), "x"))]},
        {"id": "st2", "decl": True, "steps": [from_("t"), sort(("desc", "k"))]},
        {"id": "st3", "decl": True, "steps": [from_("t"), select(item("k"), item("a"))]},
        {"id": "st4", "decl": True, "steps": [from_("t"), aggregate(item(agg("count", col("k")), "n"))]},
        {"id": "st5", "decl": True, "steps": [from_("t"), filter_(bin_(">", col("k"), lit(0)))]},
    ]
    d = workdir("selftest")
    write_ndjson(os.path.join(d, "p.ndjson"), progs)
    build_harness()
    r = subprocess.run([PV, "run", dbset, os.path.join(d, "p.ndjson"), os.path.join(d, "e.ndjson"),
                        os.path.join(d, "s.ndjson"), "sqlite"], stdout=subprocess.PIPE, stderr=subprocess.PIPE, text=True)
    if r.returncode != 0:
        raise ToolError("selftest: pv run failed " + r.stderr[-1000:])
    ev = read_ndjson(os.path.join(d, "e.ndjson"))
    n = 0
    for e in ev:
        if e["event"] == "Observe":
            n += 1
            if n == 1: e["rows"][0][0][1]["n"] += 1          # a value
            if n == 2: e["rows"][0] = e["rows"][0][::-1]      # the order
            if n == 3: e["names"][1] = "zz"                   # a column name
            if n == 4: e["rows"][1] = []                      # a row removed
    write_ndjson(os.path.join(d, "bad.ndjson"), ev)
    out, info = tlc("PrqlTrace", "PrqlTrace.cfg", env={"TRACE": os.path.join(d, "bad.ndjson")}, workers=1, deque=True)
    got = sorted((r[1], r[2]) for r in tuples(out, "REJECT"))
    want = [("st1", "rows"), ("st2", "order"), ("st3", "frame"), ("st4", "rows")]
    if got != want:
        raise ToolError(f"selftest: corrupted trace not rejected as expected: {got}")
    return {"corrupted_fields": 4, "rejected": 4, "uncorrupted_program_accepted": True}
