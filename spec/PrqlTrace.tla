--------------------------- MODULE PrqlTrace ---------------------------
(* Trace validation (implementation -> specification) for the L1       *)
(* machine.  The harness `pv` renders a program, compiles it with the   *)
(* prqlc built from /repo, executes the SQL on SQLite for every         *)
(* database instance and logs one event per line.  Every event is       *)
(* consumed by exactly one action; the transform events re-use the      *)
(* actions of Prql.tla.  A verdict event that the specification does    *)
(* not allow is consumed by a Reject action, which prints the reason    *)
(* (so the remainder of the trace is still validated) - the run is      *)
(* accepted iff no Reject action was taken and all lines were consumed. *)
EXTENDS Prql, Json, IOUtils

Rec == ndJsonDeserialize(IOEnv.TRACE)

VARIABLES l, st, cur, nrej, nacc, nskip, dbs, schema
vars == <<l, st, cur, nrej, nacc, nskip, dbs, schema>>

TInit ==
  /\ l = 1
  /\ st = InitState(0)
  /\ cur = ""
  /\ nrej = 0 /\ nacc = 0 /\ nskip = 0
  /\ dbs = <<>> /\ schema = [t |-> <<>>]

Ev == Rec[l]
IsEvent(e) == l <= Len(Rec) /\ Rec[l].event = e /\ l' = l + 1

Database ==
  /\ IsEvent("Init")
  /\ dbs' = Ev.dbs /\ schema' = Ev.schema
  /\ UNCHANGED <<st, cur, nrej, nacc, nskip>>

Reset ==
  /\ IsEvent("Reset")
  /\ st' = InitState(Len(dbs)) /\ cur' = Ev.id
  /\ UNCHANGED <<nrej, nacc, nskip, dbs, schema>>

\* a declaration preceding the main pipeline: a let-bound relation
\* (let / into / module member) or a user function
DeclLet ==
  /\ IsEvent("Decl") /\ Ev.d.kind = "let"
  /\ st' = [st EXCEPT !.env = Append(st.env, [name |-> Ev.d.name, short |-> Ev.d.short, steps |-> Ev.d.steps])]
  /\ UNCHANGED <<cur, nrej, nacc, nskip, dbs, schema>>
DeclFunc ==
  /\ IsEvent("Decl") /\ Ev.d.kind = "func"
  /\ st' = [st EXCEPT !.fns = Append(st.fns, [name |-> Ev.d.name, params |-> Ev.d.params, named |-> Ev.d.named, body |-> Ev.d.body])]
  /\ UNCHANGED <<cur, nrej, nacc, nskip, dbs, schema>>

\* one action per transform kind (so that -coverage shows which were taken)
StepOf(op) ==
  /\ IsEvent("Step") /\ Ev.s.op = op
  /\ st' = ApplyStep(st, Ev.s, dbs, schema)
  /\ UNCHANGED <<cur, nrej, nacc, nskip, dbs, schema>>
DoFrom == StepOf("from")          DoSelect == StepOf("select")
DoDerive == StepOf("derive")      DoFilter == StepOf("filter")
DoSort == StepOf("sort")          DoTake == StepOf("take")
DoAggregate == StepOf("aggregate") DoGroup == StepOf("group")
DoWindow == StepOf("window")      DoJoin == StepOf("join")
DoAppend == StepOf("append")
DoRemove == StepOf("remove")      DoIntersect == StepOf("intersect")
DoExclude == StepOf("exclude")
DoFromLit == StepOf("fromlit")
DoLoop == StepOf("loop")
\* SurplusArg / UnknownNamedArg / ScalarAsRelation / RelationAsScalar
DoBad == StepOf("bad")

Verdict(ok, skip, what) ==
  /\ IF skip THEN nskip' = nskip + 1 /\ UNCHANGED <<nacc, nrej>> /\ PrintT(<<"SKIPPED", cur>>)
     ELSE IF ok THEN nacc' = nacc + 1 /\ UNCHANGED <<nskip, nrej>>
     ELSE /\ nrej' = nrej + 1 /\ UNCHANGED <<nskip, nacc>>
          /\ PrintT(<<"REJECT", cur, what, l, ToJson([i \in Idx(st.frame) |-> st.frame[i].name]),
                       ToJson([i \in Idx(st.frame) |-> st.frame[i].src])>>)
  /\ UNCHANGED <<st, cur, dbs, schema>>

\* bag-level acceptance: some world has the observed rows as a bag
BagOk(obs) == \A d \in Idx(st.W) : \E w \in st.W[d] :
                 Len(obs[d]) = Len(w.rows) /\ BagMatch(obs[d], [i \in Idx(w.rows) |-> w.rows[i].v])

\* the program compiled and ran: the specification must call it well-formed,
\* and the observation must be one the documented semantics admits
Observe ==
  /\ IsEvent("Observe")
  /\ LET frameOk == FrameOk(st, Ev.names)
         rqOk == Ev.rqcols = <<>> \/ Len(Ev.rqcols) = Len(st.frame)
         what == IF st.status = "error" THEN "accepted-illformed"
                 ELSE IF ~frameOk THEN "frame"
                 ELSE IF ~rqOk THEN "rqframe"
                 ELSE IF st.loose THEN "ok"
                 ELSE IF ~BagOk(Ev.rows) THEN "rows"
                 ELSE IF ~ObserveOk(st, Ev.rows) THEN "order"
                 ELSE "ok"
     IN Verdict(what = "ok", st.status \notin {"ok", "error"}, what)

\* the compiler refused the program
CompileError ==
  /\ IsEvent("CompileError")
  /\ Verdict(st.status = "error", st.status \notin {"ok", "error"}, "rejected-wellformed")

\* the emitted SQL failed to prepare / execute, or the compiler panicked:
\* never allowed for a program the specification gives a meaning to
Failure ==
  /\ \/ IsEvent("ExecError") \/ IsEvent("Panic")
  /\ Verdict(FALSE, st.status \notin {"ok", "error"}, Ev.event)

TNext == \/ Database \/ Reset \/ DeclLet \/ DeclFunc
         \/ DoFrom \/ DoSelect \/ DoDerive \/ DoFilter \/ DoSort \/ DoTake
         \/ DoAggregate \/ DoGroup \/ DoWindow \/ DoJoin \/ DoAppend \/ DoRemove \/ DoIntersect \/ DoExclude \/ DoFromLit \/ DoLoop \/ DoBad
         \/ Observe \/ CompileError \/ Failure

TraceSpec == TInit /\ [][TNext]_vars

\* every line consumed; counters reported for the evidence file
TraceAccepted ==
  LET d == TLCGet("stats").diameter IN
  /\ PrintT(<<"TRACE", d - 1, Len(Rec)>>)
  /\ d - 1 = Len(Rec)

Done == l > Len(Rec) => PrintT(<<"COUNTS", nacc, nrej, nskip>>)
=======================================================================
