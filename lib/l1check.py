"""The L1 family of checks (C01 C03 C04 C05 C06 C10 share it): generate programs with the bounded
model (TLC) and the seeded random generator, replay them through the compiler built from /repo,
validate the recorded executions against Prql.tla (TLC), attribute rejections to properties."""
import json, os, re, collections, random, time
from vlib import *
import l1, tags as tagmod

def frame_kind(det, names):
    exp = det.get("frame", [])
    if names is None:
        return "none"
    if len(exp) != len(names):
        return "arity"
    bad = [i for i in range(len(exp)) if exp[i] and exp[i] != names[i]]
    if bad and all(re.fullmatch(r"_expr_\d+", names[i]) for i in bad):
        return "generated-name"
    return "name"

def signature(prog, what, det, side):
    sig = {"what": what, "tags": tagmod.tags(prog), "src": side.get("src", ""), "sql": side.get("sql", ""),
           "exec_error": side.get("exec_error", ""), "target": side.get("target", "")}
    if "panic" in side:
        sig["panic_site"] = f"{side['panic']['file']}:{side['panic']['line']}"
        sig["panic_msg"] = side["panic"]["msg"]
    if "error" in side and side["error"]:
        sig["reason"] = side["error"][0].get("reason", "")
    if what in ("frame", "rqframe"):
        sig["frame_kind"] = frame_kind(det, side.get("names"))
    return sig

def run(rep, name, progs, dbset, relevant, target="sqlite", reduce_cap=60):
    """Replay + validate `progs`; rejections whose kind is in `relevant` go to the report.
    Rejected programs are first shrunk (lib/reduce.py) so that a known finding is recognised by
    the features of the minimal failing program, not of whatever surrounded it."""
    import reduce as red
    res = l1.run_and_validate(name, progs, dbset, target=target)
    byid = {p["id"]: p for p in progs}
    by_what = collections.Counter()
    rel = []
    for pid, what, det in res["rejects"]:
        by_what[what] += 1
        if what in relevant:
            rel.append((pid, what, det))
    reduced = {}
    if rel:
        todo = rel[:reduce_cap]
        out = red.reduce_all(name, [(byid[pid], what) for pid, what, _ in todo], dbset, target=target)
        for (pid, what, det), (p2, k2, side2, det2) in zip(todo, out):
            if side2 is not None:
                reduced[pid] = (p2, side2, det2 or det)
    for pid, what, det in rel:
        side = res["side"].get(pid, {})
        p_use, side_use, det_use = reduced.get(pid, (byid[pid], side, det))
        sig = signature(p_use, what, det_use, side_use)
        if pid not in reduced and len(rel) > reduce_cap:
            # not reduced (cap): fall back to the features of the whole program
            sig = signature(byid[pid], what, det, side)
        obj = {"property": rep.pid, "kind": what, "program": byid[pid], "prql": side.get("src"),
               "sql": side.get("sql"), "target": target, "dbset": os.path.relpath(dbset, ROOT),
               "expected_frame": det, "observed_names": side.get("names"), "rq_columns": side.get("rqcols"),
               "exec_error": side.get("exec_error"),
               "panic": side.get("panic"), "compile_error": side.get("error"),
               "reduced": ({"program": p_use, "prql": side_use.get("src"), "sql": side_use.get("sql"),
                            "exec_error": side_use.get("exec_error")} if pid in reduced else None),
               "how_to_replay": f"bin/check {rep.pid} --replay <this file>"}
        rep.violation(obj, sig)
    res["by_what"] = dict(by_what)
    return res
