"""Projection of an RQ value (the JSON of prqlc::ir::rq::RelationalQuery) to the event walk that
spec/Rq.tla monitors.  Pure recording: no judgement here."""

def expr_cids(e, acc):
    if e is None:
        return acc
    k = e.get("kind")
    if isinstance(k, dict):
        if "ColumnRef" in k:
            acc.append(k["ColumnRef"])
        elif "Operator" in k:
            for a in k["Operator"]["args"]:
                expr_cids(a, acc)
        elif "Case" in k:
            for c in k["Case"]:
                expr_cids(c["condition"], acc); expr_cids(c["value"], acc)
        elif "SString" in k:
            for it in k["SString"]:
                if isinstance(it, dict) and "Expr" in it:
                    expr_cids(it["Expr"]["expr"], acc)
        elif "Array" in k:
            for a in k["Array"]:
                expr_cids(a, acc)
    return acc

def tref(t):
    return {"tid": t["source"], "cids": [c[1] for c in t["columns"]]}

def walk_pipeline(ts, ev, ncols):
    ev.append({"ev": "PipeBegin", "ncols": ncols})
    for t in ts:
        (k, v), = t.items()
        if k == "From":
            r = tref(v); ev.append({"ev": "From", "tid": r["tid"], "defs": r["cids"], "uses": []})
        elif k == "Join":
            r = tref(v["with"]); ev.append({"ev": "Join", "tid": r["tid"], "defs": r["cids"], "uses": expr_cids(v["filter"], [])})
        elif k == "Append":
            r = tref(v); ev.append({"ev": "Append", "tid": r["tid"], "defs": r["cids"], "uses": []})
        elif k == "Compute":
            uses = expr_cids(v["expr"], [])
            w = v.get("window")
            if w:
                uses += list(w.get("partition", [])) + [s["column"] for s in w.get("sort", [])]
                fr = w.get("frame", {}).get("range", {})
                expr_cids(fr.get("start"), uses); expr_cids(fr.get("end"), uses)
            ev.append({"ev": "Compute", "tid": -1, "defs": [v["id"]], "uses": uses, "agg": bool(v.get("is_aggregation", False))})
        elif k == "Select":
            ev.append({"ev": "Select", "tid": -1, "defs": [], "uses": list(v)})
        elif k == "Filter":
            ev.append({"ev": "Filter", "tid": -1, "defs": [], "uses": expr_cids(v, [])})
        elif k == "Sort":
            ev.append({"ev": "Sort", "tid": -1, "defs": [], "uses": [s["column"] for s in v]})
        elif k == "Take":
            uses = list(v.get("partition", [])) + [s["column"] for s in v.get("sort", [])]
            expr_cids(v["range"].get("start"), uses); expr_cids(v["range"].get("end"), uses)
            ev.append({"ev": "Take", "tid": -1, "defs": [], "uses": uses})
        elif k == "Aggregate":
            ev.append({"ev": "Aggregate", "tid": -1, "defs": [], "uses": list(v["partition"]), "compute": list(v["compute"])})
        elif k == "Loop":
            ev.append({"ev": "LoopBegin", "tid": -1, "defs": [], "uses": []})
            for t2 in v:
                walk_pipeline_inner(t2, ev)
            ev.append({"ev": "LoopEnd", "tid": -1, "defs": [], "uses": []})
    ev.append({"ev": "PipeEnd"})

def walk_pipeline_inner(t, ev):
    tmp = []
    walk_pipeline([t], tmp, 0)
    ev.extend(tmp[1:-1])

def relation_events(rel, ev, tid):
    (k, v), = rel["kind"].items() if isinstance(rel["kind"], dict) else ((rel["kind"], None),)
    ncols = len(rel["columns"])
    if k == "Pipeline":
        ev.append({"ev": "TableDecl", "tid": tid, "kind": "Pipeline", "ncols": ncols})
        walk_pipeline(v, ev, ncols)
    else:
        ev.append({"ev": "TableDecl", "tid": tid, "kind": k, "ncols": ncols})

def walk(rq):
    ev = []
    for t in rq["tables"]:
        relation_events(t["relation"], ev, t["id"])
    ev.append({"ev": "Main"})
    relation_events(rq["relation"], ev, -1)
    # normalise shapes (TLC records): every event has the same fields
    out = []
    for e in ev:
        out.append({"ev": e["ev"], "tid": e.get("tid", -1), "kind": e.get("kind", ""), "ncols": e.get("ncols", 0),
                    "defs": e.get("defs", []), "uses": e.get("uses", []), "compute": e.get("compute", []), "agg": e.get("agg", False)})
    return out
