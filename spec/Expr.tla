------------------------------ MODULE Expr ------------------------------
(* The documented operator table of PRQL (operators.md) as data, a        *)
(* renderer of expression trees to token sequences with the MINIMAL       *)
(* parentheses that table requires, a fully parenthesising renderer, and  *)
(* a precedence-climbing parser over tokens.  TLC checks on the model     *)
(* alone that Parse(Show(t)) = t and Parse(ShowFull(t)) = t; the trees    *)
(* and their renderings are then replayed through the real parser (C02,   *)
(* C14) and the real SQL generator + SQLite (C02).                        *)
(* Trees use the record shapes of Prql.tla:                               *)
(*   [t |-> "col", q |-> "", name |-> n] | [t |-> "lit", v |-> V]          *)
(*   [t |-> "bin", op, l, r] | [t |-> "un", op, e]                         *)
EXTENDS Integers, Sequences, FiniteSets, TLC

\* binding level: higher binds tighter (documented precedence 4..10 -> 6..0)
Level(op) ==
  CASE op = "**" -> 6
    [] op \in {"*", "/", "//", "%"} -> 5
    [] op \in {"+", "-"} -> 4
    [] op \in {"==", "!=", "<", "<=", ">", ">=", "~="} -> 3
    [] op = "??" -> 2
    [] op = "&&" -> 1
    [] op = "||" -> 0
RightAssoc(op) == op = "**"
BinOps == {"**", "*", "/", "//", "%", "+", "-", "==", "!=", "<", "<=", ">", ">=", "~=", "??", "&&", "||"}
UnOps == {"-", "+", "!"}

\* ---- rendering: tokens are strings; "(" and ")" are tokens ----
\* does child c need parentheses as the `side` operand of binary operator op?
NeedsParen(op, c, side) ==
  CASE c.t = "bin" ->
         \/ Level(c.op) < Level(op)
         \/ Level(c.op) = Level(op) /\ (IF RightAssoc(op) THEN side = "l" ELSE side = "r")
    [] OTHER -> FALSE      \* leaves, and a unary operand (a unary applies to a term and is itself a term)

RECURSIVE Show(_)
Show(e) ==
  CASE e.t = "col" -> << e.name >>
    [] e.t = "lit" -> << e.tok >>
    [] e.t = "un"  -> << e.op >> \o (IF e.e.t \in {"bin", "un"} THEN << "(" >> \o Show(e.e) \o << ")" >> ELSE Show(e.e))
    [] e.t = "bin" ->
         (IF NeedsParen(e.op, e.l, "l") THEN << "(" >> \o Show(e.l) \o << ")" >> ELSE Show(e.l))
         \o << e.op >> \o
         (IF NeedsParen(e.op, e.r, "r") THEN << "(" >> \o Show(e.r) \o << ")" >> ELSE Show(e.r))

RECURSIVE ShowFull(_)
ShowFull(e) ==
  CASE e.t = "col" -> << e.name >>
    [] e.t = "lit" -> << e.tok >>
    [] e.t = "un"  -> << "(", e.op >> \o ShowFull(e.e) \o << ")" >>
    [] e.t = "bin" -> << "(" >> \o ShowFull(e.l) \o << e.op >> \o ShowFull(e.r) \o << ")" >>

\* ---- parsing: precedence climbing over a token sequence ----
\* result of every parse function: [e |-> tree, rest |-> remaining tokens] (e.t = "err" on failure)
ErrT == [t |-> "err"]
IsOpTok(tok) == tok \in BinOps
LeafOf(tok, leaves) == leaves[tok]      \* leaves: token -> leaf tree

RECURSIVE ParseExpr(_, _, _)
RECURSIVE ParseTerm(_, _)
RECURSIVE Climb(_, _, _, _)

\* term := leaf | "(" expr ")" | unop term'   where term' is a leaf or a parenthesised expression
ParseTerm(toks, leaves) ==
  IF toks = <<>> THEN [e |-> ErrT, rest |-> <<>>]
  ELSE LET h == Head(toks) IN
    IF h = "(" THEN
      LET r == ParseExpr(Tail(toks), 0, leaves) IN
      IF r.e.t = "err" \/ r.rest = <<>> \/ Head(r.rest) # ")" THEN [e |-> ErrT, rest |-> <<>>]
      ELSE [e |-> r.e, rest |-> Tail(r.rest)]
    ELSE IF h \in UnOps THEN
      \* a unary operator applies once, to a leaf or a parenthesised expression
      LET rest1 == Tail(toks) IN
      IF rest1 = <<>> THEN [e |-> ErrT, rest |-> <<>>]
      ELSE IF Head(rest1) = "(" \/ Head(rest1) \in DOMAIN leaves THEN
        LET r == ParseTerm(rest1, leaves) IN
        IF r.e.t = "err" THEN r ELSE [e |-> [t |-> "un", op |-> h, e |-> r.e], rest |-> r.rest]
      ELSE [e |-> ErrT, rest |-> <<>>]
    ELSE IF h \in DOMAIN leaves THEN [e |-> leaves[h], rest |-> Tail(toks)]
    ELSE [e |-> ErrT, rest |-> <<>>]

\* climb: lhs already parsed; consume operators of level >= minLevel
Climb(lhs, toks, minLevel, leaves) ==
  IF toks = <<>> \/ ~IsOpTok(Head(toks)) \/ Level(Head(toks)) < minLevel THEN [e |-> lhs, rest |-> toks]
  ELSE LET op == Head(toks)
           nextMin == IF RightAssoc(op) THEN Level(op) ELSE Level(op) + 1
           r == ParseExpr(Tail(toks), nextMin, leaves)
       IN IF r.e.t = "err" THEN r
          ELSE Climb([t |-> "bin", op |-> op, l |-> lhs, r |-> r.e], r.rest, minLevel, leaves)

ParseExpr(toks, minLevel, leaves) ==
  LET t0 == ParseTerm(toks, leaves) IN
  IF t0.e.t = "err" THEN t0 ELSE Climb(t0.e, t0.rest, minLevel, leaves)

Parse(toks, leaves) ==
  LET r == ParseExpr(toks, 0, leaves) IN IF r.rest = <<>> THEN r.e ELSE ErrT
=======================================================================
