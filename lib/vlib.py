"""Shared machinery of the checks: building the harness from /repo's working tree, running TLC
(model checking and trace validation), verdict files, known findings, evidence."""
import json, os, re, subprocess, sys, time, hashlib, random

ROOT = os.path.dirname(os.path.dirname(os.path.abspath(__file__)))
SPEC = os.path.join(ROOT, "spec")
WORK = os.path.join(ROOT, "work")
PV = os.path.join(ROOT, "harness", "target", "debug", "pv")
JAR = "/opt/veriftools/tla/tla2tools.jar:/opt/veriftools/tla/CommunityModules-deps.jar"

class ToolError(Exception):
    pass

def log(*a):
    print(*a, file=sys.stderr, flush=True)

def seed():
    try:
        return int(os.environ.get("VERIF_SEED", "1"))
    except ValueError:
        return 1

def workdir(name):
    d = os.path.join(WORK, name)
    os.makedirs(d, exist_ok=True)
    return d

_built = False
def build_harness():
    """cargo build of the harness: a path dependency on /repo, so this recompiles prqlc from
    the current working tree (with --cfg prql_verif, see harness/.cargo/config.toml)."""
    global _built
    if _built:
        return PV
    t0 = time.time()
    env = dict(os.environ, CARGO_NET_OFFLINE="true")
    alt = os.environ.get("VERIF_REPO")
    if alt and alt != "/repo" and not ROOT.startswith("/verif"):
        # experiments on a snapshot (vp run --with-repo): this copy of the harness depends on the repo snapshot, so
        # that seeded changes can be applied there while /repo itself stays untouched.  Never done in /verif proper.
        ct = os.path.join(ROOT, "harness", "Cargo.toml")
        txt = open(ct).read()
        if "/repo/prqlc" in txt:
            open(ct, "w").write(txt.replace('"/repo/prqlc', '"' + alt.rstrip("/") + "/prqlc"))
    r = subprocess.run(["cargo", "build", "--offline"], cwd=os.path.join(ROOT, "harness"), env=env,
                       stdout=subprocess.PIPE, stderr=subprocess.STDOUT, text=True)
    if r.returncode != 0:
        log(r.stdout[-4000:])
        raise ToolError("harness build failed")
    log(f"[build] harness built in {time.time()-t0:.1f}s")
    _built = True
    return PV

def pv(args, stdin=None, timeout=3600, check=True, env=None):
    build_harness()
    e = dict(os.environ)
    if env:
        e.update(env)
    r = subprocess.run([PV] + args, input=stdin, stdout=subprocess.PIPE, stderr=subprocess.PIPE, text=True,
                       timeout=timeout, env=e)
    if check and r.returncode != 0:
        log(r.stderr[-3000:])
        raise ToolError(f"pv {args[0]} exited {r.returncode}")
    return r

def tlc(module, cfg, env=None, workers=1, deque=False, xmx="6g", timeout=3600, extra=None, meta=None):
    """Run TLC on spec/<module>.tla with spec/<cfg>; returns (stdout, info)."""
    e = dict(os.environ)
    if env:
        e.update(env)
    meta = meta or os.path.join(WORK, "tlc", f"{module}-{os.getpid()}-{random.randrange(1<<30)}")
    os.makedirs(os.path.dirname(meta), exist_ok=True)
    cmd = ["java", "-XX:+UseParallelGC", "-Xss1g", f"-Xmx{xmx}"]
    if deque:
        cmd.append("-Dtlc2.tool.queue.IStateQueue=StateDeque")
    cmd += ["-cp", JAR, "tlc2.TLC", "-workers", str(workers), "-metadir", meta, "-cleanup",
            "-noGenerateSpecTE", "-config", cfg, module + ".tla"]
    if extra:
        cmd += extra
    t0 = time.time()
    try:
        r = subprocess.run(cmd, cwd=SPEC, env=e, stdout=subprocess.PIPE, stderr=subprocess.STDOUT, text=True,
                           timeout=timeout)
    except subprocess.TimeoutExpired:
        raise ToolError(f"TLC timeout on {module}")
    finally:
        subprocess.run(["rm", "-rf", meta])
    out = r.stdout
    info = {"wall_s": round(time.time() - t0, 1), "exit": r.returncode}
    m = re.search(r"(\d+) states generated, (\d+) distinct states found", out)
    if m:
        info["generated"] = int(m.group(1))
        info["distinct"] = int(m.group(2))
    info["no_error"] = "Model checking completed. No error has been found." in out
    if not info["no_error"]:
        # keep the interesting part of TLC's report
        idx = out.find("Error:")
        info["error_text"] = out[idx: idx + 3000] if idx >= 0 else out[-3000:]
    return out, info

def _tuple_texts(out, tag):
    """Texts of the tuples TLC printed with PrintT(<<tag, ...>>).  TLC's pretty printer wraps long
    tuples over several lines (`<< "REJECT",\n   "...", ... >>`), so a tuple is collected from its
    opening `<<` to the matching `>>` (strings are respected)."""
    res = []
    lines = out.splitlines()
    n = len(lines)
    k = 0
    head = re.compile(r'^<<\s*"' + re.escape(tag) + r'"')
    while k < n:
        if head.match(lines[k]):
            buf = lines[k]
            while not _balanced(buf) and k + 1 < n:
                k += 1
                buf += " " + lines[k].strip()
            res.append(buf)
        k += 1
    return res

def _balanced(s):
    depth = 0; i = 0; instr = False
    while i < len(s):
        c = s[i]
        if instr:
            if c == "\\":
                i += 2; continue
            if c == '"':
                instr = False
        else:
            if c == '"':
                instr = True
            elif s.startswith("<<", i):
                depth += 1; i += 2; continue
            elif s.startswith(">>", i):
                depth -= 1; i += 2; continue
        i += 1
    return depth == 0 and not instr

def tuples(out, tag):
    """Tuples TLC printed with PrintT(<<tag, ...>>), parsed into python lists."""
    return [parse_tla_tuple(t) for t in _tuple_texts(out, tag)]

def parse_tla_tuple(s):
    """Parse a flat TLA+ tuple of strings / ints as printed by TLC, e.g. <<"REJECT", "p1", "rows", 6>>"""
    s = s.strip()
    assert s.startswith("<<") and s.endswith(">>"), s
    body = s[2:-2]
    items, i = [], 0
    while i < len(body):
        c = body[i]
        if c == '"':
            j = i + 1
            buf = []
            while j < len(body):
                if body[j] == '\\' and j + 1 < len(body):
                    buf.append(body[j + 1]); j += 2; continue
                if body[j] == '"':
                    break
                buf.append(body[j]); j += 1
            items.append("".join(buf)); i = j + 1
        elif c in ", ":
            i += 1
        else:
            j = i
            while j < len(body) and body[j] not in ",":
                j += 1
            tok = body[i:j].strip()
            try:
                items.append(int(tok))
            except ValueError:
                items.append(tok)
            i = j
    return items

def replay_lines(out):
    """JSON payloads of PrintT(<<"REPLAY", ToJson(..)>>) lines."""
    return [json.loads(parse_tla_tuple(t)[1]) for t in _tuple_texts(out, "REPLAY")]

# ------------------------------------------------------------------------------------------
def load_findings():
    p = os.path.join(ROOT, "known_findings.json")
    if not os.path.exists(p):
        return []
    return json.load(open(p))["findings"]

_replay_n = 0
def write_replay(pid, obj):
    global _replay_n
    d = os.path.join(ROOT, "replay")
    os.makedirs(d, exist_ok=True)
    _replay_n += 1
    h = hashlib.sha1(json.dumps(obj, sort_keys=True).encode()).hexdigest()[:10]
    p = os.path.join(d, f"{pid}-{h}.json")
    json.dump(obj, open(p, "w"), indent=1)
    return p

class Report:
    """Collects violations / known findings for one property run and produces the exit code."""
    def __init__(self, pid, tier):
        self.pid, self.tier = pid, tier
        self.violations = []
        self.known = {}
        self.t0 = time.time()
        # a known finding is recognised by the signature of the failing case, whichever check meets it
        self.findings = [f for f in load_findings() if f.get("status") == "known"]

    def violation(self, obj, sig=None):
        """obj: replay record.  sig: dict describing the failing case, matched against known findings."""
        for f in self.findings:
            if sig is not None and finding_matches(f, sig, obj):
                self.known.setdefault(f["id"], []).append(obj)
                return f["id"]
        self.violations.append(obj)
        return None

    def finish(self, level, coverage, assumptions):
        wall = round(time.time() - self.t0, 1)
        for fid, objs in sorted(self.known.items()):
            f = next(x for x in self.findings if x["id"] == fid)
            print(f"KNOWN-FINDING: property={self.pid} {fid} {f['what']} ({len(objs)} case(s) this run)")
        ev = {"property_id": self.pid, "tier": self.tier, "seed": seed(), "level": level,
              "coverage": coverage, "assumptions": assumptions, "wall_s": wall,
              "violations": len(self.violations),
              "known_findings_seen": {k: len(v) for k, v in self.known.items()}}
        os.makedirs(os.path.join(ROOT, "evidence"), exist_ok=True)
        json.dump(ev, open(os.path.join(ROOT, "evidence", f"{self.pid}.json"), "w"), indent=1)
        if self.known:
            os.makedirs(WORK, exist_ok=True)
            write_ndjson(os.path.join(WORK, f"{self.pid}-known.ndjson"), [dict(o, _finding=k) for k, v in self.known.items() for o in v[:50]])
        if self.violations:
            # every violation of this run, for triage (work/ is scratch space, not evidence)
            os.makedirs(WORK, exist_ok=True)
            write_ndjson(os.path.join(WORK, f"{self.pid}-violations.ndjson"), self.violations)
            seen = set()
            for v in self.violations[:20]:
                p = write_replay(self.pid, v)
                if p not in seen:
                    print(f"VIOLATION property={self.pid} replay={p}")
                    seen.add(p)
            if len(self.violations) > 20:
                print(f"... and {len(self.violations)-20} more violations (see evidence)")
            return 1
        print(f"OK property={self.pid} tier={self.tier} wall={wall}s")
        return 0

def finding_matches(f, sig, obj):
    """A finding's `match` is a dict; every key must match the signature of the failing case:
       what: [..]            reject kind is one of these
       tags_all: [..]        every tag is a feature of the program (lib/tags.py)
       tags_any: [..]        at least one tag is
       tags_none: [..]       none of these tags is
       <key>_re: pattern     regex search in sig[<key>] (sql, src, exec_error, panic_msg, reason, ...)
       <key>: value|[values] equality / membership"""
    m = f.get("match", {})
    if isinstance(m, list):          # alternatives: the finding shows differently in different checks
        return any(finding_matches({"match": alt}, sig, obj) for alt in m)
    for k, want in m.items():
        if k == "tags_all":
            if not set(want) <= set(sig.get("tags", [])):
                return False
        elif k == "tags_none":
            if set(want) & set(sig.get("tags", [])):
                return False
        elif k == "tags_any":
            if not set(want) & set(sig.get("tags", [])):
                return False
        elif k.endswith("_re"):
            have = sig.get(k[:-3])
            if have is None or not re.search(want, str(have), re.S):
                return False
        else:
            have = sig.get(k)
            if have is None:
                return False
            if isinstance(want, list):
                if have not in want:
                    return False
            elif have != want:
                return False
    return True

def write_ndjson(path, objs):
    with open(path, "w") as f:
        for o in objs:
            f.write(json.dumps(o) + "\n")

def read_ndjson(path):
    return [json.loads(l) for l in open(path) if l.strip()]
