"""C18: dialect chosen by options, then header, then generic (spec/Target.tla)."""
import sys, os, json, random, subprocess, glob
sys.path.insert(0, os.path.join(os.path.dirname(os.path.abspath(__file__)), "..", "lib"))
from vlib import *

PROGRAMS = [
    "from t | select {a, b}",
    "from t | sort k | take 3..5",                                     # LIMIT/OFFSET vs FETCH
    "from t | group a (aggregate {n = count this, s = sum b})",
    "from t | derive {x = a // 2, y = a / 2, z = f\"{a}-{b}\"}",        # per-dialect operators / concat
    "from t | join u (==k) | select {t.a, u.c}",
    "from t | group a (sort k | take 1)",                               # DISTINCT ON vs ROW_NUMBER
    "from t | select {a} | remove (from u | select {a})",               # EXCEPT ALL support differs
    "from t | filter a ~= \"x\"",                                       # regex per dialect
    "from t | select {zz}\nfrom u",                                      # not a valid program (two pipelines)
    "from t | select {a} | filter b > 1",                               # resolver rejects (unknown name)
    "from t | derive {d = @2020-01-01, n = `my col`}",
    "from t | window rolling:2 (sort k | derive {s = sum b}) | take 2",
]
EXTRA = [
    "from t | append (from u | select {k, a, c}) | select {a}",
    "from t | derive {x = (a | math.round 2), y = (b | text.length)}",
    "from t | filter (a | in 1..3) | sort {-b} | take 1",
    "from t | aggregate {any_a = any (a > 1), all_a = all (a > 1)}",
    "let x = (from t | take 2)\nfrom x | join t (==k)",
    "from t | select {a = a ?? 0} | loop (filter a < 3 | select {a = a + 1})",
]

def check(tier):
    rep = Report("C18", tier)
    d = workdir("C18")
    build_harness()
    out, info = tlc("TargetMC", "TargetMC.cfg", workers=1)
    if not info["no_error"]:
        raise ToolError("TargetMC: the decision table violates its own laws: " + info.get("error_text", "")[:1500])
    cells = replay_lines(out)
    write_ndjson(os.path.join(d, "cells.ndjson"), cells)
    progs = list(PROGRAMS)
    if tier == "thorough":
        progs += EXTRA
        for f in sorted(glob.glob("/repo/prqlc/prqlc/tests/integration/queries/*.prql")):
            progs.append(open(f).read())
    json.dump(progs, open(os.path.join(d, "progs.json"), "w"))
    ev = os.path.join(d, "events.ndjson")
    pv(["target", os.path.join(d, "cells.ndjson"), os.path.join(d, "progs.json"), ev])
    tout, tinfo = tlc("TargetTrace", "TargetTrace.cfg", env={"TRACE": ev}, workers=1, deque=True)
    tr = tuples(tout, "TRACE")
    if not tinfo["no_error"] or not tr or tr[0][1] != tr[0][2]:
        raise ToolError("TargetTrace did not consume the trace: " + tinfo.get("error_text", tout[-1200:])[:1500])
    c = tuples(tout, "COUNTS")
    for r in tuples(tout, "REJECT"):
        rep.violation({"property": "C18", "program": progs[r[1]], "option": r[2], "header": r[3], "kind": r[4], "trace_line": r[5]},
                      {"what": r[4], "opt": r[2], "hdr": r[3], "src": progs[r[1]]})
    # binding demonstration: swap the outcome of one cell -> rejected
    evs = read_ndjson(ev)
    for e in evs:
        if e["event"] == "Cell" and e["prog"] == 1 and e["opt"] == "mssql" and e["hdr"] == "sqlite":
            e["opt"], e["hdr"] = "sqlite", "mssql"; break
    for e in evs:
        if e["event"] == "Cell" and e["opt"] == "absent" and e["hdr"] == "unknown":
            e["outcome"] = 1; e["stage"] = "sql"; break
    write_ndjson(os.path.join(d, "bad.ndjson"), evs)
    bout, _ = tlc("TargetTrace", "TargetTrace.cfg", env={"TRACE": os.path.join(d, "bad.ndjson")}, workers=1, deque=True)
    nbad = len(tuples(bout, "REJECT")) - len(tuples(tout, "REJECT"))
    if nbad < 2:
        raise ToolError(f"C18 selftest: corrupted cells not rejected ({nbad})")
    cov = {"states": info["distinct"], "transitions": info["generated"], "traces_validated_against_impl": c[-1][1] if c else 0,
           "samples": [cells[0], cells[len(cells) // 2], {"program": progs[1]}], "exhaustive": True,
           "explanation": f"TargetMC: all {len(cells)} (option, header) cells over 12 dialects + absent + sql.any + unknown, table laws checked; each cell x {len(progs)} programs compiled by prqlc and compared by TargetTrace with the canonical cell (option = effective dialect, no header); resolver verdict compared across cells",
           "selftest": {"corrupted_cells": 2, "rejected": nbad}}
    return rep.finish("model_checking", cov, ["the option axis goes through Target::from_str (as the CLI and bindings do)",
                                               "an unknown header name is written sql.foo; the error for a consulted unknown target is recognised by its reason text"])
