"""Batch reducer: shrink rejected programs by dropping steps / simplifying items while the same
kind of rejection persists (all candidates of one round are replayed and validated together)."""
import copy, json, collections
import l1

def candidates(p):
    out = []
    steps = p["steps"]
    for i in range(1, len(steps)):
        q = copy.deepcopy(p); del q["steps"][i]; out.append(q)
    for i, s in enumerate(steps):
        if s["op"] in ("select", "derive", "aggregate") and len(s["items"]) > 1:
            for j in range(len(s["items"])):
                q = copy.deepcopy(p); del q["steps"][i]["items"][j]; out.append(q)
        if s["op"] == "sort" and len(s["keys"]) > 1:
            for j in range(len(s["keys"])):
                q = copy.deepcopy(p); del q["steps"][i]["keys"][j]; out.append(q)
        if s["op"] in ("group", "window") and len(s["pipe"]) > 1:
            for j in range(len(s["pipe"])):
                q = copy.deepcopy(p); del q["steps"][i]["pipe"][j]; out.append(q)
        if s["op"] == "join" and len(s["with"]) > 1:
            q = copy.deepcopy(p); q["steps"][i]["with"] = q["steps"][i]["with"][:1]; out.append(q)
    return out

def reduce_all(name, failing, dbset, target="sqlite", rounds=8):
    """failing: list of (program, kind). Returns list of (reduced program, kind, side)."""
    cur = [(copy.deepcopy(p), k) for p, k in failing]
    sides = [None] * len(cur)
    dets = [None] * len(cur)
    for rnd in range(rounds):
        batch, owner = [], []
        for idx, (p, k) in enumerate(cur):
            for c in candidates(p):
                c["id"] = f"red{rnd}-{idx}-{len(batch)}"
                batch.append(c); owner.append(idx)
        if not batch:
            break
        res = l1.run_and_validate(name + "-reduce", batch, dbset, target=target)
        rej = {pid: what for pid, what, _ in res["rejects"]}
        rdet = {pid: det for pid, _, det in res["rejects"]}
        progressed = False
        done = set()
        for c, idx in zip(batch, owner):
            if idx in done:
                continue
            if rej.get(c["id"]) == cur[idx][1]:
                cur[idx] = (c, cur[idx][1]); sides[idx] = res["side"].get(c["id"]); dets[idx] = rdet.get(c["id"]); done.add(idx); progressed = True
        if not progressed:
            break
    return [(p, k, s, d) for (p, k), s, d in zip(cur, sides, dets)]
