--------------------------- MODULE PurityTrace ---------------------------
(* Trace validation for C11 (schedules): the hooks (cfg prql_verif) emit    *)
(* one event per critical section of debug/log.rs while the write lock is   *)
(* still held, numbered under that lock.  The sequence must be a behaviour  *)
(* of the log machine of Purity.tla, and every compile must return the one  *)
(* result known for its input.                                              *)
EXTENDS Purity, Json, IOUtils
Rec == ndJsonDeserialize(IOEnv.TRACE)
VARIABLES l, log, seq, known, n, nrej
vars == <<l, log, seq, known, n, nrej>>
TInit == l = 1 /\ log = NoLog /\ seq = 0 /\ known = <<>> /\ n = 0 /\ nrej = 0
Ev == Rec[l]
Consume == l <= Len(Rec) /\ l' = l + 1
Post(e) == [present |-> e.present, suppress |-> e.suppress, entries |-> e.entries]

\* the post-state the specification assigns to this critical section, and whether it may happen here
Expected(e) ==
  CASE e.action = "LogStart"        -> [ok |-> ~log.present, post |-> Start(log)]
    [] e.action = "LogFinish"       -> [ok |-> TRUE, post |-> Finish(log)]
    [] e.action = "LogEntry"        -> [ok |-> TRUE, post |-> Entry(log)]
    [] e.action = "SuppressAcquire" -> [ok |-> log.present, post |-> Acquire(log)]
    [] e.action = "SuppressNone"    -> [ok |-> ~log.present, post |-> log]
    [] e.action = "SuppressRelease" -> [ok |-> TRUE, post |-> Release(log)]
    [] OTHER                        -> [ok |-> FALSE, post |-> log]

Sched(a) ==
  /\ Consume /\ Ev.event = "Sched" /\ Ev.action = a /\ n' = n + 1
  /\ seq' = Ev.seq
  /\ LET x == Expected(Ev) IN
     IF Ev.seq = seq + 1 /\ x.ok /\ x.post = Post(Ev)
       THEN log' = x.post /\ UNCHANGED nrej
       ELSE /\ log' = Post(Ev)        \* resynchronise, so that the rest of the trace is still checked
            /\ nrej' = nrej + 1
            /\ PrintT(<<"REJECT", "sched", Ev.action, Ev.seq, l>>)
  /\ UNCHANGED known

\* a new run (fresh process / new round): the numbering restarts, the log is whatever the run starts with
Run == Consume /\ Ev.event = "Run" /\ seq' = 0 /\ log' = NoLog /\ UNCHANGED <<known, n, nrej>>

\* a compile returned: the same (input, configuration) must always give the same artefact
Idx(i) == { k \in 1 .. Len(known) : known[k].input = i }
Result ==
  /\ Consume /\ Ev.event = "Result" /\ n' = n + 1 /\ UNCHANGED <<log, seq>>
  /\ IF Ev.kind = "panic" THEN UNCHANGED known /\ nrej' = nrej + 1 /\ PrintT(<<"REJECT", "panic", Ev.input, Ev.scenario, l>>)
     ELSE IF Idx(Ev.input) = {} THEN known' = Append(known, [input |-> Ev.input, out |-> Ev.out]) /\ UNCHANGED nrej
     ELSE /\ UNCHANGED known
          /\ IF known[CHOOSE k \in Idx(Ev.input) : TRUE].out = Ev.out THEN UNCHANGED nrej
             ELSE nrej' = nrej + 1 /\ PrintT(<<"REJECT", "result", Ev.input, Ev.scenario, l>>)
End == Consume /\ Ev.event = "End" /\ PrintT(<<"COUNTS", n, nrej>>) /\ UNCHANGED <<log, seq, known, n, nrej>>
TNext == \/ Run \/ Result \/ End
         \/ Sched("LogStart") \/ Sched("LogFinish") \/ Sched("LogEntry")
         \/ Sched("SuppressAcquire") \/ Sched("SuppressNone") \/ Sched("SuppressRelease")
TraceSpec == TInit /\ [][TNext]_vars
TraceAccepted ==
  LET d == TLCGet("stats").diameter IN
  /\ PrintT(<<"TRACE", d - 1, Len(Rec)>>)
  /\ d - 1 = Len(Rec)
=======================================================================
