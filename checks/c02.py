"""C02: operator precedence, associativity, null and literal folding survive to SQL
(spec/Expr.tla + ExprMC; values through spec/Prql.tla Eval via PrqlTrace)."""
import sys, os, json, random, copy
sys.path.insert(0, os.path.join(os.path.dirname(os.path.abspath(__file__)), "..", "lib"))
from vlib import *
from progs import *
import l1, l1check, gen, prtree

def leafcol(n): return {"t": "col", "q": "", "name": n}
def leaflit(x, tok): return {"t": "lit", "v": V(x), "tok": tok}

OPS = ["**", "*", "/", "//", "%", "+", "-", "==", "!=", "<", "<=", ">", ">=", "??", "&&", "||"]

def expr_cfg(tier):
    f2 = {"t": "lit", "v": V(2), "tok": "2.0"}
    if tier == "quick":
        return {"leaves": [leafcol("a"), leaflit(2, "2"), leaflit(None, "null")], "sib": [leafcol("b"), leaflit(3, "3"), f2],
                "sib2": [leafcol("b")], "ops": OPS, "unops": ["-", "!"], "depth": 2}
    return {"leaves": [leafcol("a"), leaflit(2, "2"), leaflit(None, "null"), leaflit(True, "true")],
            "sib": [leafcol("b"), leaflit(3, "3"), leaflit(None, "null"), f2], "sib2": [leafcol("b"), leaflit(3, "3")],
            "ops": OPS + ["~="], "unops": ["-", "!", "+"], "depth": 2}

def has_op(t, ops):
    if t["t"] == "bin":
        return t["op"] in ops or has_op(t["l"], ops) or has_op(t["r"], ops)
    if t["t"] == "un":
        return t["op"] in ops or has_op(t["e"], ops)
    return False

def check(tier):
    rep = Report("C02", tier)
    d = workdir("C02")
    build_harness()
    dbset = os.path.join(ROOT, "corpus", "dbs_expr.json")
    cfgp = os.path.join(d, "exprcfg.json")
    json.dump(expr_cfg(tier), open(cfgp, "w"))
    out, info = tlc("ExprMC", "ExprMC.cfg", env={"EXPRCFG": cfgp}, workers=8, xmx="8g")
    if not info["no_error"]:
        open(os.path.join(d, "mc.out"), "w").write(out)
        raise ToolError("ExprMC: the specification's renderer and parser disagree: " + info.get("error_text", "")[:1500])
    trees = replay_lines(out)
    # (a) parse trees: the real parser on both renderings
    srcs, meta = [], {}
    for i, t in enumerate(trees):
        for variant in ("min", "full"):
            sid = f"e{i}{variant[0]}"
            srcs.append({"id": sid, "src": f"from t | select {{v = {t[variant]}}}"})
            meta[sid] = (t, variant)
    write_ndjson(os.path.join(d, "src.ndjson"), srcs)
    pv(["pljson", os.path.join(d, "src.ndjson"), os.path.join(d, "pl.ndjson")])
    evs = []
    for r in read_ndjson(os.path.join(d, "pl.ndjson")):
        t, variant = meta[r["id"]]
        obs = None
        if r["pl"] is not None:
            it = prtree.select_item(r["pl"], "v")
            obs = prtree.tree(it) if it is not None else None
        evs.append({"event": "ParseObserved", "id": r["id"], "variant": variant, "tree": t["tree"], "min": t["min"], "full": t["full"],
                    "text": t[variant], "parsed": obs is not None, "observed": obs if obs is not None else {"t": "other", "tok": "none"}})
    shards = [evs[i:i + 4000] for i in range(0, len(evs), 4000)]
    from concurrent.futures import ThreadPoolExecutor
    def val(i):
        p = os.path.join(d, f"parse{i}.ndjson"); write_ndjson(p, shards[i] + [{"event": "End"}])
        return p, tlc("ExprTrace", "ExprTrace.cfg", env={"TRACE": p}, workers=1, deque=True, xmx="6g")
    with ThreadPoolExecutor(max_workers=6) as ex:
        results = list(ex.map(val, range(len(shards))))
    nparse = 0; tstates = 0
    for p, (tout, tinfo) in results:
        tr = tuples(tout, "TRACE")
        if not tinfo["no_error"] or not tr or tr[0][1] != tr[0][2]:
            open(p + ".tlc.out", "w").write(tout)
            raise ToolError("ExprTrace did not consume the trace: " + tinfo.get("error_text", tout[-1200:])[:1500])
        tstates += tinfo.get("distinct", 0)
        c = tuples(tout, "COUNTS"); nparse += c[-1][1] if c else 0
        for r in tuples(tout, "REJECT"):
            t, variant = meta[r[1]]
            rep.violation({"property": "C02", "kind": "parse-tree", "expression": r[3], "variant": r[2], "expected_tree": t["tree"]},
                          {"what": "parse-tree", "src": r[3]})
    # (b) values: compile + SQLite, validated by PrqlTrace through Eval of the specification's tree
    progs = []
    for i, t in enumerate(trees):
        if has_op(t["tree"], {"~=", "+u"}) or (t["tree"]["t"] == "un" and t["tree"]["op"] == "+"):
            continue
        for variant in ("min", "full"):
            progs.append({"id": f"v{i}{variant[0]}", "decl": True, "steps": [from_("t"), select({"n": "v", "e": t["tree"], "raw": t[variant]})]})
    rnd = random.Random(seed())
    if tier == "quick" and len(progs) > 14000:
        progs = rnd.sample(progs, 14000)
    res = l1check.run(rep, "C02-val", progs, dbset, {"rows", "ExecError", "Panic", "rejected-wellformed"})
    # (e) the same trees split over a derived column: the child expression is computed by `derive`, the parent refers to
    # it by name (the SQL back end inlines the column's expression into the parent's: the parentheses must be re-derived)
    sprogs = []
    def strip(t):
        if isinstance(t, dict):
            return {k: strip(v) for k, v in t.items() if k != "tok"}
        return t
    for i, t in enumerate(trees):
        tr_ = t["tree"]
        if has_op(tr_, {"~=", "+u"}) or (tr_["t"] == "un" and tr_["op"] == "+"):
            continue
        kids = [("l", tr_.get("l")), ("r", tr_.get("r"))] if tr_["t"] == "bin" else [("e", tr_.get("e"))] if tr_["t"] == "un" else []
        for pos, kid in kids:
            if not isinstance(kid, dict) or kid.get("t") not in ("bin", "un"):
                continue
            parent = dict(tr_); parent[pos] = col("zz")
            sprogs.append({"id": f"s{i}{pos}", "decl": True, "steps": [from_("t"), derive(item(strip(kid), "zz")), select(item(strip(parent), "v"))]})
    if tier == "quick" and len(sprogs) > 5000:
        sprogs = rnd.sample(sprogs, 5000)
    res_s = l1check.run(rep, "C02-split", sprogs, dbset, {"rows", "ExecError", "Panic", "rejected-wellformed"})
    # (g) null tests whose operand is an operator expression - written in place, and computed by `derive` and referred to by
    # name (the back end inlines the definition: `(a > 0 || b > 0) == null` must not become `a > 0 OR b > 0 IS NULL`)
    ca, cb, ck = col("a"), col("b"), col("k")
    kids_g = [bin_("||", bin_(">", ca, lit(0)), bin_(">", cb, lit(0))), bin_("&&", bin_(">", ca, lit(0)), bin_(">", cb, lit(1))),
              un("!", bin_(">", ca, lit(0))), bin_(">", ca, cb), bin_("==", ca, cb), bin_("??", ca, cb), bin_("+", ca, cb), bin_("*", ca, cb),
              un("-", ca), bin_("||", bin_("==", ca, lit(None)), bin_(">", cb, lit(0))), case((bin_(">", ca, lit(0)), cb))]
    gprogs = []
    for i, kid in enumerate(kids_g):
        for j, mk in enumerate((lambda x: bin_("==", x, lit(None)), lambda x: bin_("!=", x, lit(None)), lambda x: bin_("==", lit(None), x),
                                lambda x: un("!", bin_("==", x, lit(None))), lambda x: bin_("&&", bin_("!=", x, lit(None)), bin_(">", ck, lit(0))))):
            gprogs.append({"id": f"g{i}_{j}i", "decl": True, "steps": [from_("t"), select(item(mk(kid), "v"), item(ck))]})
            gprogs.append({"id": f"g{i}_{j}s", "decl": True, "steps": [from_("t"), derive(item(kid, "zz")), select(item(mk(col("zz")), "v"), item(ck))]})
            gprogs.append({"id": f"g{i}_{j}f", "decl": True, "steps": [from_("t"), derive(item(kid, "zz")), filter_(mk(col("zz"))), select(item(ck))]})
    res_g = l1check.run(rep, "C02-null", gprogs, dbset, {"rows", "ExecError", "Panic", "rejected-wellformed"})
    # (f) grouping across dialects (spec/SqlShape.tla): the SQL expression of every (parent, child, side) tree, as the
    # dialect's parser reads it back, must be the tree's shape - no engine needed, all 12 dialects
    import sqlshape
    shp = sqlshape.run(d, tier)
    for x in shp["rejects"]:
        rep.violation({"property": "C02", "kind": "sqlshape-grouping", "dialect": x["dialect"], "prql": x["prql"], "sql": x["sql"], "tree": x["tree"],
                       "read_back_by_the_dialects_parser": x["parsed"], "specified_shape": x["specified"], "trace_file": shp["trace"]},
                      {"what": "sqlshape-grouping", "dialect": x["dialect"], "src": x["prql"], "sql": x["sql"], "tags": x["tags"]})
    # binding demonstration: the operands of one recorded expression swapped, one template lost
    evs_ = read_ndjson(shp["trace"]); done_ = 0
    for e_ in evs_:
        if e_["ev"] == "Expr" and e_["outcome"] == "sql" and e_["ast"]["k"] == "bin" and len(e_["ast"]["a"]) == 2 and e_["ast"]["a"][0] != e_["ast"]["a"][1] and e_["id"] not in {x["id"] for x in shp["rejects"]}:
            e_["ast"]["a"] = e_["ast"]["a"][::-1]; e_["id"] = "self-swapped"; done_ += 1
            break
    write_ndjson(os.path.join(d, "shape.bad.ndjson"), evs_)
    ob_, _ = tlc("SqlShape", "SqlShape.cfg", env={"TRACE": os.path.join(d, "shape.bad.ndjson")}, workers=1, deque=True, xmx="8g")
    if done_ != 1 or not any(r_[1] == "self-swapped" for r_ in tuples(ob_, "REJECT")):
        raise ToolError("C02 SqlShape selftest: swapped operands not rejected")
    # (c) case / in-range / nested sub-expressions beyond the bound (rendered fully parenthesised)
    g = gen.G(seed(), safe=False, max_expr=3)
    fr = [("a", ""), ("b", ""), ("k", "")]
    rprogs = []
    for i in range(600 if tier == "quick" else 8000):
        e = g.num(fr) if i % 2 == 0 else g.boolean(fr)
        rprogs.append({"id": f"r{i}", "decl": True, "steps": [from_("t"), select(item(e, "v"))]})
    # (d) null and literal folding: every logical / arithmetic / comparison / coalesce operator over operands that are
    # literals (true, false, null, 0, 1, 2), columns and comparisons - the shapes compile-time simplification rewrites
    a_, b_ = col("a"), col("b")
    B = [bin_(">", a_, b_), bin_("==", a_, lit(None)), lit(True), lit(False), lit(None), un("!", bin_("<", a_, lit(2)))]
    N = [a_, b_, lit(2), lit(0), lit(1), lit(None), bin_("+", a_, lit(1))]
    fold = []
    for op in ("&&", "||"):
        fold += [bin_(op, x, y) for x in B for y in B]
    fold += [un("!", x) for x in B]
    for op in ("+", "-", "*", "/", "//", "%", "??", "==", "!=", "<", ">="):
        fold += [bin_(op, x, y) for x in N for y in N]
    fold += [un("-", x) for x in N]
    fold += [case((c_, x), (lit(True), y)) for c_ in B for x in (a_, lit(2), lit(None)) for y in (b_, lit(0), lit(None))]
    fold += [case((c_, x)) for c_ in B for x in (a_, lit(2), lit(None))]
    # branch values over the boolean domain: `case [c => true, true => false]` is not `c` (a NULL condition takes the default),
    # observed where NULL and false differ (projected, negated, null-tested, coalesced), with two and three branches
    TF = [lit(True), lit(False), bin_(">", b_, lit(0)), lit(None)]
    bcases = [case((c_, x), (lit(True), y)) for c_ in B for x in TF[:3] for y in TF if x != y]
    bcases += [case((bin_("==", lit(1), lit(2)), bin_(">", b_, lit(0))), (c_, x), (lit(True), y)) for c_ in B[:2] + B[5:] for x in TF[:2] for y in TF[:2] if x != y]
    bcases += [case((c_, x), (lit(False), lit(None)), (lit(True), y)) for c_ in B[:2] for x in TF[:2] for y in TF[:2] if x != y]
    fold += bcases
    fold += [un("!", e_) for e_ in bcases[:40]] + [bin_("==", e_, lit(None)) for e_ in bcases[:24]] + [bin_("??", e_, lit(True)) for e_ in bcases[:24]]
    fold += [bin_("&&", e_, lit(True)) for e_ in bcases[:12]] + [bin_("||", e_, lit(False)) for e_ in bcases[:12]]
    fold += [bin_(op, bin_(op2, x, y), z) for op in ("&&", "||") for op2 in ("&&", "||") for x in B[:5] for y in (lit(True), lit(False), lit(None)) for z in (B[0], lit(None))]
    fprogs = [{"id": f"f{i}", "decl": True, "steps": [from_("t"), select(item(e, "v"))]} for i, e in enumerate(fold)]
    fprogs += [{"id": f"ff{i}", "decl": True, "steps": [from_("t"), filter_(e), select(item("k"))]} for i, e in enumerate(fold[:78])]
    res3 = l1check.run(rep, "C02-fold", fprogs, dbset, {"rows", "ExecError", "Panic", "rejected-wellformed"})
    res2 = l1check.run(rep, "C02-rnd", rprogs, dbset, {"rows", "ExecError", "Panic", "rejected-wellformed"})
    for kk in ("accepted", "rejected"):
        res2[kk] += res3[kk]
    rprogs = rprogs + fprogs
    # binding demonstration for the parse-tree channel: swap the operands in one observed tree
    bad = copy.deepcopy(shards[0][:50])
    for e in bad:
        if e["observed"].get("t") == "bin" and e["observed"]["l"] != e["observed"]["r"]:
            e["observed"]["l"], e["observed"]["r"] = e["observed"]["r"], e["observed"]["l"]; break
    write_ndjson(os.path.join(d, "bad.ndjson"), bad + [{"event": "End"}])
    bout, _ = tlc("ExprTrace", "ExprTrace.cfg", env={"TRACE": os.path.join(d, "bad.ndjson")}, workers=1, deque=True)
    if len(tuples(bout, "REJECT")) < 1:
        raise ToolError("C02 selftest: corrupted parse tree not rejected")
    st = l1.selftest(dbset.replace("dbs_expr", "dbs_quick"))
    cov = {"states": info["distinct"] + tstates, "transitions": info["generated"] + tstates,
           "traces_validated_against_impl": nparse + res["accepted"] + res["rejected"] + res2["accepted"] + res2["rejected"] + res_s["accepted"] + res_s["rejected"],
           "grouping_across_dialects": {"trees": shp["trees"], "dialects": 12, "templates_read_from_std_sql_prql": shp["templates"], "expressions_judged": shp["judged"],
                                        "not_judged": shp["skipped"], "rejections": len(shp["rejects"]), "selftest": "swapped operands rejected",
                                        "explanation": "spec/SqlShape.tla: Shape(op(l, r)) = Template(op)[l := Shape(l), r := Shape(r)] over the trees sqlparser's parser for the dialect reads back (parentheses dropped; sums, products, AND / OR chains compared up to re-grouping); every (parent, child, side) adjacency of 15 binary and 2 unary operators, literals incl. negative ones, null tests, depth-3 samples"},
           "null_tests_over_operator_expressions": {"programs": len(gprogs), "accepted": res_g["accepted"], "rejected": res_g["rejected"], "not_judged": res_g["skipped"]},
           "split_over_derived_column": {"programs": len(sprogs), "accepted": res_s["accepted"], "rejected": res_s["rejected"], "not_judged": res_s["skipped"]},
           "samples": [trees[0], trees[len(trees) // 2], trees[-1], {"prql": res2["side"].get("r0", {}).get("src", "")[-200:], "sql": res2["side"].get("r0", {}).get("sql")}],
           "exhaustive": True,
           "explanation": f"ExprMC grew {len(trees)} expression trees (every parent/child/side adjacency over {len(expr_cfg(tier)['ops'])} binary and {len(expr_cfg(tier)['unops'])} unary operators, depth {expr_cfg(tier)['depth']}; Parse(Show(t)) = t and Parse(ShowFull(t)) = t checked by TLC); {nparse} renderings parsed by prqlc and compared with the specification's tree (ExprTrace); {len(progs)} renderings + {len(rprogs)} random case/in/nested expressions compiled, executed on SQLite over the value domain and validated through Eval (PrqlTrace)",
           "trees": len(trees), "parse_checked": nparse, "value_programs": len(progs) + len(rprogs),
           "rejections_by_kind": {"bounded": res["by_what"], "random": res2["by_what"]}, "selftest": {"parse_corruption_rejected": True, "value_channel": st}}
    return rep.finish("model_checking", cov, l1props_assume())

def l1props_assume():
    import l1props
    return l1props.ASSUME + ["booleans take part in arithmetic as 0/1 and numbers in logic as non-zero = true only where SQLite's dynamic typing evaluates such trees; ** is evaluated for integer exponents only; % for integer operands only"]
