SPECIFICATION Spec
INVARIANT Laws
INVARIANT Emit
CHECK_DEADLOCK FALSE
