//! SQLite execution of emitted SQL against the database instances of the models.
use crate::value;
use rusqlite::{functions::FunctionFlags, Connection};
use serde_json::{json, Value as J};

/// Scalar functions the bundled SQLite lacks but the `generic`/`sqlite`
/// dialects may emit.  Listed as an assumption in the evidence files.
pub fn register_shims(c: &Connection) -> rusqlite::Result<()> {
    let f = FunctionFlags::SQLITE_UTF8 | FunctionFlags::SQLITE_DETERMINISTIC;
    fn num(ctx: &rusqlite::functions::Context, i: usize) -> Option<f64> {
        match ctx.get_raw(i) {
            rusqlite::types::ValueRef::Integer(v) => Some(v as f64),
            rusqlite::types::ValueRef::Real(v) => Some(v),
            _ => None,
        }
    }
    c.create_scalar_function("FLOOR", 1, f, |ctx| Ok(num(ctx, 0).map(|x| x.floor())))?;
    c.create_scalar_function("CEIL", 1, f, |ctx| Ok(num(ctx, 0).map(|x| x.ceil())))?;
    c.create_scalar_function("SIGN", 1, f, |ctx| {
        Ok(num(ctx, 0).map(|x| if x > 0.0 { 1i64 } else if x < 0.0 { -1 } else { 0 }))
    })?;
    c.create_scalar_function("POW", 2, f, |ctx| {
        Ok(match (num(ctx, 0), num(ctx, 1)) {
            (Some(a), Some(b)) => Some(a.powf(b)),
            _ => None,
        })
    })?;
    c.create_scalar_function("POWER", 2, f, |ctx| {
        Ok(match (num(ctx, 0), num(ctx, 1)) {
            (Some(a), Some(b)) => Some(a.powf(b)),
            _ => None,
        })
    })?;
    c.create_scalar_function("SQRT", 1, f, |ctx| Ok(num(ctx, 0).map(|x| x.sqrt())))?;
    c.create_scalar_function("EXP", 1, f, |ctx| Ok(num(ctx, 0).map(|x| x.exp())))?;
    c.create_scalar_function("LN", 1, f, |ctx| Ok(num(ctx, 0).map(|x| x.ln())))?;
    c.create_scalar_function("LOG10", 1, f, |ctx| Ok(num(ctx, 0).map(|x| x.log10())))?;
    Ok(())
}

/// Open an in-memory database holding one instance: tables with untyped
/// columns named by `schema`, rows as value records.
pub fn open(schema: &J, inst: &J) -> rusqlite::Result<Connection> {
    let c = Connection::open_in_memory()?;
    register_shims(&c)?;
    if let Some(m) = schema.as_object() {
        for (t, cols) in m {
            let cs: Vec<String> = cols
                .as_array()
                .map(|a| a.iter().map(|c| qi(c.as_str().unwrap_or(""))).collect())
                .unwrap_or_default();
            c.execute(&format!("CREATE TABLE {} ({})", qi(t), cs.join(", ")), [])?;
            if let Some(rows) = inst[t].as_array() {
                let ph: Vec<&str> = cs.iter().map(|_| "?").collect();
                let mut st = c.prepare(&format!("INSERT INTO {} VALUES ({})", qi(t), ph.join(",")))?;
                for r in rows {
                    let vals: Vec<rusqlite::types::Value> = r
                        .as_array()
                        .map(|a| a.iter().map(value::to_sqlite).collect())
                        .unwrap_or_default();
                    st.execute(rusqlite::params_from_iter(vals))?;
                }
            }
        }
    }
    Ok(c)
}

pub fn qi(name: &str) -> String {
    format!("\"{}\"", name.replace('"', "\"\""))
}

pub struct QueryResult {
    pub names: Vec<String>,
    pub rows: Vec<J>,
}

pub fn query(c: &Connection, sql: &str) -> Result<QueryResult, String> {
    let mut st = c.prepare(sql).map_err(|e| format!("prepare: {e}"))?;
    let names: Vec<String> = st.column_names().iter().map(|s| s.to_string()).collect();
    let n = names.len();
    let mut rows = vec![];
    let mut q = st.query([]).map_err(|e| format!("query: {e}"))?;
    loop {
        match q.next() {
            Ok(Some(r)) => {
                let mut vals = vec![];
                for i in 0..n {
                    vals.push(value::from_sqlite(r.get_ref(i).map_err(|e| format!("get: {e}"))?));
                }
                rows.push(json!(vals));
                if rows.len() > 5000 {
                    return Err("more than 5000 rows".into());
                }
            }
            Ok(None) => break,
            Err(e) => return Err(format!("step: {e}")),
        }
    }
    Ok(QueryResult { names, rows })
}
