SPECIFICATION Spec
INVARIANT RowsFitFrame
INVARIANT WorldsSorted
INVARIANT SomeWorld
INVARIANT NamesDistinct
INVARIANT Emit
PROPERTY StepLaws
CHECK_DEADLOCK FALSE
