SPECIFICATION Spec
CONSTANTS
  Alphabet = {"l", "e", "t", "(", " ", "a"}
  MaxLen = 4
INVARIANTS ModelTiles ModelRelex
CHECK_DEADLOCK FALSE
