----------------------------- MODULE SqlScope -----------------------------
(* C07 - every accepted program compiles to SQL the selected dialect      *)
(* parses and binds.  A monitor over a walk of the statement that         *)
(* sqlparser's parser for the dialect reads back from prqlc's output      *)
(* (lib/sqlwalk.py records the walk, it does not judge).                  *)
(*                                                                        *)
(* State: the base tables the program names, a stack of WITH frames       *)
(* (CTE name -> relation), a stack of SELECT scopes (aliases in FROM      *)
(* order with their relations, the output columns collected so far) and   *)
(* a stack of finished relations (operands of set operations, bodies of   *)
(* CTEs and derived tables).  Verdict(m, e) is "" when the monitor can    *)
(* take event e, otherwise the name of the rule of the property that e    *)
(* breaks.                                                                *)
EXTENDS Integers, Sequences, FiniteSets, TLC, SequencesExt

\* a relation: column names in order ("" = unnamed) and whether further,
\* unknown columns may exist (a star over a table of unknown schema)
Rel(open, cols) == [open |-> open, cols |-> cols]
OpenRel == Rel(TRUE, <<>>)
NoRel == [open |-> FALSE, cols |-> <<"?none">>]

Set(s) == { s[i] : i \in 1 .. Len(s) }
Has(rel, c) == rel.open \/ c \in Set(rel.cols)
Count(s, P(_)) == Cardinality({ i \in 1 .. Len(s) : P(s[i]) })

M0 == [dialect |-> "", tables |-> <<>>, world |-> "open",
       frames |-> <<>>,            \* stack of WITH frames, each a sequence of [name, rel]
       scopes |-> <<>>,            \* stack of SELECT scopes, innermost last
       results |-> <<>>,           \* stack of finished relations, newest last
       expect |-> <<>>, hasExpect |-> FALSE, ordered |-> TRUE,
       takes |-> <<>>, expectTakes |-> <<>>, hasTakes |-> FALSE,   \* C03: LIMIT / OFFSET of each query, in walk order   \* C05: the columns the statement must return
       judged |-> TRUE]

NewScope(iso) == [iso |-> iso, aliases |-> <<>>, out |-> <<>>, outOpen |-> FALSE, nproj |-> 0]

----------------------------------------------------------------------------
\* Feature table: constructs a dialect cannot express (from the engines'
\* documentation; only entries that are certain - everything else is not judged).
Unsupported(f, d) ==
  CASE f = "except-all"    -> d \in {"sqlite", "mssql"}          \* SQLite compound operators: UNION [ALL], INTERSECT, EXCEPT; T-SQL has no ALL for EXCEPT/INTERSECT
    [] f = "intersect-all" -> d \in {"sqlite", "mssql"}
    [] f = "setop-bare"    -> d \in {"bigquery"}                 \* BigQuery requires ALL | DISTINCT
    [] f \in {"union-distinct", "except-distinct", "intersect-distinct"} -> d \in {"sqlite", "mssql"}   \* no DISTINCT keyword after a compound operator
    [] f = "distinct-on"   -> d \in {"sqlite", "mysql", "mssql", "bigquery", "snowflake", "ansi"}
    [] f = "limit"         -> d \in {"mssql"}                    \* T-SQL has TOP / OFFSET-FETCH, no LIMIT
    [] f = "limit-comma"   -> d \notin {"mysql", "sqlite", "clickhouse", "generic"}
    [] f = "fetch"         -> d \in {"sqlite", "mysql", "bigquery", "clickhouse"}
    [] f = "fetch-without-offset" -> d \in {"mssql"}             \* T-SQL: FETCH only after OFFSET
    [] f = "fetch-without-order"  -> d \in {"mssql"}             \* T-SQL: OFFSET/FETCH only with ORDER BY
    [] f = "offset-without-limit" -> d \in {"sqlite", "mysql", "bigquery"}
    [] f = "star-exclude"  -> d \in {"sqlite", "postgres", "mysql", "mssql", "ansi", "bigquery", "glaredb"}
    [] f = "star-except"   -> d \in {"sqlite", "postgres", "mysql", "mssql", "ansi", "duckdb", "snowflake", "glaredb"}
    [] f = "qualify"       -> d \in {"sqlite", "postgres", "mysql", "mssql", "ansi", "glaredb"}
    [] f = "lateral"       -> d \in {"sqlite"}
    [] OTHER -> FALSE

----------------------------------------------------------------------------
\* lookups
AllCtes(m) == FlattenSeq(m.frames)
CteIdx(m, n) == { i \in 1 .. Len(AllCtes(m)) : AllCtes(m)[i].name = n }
TabIdx(m, n) == { i \in 1 .. Len(m.tables) : m.tables[i].name = n }

\* the relation a name in FROM denotes: the innermost CTE of that name,
\* else a base table of the program, else (open world) an unknown table
LookupRel(m, n) ==
  IF CteIdx(m, n) # {} THEN AllCtes(m)[Max(CteIdx(m, n))].rel
  ELSE IF TabIdx(m, n) # {} THEN LET t == m.tables[Max(TabIdx(m, n))] IN Rel(~t.closed, t.cols)
  ELSE IF m.world = "open" THEN OpenRel
  ELSE NoRel

Top(s) == s[Len(s)]
Pop(s) == SubSeq(s, 1, Len(s) - 1)
Pop2(s) == SubSeq(s, 1, Len(s) - 2)

AliasIdx(sc, q) == { i \in 1 .. Len(sc.aliases) : sc.aliases[i].alias = q }
\* in how many FROM items of the scope is the bare column c certainly / possibly present
Certain(sc, c) == Count(sc.aliases, LAMBDA a : c \in Set(a.rel.cols))
AnyOpen(sc) == \E i \in 1 .. Len(sc.aliases) : sc.aliases[i].rel.open

\* resolution of a reference in scope number k (then outwards while the scope is not isolated)
RECURSIVE Resolve(_, _, _, _)
Resolve(m, k, q, c) ==
  IF k = 0 THEN (IF q = "" THEN "unknown-column" ELSE "dangling-alias")
  ELSE LET sc == m.scopes[k]
           here == IF q # ""
                   THEN IF AliasIdx(sc, q) # {}
                        THEN (IF c = "*" \/ \E i \in AliasIdx(sc, q) : Has(sc.aliases[i].rel, c) THEN "" ELSE "unknown-column")
                        \* `q.c` may also be a field c of a column q
                        ELSE IF Certain(sc, q) > 0 THEN "" ELSE "dangling-alias"
                   ELSE IF Certain(sc, c) = 1 THEN ""
                        ELSE IF Certain(sc, c) > 1 THEN "ambiguous-column"
                        ELSE IF AnyOpen(sc) THEN "" ELSE "unknown-column"
       IN IF here = "" \/ here = "ambiguous-column" THEN here
          ELSE IF sc.iso THEN here
          ELSE LET up == Resolve(m, k - 1, q, c) IN IF up = "" THEN "" ELSE here

OutNames(sc) == Set(sc.out) \ {""}

RefVerdict(m, e) ==
  IF e.clause = "setorder"
  THEN (IF m.results = <<>> THEN "walk" ELSE IF Has(Top(m.results), e.name) THEN "" ELSE "unknown-column")
  ELSE IF m.scopes = <<>> THEN (IF e.clause = "values" THEN "unknown-column" ELSE "walk")
  ELSE LET sc == Top(m.scopes)
           r == Resolve(m, Len(m.scopes), e.q, e.name)
       IN CASE e.clause = "orderby" ->
                 \* an output column name takes precedence in ORDER BY
                 IF e.q = "" /\ e.name \in OutNames(sc) THEN "" ELSE r
            [] e.clause \in {"groupby", "having"} ->
                 IF r # "" /\ e.q = "" /\ e.name \in OutNames(sc) THEN "" ELSE r
            [] OTHER -> r

\* columns a star over the scope expands to
StarCols(sc) == FlattenSeq([i \in 1 .. Len(sc.aliases) |-> sc.aliases[i].rel.cols])
Without(s, X) == SelectSeq(s, LAMBDA c : c \notin X)

RenameCols(rel, cols) ==
  IF cols = <<>> THEN rel
  ELSE Rel(FALSE, [i \in 1 .. Len(cols) |-> cols[i]])

Verdict(m, e) ==
  CASE e.ev = "Feature" -> IF Unsupported(e.name, m.dialect) THEN "unsupported-construct" ELSE ""
    [] e.ev \in {"With", "CteBegin", "Open", "Join", "Call", "FromEnd"} -> ""
    [] e.ev = "WithEnd" -> IF m.frames = <<>> THEN "walk" ELSE ""
    [] e.ev = "CteEnd" ->
         IF m.results = <<>> \/ m.frames = <<>> THEN "walk"
         ELSE IF e.cols # <<>> /\ ~Top(m.results).open /\ Len(e.cols) # Len(Top(m.results).cols) THEN "cte-column-list-arity"
         ELSE ""
    [] e.ev = "From" ->
         IF m.scopes = <<>> THEN "walk"
         ELSE IF e.kind = "derived" /\ m.results = <<>> THEN "walk"
         ELSE IF e.kind = "table" /\ LookupRel(m, e.name) = NoRel THEN "unknown-relation"
         ELSE IF e.alias # "" /\ AliasIdx(Top(m.scopes), e.alias) # {} THEN "duplicate-alias"
         ELSE ""
    [] e.ev = "Ref" -> RefVerdict(m, e)
    [] e.ev = "Proj" ->
         IF m.scopes = <<>> THEN "walk"
         ELSE LET sc == Top(m.scopes) IN
           CASE e.kind = "star" ->
                  IF sc.aliases = <<>> THEN "star-without-from"
                  ELSE IF ~AnyOpen(sc) /\ ~(Set(e.cols) \subseteq Set(StarCols(sc))) THEN "unknown-column"
                  ELSE ""
             [] e.kind = "qstar" ->
                  IF AliasIdx(sc, e.q) = {} THEN "dangling-alias"
                  ELSE LET r == sc.aliases[Max(AliasIdx(sc, e.q))].rel IN
                       IF ~r.open /\ ~(Set(e.cols) \subseteq Set(r.cols)) THEN "unknown-column" ELSE ""
             [] OTHER -> ""
    [] e.ev = "Close" ->
         IF m.scopes = <<>> THEN "walk"
         \* PostgreSQL documents the empty select list; nowhere else may a projection be empty
         ELSE IF Top(m.scopes).nproj = 0 /\ m.dialect \notin {"postgres", "glaredb"} THEN "empty-projection"
         \* a star that expands to nothing: every column of a closed relation excluded
         ELSE IF Top(m.scopes).nproj > 0 /\ ~Top(m.scopes).outOpen /\ Top(m.scopes).out = <<>> THEN "empty-projection"
         ELSE ""
    [] e.ev = "SetOp" ->
         IF Len(m.results) < 2 THEN "walk"
         ELSE LET r == Top(m.results)  l == m.results[Len(m.results) - 1] IN
              IF ~l.open /\ ~r.open /\ Len(l.cols) # Len(r.cols) THEN "setop-arity"
              ELSE IF Unsupported(e.kind \o "-" \o e.name, m.dialect) THEN "unsupported-construct"
              ELSE IF e.name = "none" /\ Unsupported("setop-bare", m.dialect) THEN "unsupported-construct"
              ELSE ""
    [] e.ev = "Values" -> ""
    [] e.ev = "Take" -> ""
    [] e.ev = "SubqueryEnd" -> IF m.results = <<>> THEN "walk" ELSE ""
    [] e.ev \in {"Unknown", "NotAQuery"} -> "walk"
    [] OTHER -> "walk"

Step(m, e) ==
  CASE e.ev = "With" -> [m EXCEPT !.frames = Append(m.frames, <<>>)]
    [] e.ev = "WithEnd" -> [m EXCEPT !.frames = Pop(m.frames)]
    [] e.ev = "CteBegin" ->
         \* the name of a recursive CTE is visible inside its own body
         IF e.flag THEN [m EXCEPT !.frames[Len(m.frames)] = Append(@, [name |-> e.name, rel |-> OpenRel])] ELSE m
    [] e.ev = "CteEnd" ->
         [m EXCEPT !.frames[Len(m.frames)] = Append(@, [name |-> e.name, rel |-> RenameCols(Top(m.results), e.cols)]),
                   !.results = Pop(m.results)]
    [] e.ev = "Open" -> [m EXCEPT !.scopes = Append(m.scopes, NewScope(e.flag))]
    [] e.ev = "From" ->
         LET rel == CASE e.kind = "table" -> LookupRel(m, e.name)
                      [] e.kind = "derived" -> Top(m.results)
                      [] OTHER -> OpenRel
             ent == [alias |-> e.alias, rel |-> RenameCols(rel, e.cols)]
         IN [m EXCEPT !.scopes[Len(m.scopes)].aliases = Append(@, ent),
                      !.results = IF e.kind = "derived" THEN Pop(m.results) ELSE m.results]
    [] e.ev = "Proj" ->
         LET sc == Top(m.scopes)
             add == CASE e.kind = "star" -> Without(StarCols(sc), Set(e.cols))
                      [] e.kind = "qstar" -> Without(sc.aliases[Max(AliasIdx(sc, e.q))].rel.cols, Set(e.cols))
                      [] e.kind = "anon" -> <<"">>
                      [] OTHER -> <<e.name>>
             opn == CASE e.kind = "star" -> AnyOpen(sc)
                      [] e.kind = "qstar" -> sc.aliases[Max(AliasIdx(sc, e.q))].rel.open
                      [] OTHER -> FALSE
         IN [m EXCEPT !.scopes[Len(m.scopes)].out = @ \o add,
                      !.scopes[Len(m.scopes)].outOpen = @ \/ opn,
                      !.scopes[Len(m.scopes)].nproj = @ + 1]
    [] e.ev = "Close" ->
         [m EXCEPT !.results = Append(m.results, Rel(Top(m.scopes).outOpen, Top(m.scopes).out)),
                   !.scopes = Pop(m.scopes)]
    [] e.ev = "SetOp" -> [m EXCEPT !.results = Append(Pop2(m.results), m.results[Len(m.results) - 1])]
    [] e.ev = "Values" -> [m EXCEPT !.results = Append(m.results, Rel(FALSE, [i \in 1 .. e.n |-> ""]))]
    [] e.ev = "SubqueryEnd" -> [m EXCEPT !.results = Pop(m.results)]
    [] e.ev = "Take" -> [m EXCEPT !.takes = Append(m.takes, <<e.name, e.q, e.kind>>)]
    [] OTHER -> m

\* a walk that is complete leaves exactly the statement's relation
Complete(m) == Len(m.results) = 1 /\ m.scopes = <<>> /\ m.frames = <<>>

\* C05: the statement's relation has one column per column of the expected frame, in order,
\* under the same name wherever SQL gives the column a name (unknown when a star ranges over a
\* table of unknown schema)
Bag(s) == [x \in Set(s) |-> Cardinality({ i \in 1 .. Len(s) : s[i] = x })]
FrameOk(m) ==
  ~m.hasExpect \/ LET r == Top(m.results) IN
     \/ r.open
     \/ /\ Len(r.cols) = Len(m.expect)
        /\ IF m.ordered
           \* "" = a column the program gave no name: any (generated) name will do
           THEN \A i \in 1 .. Len(r.cols) : r.cols[i] = "" \/ m.expect[i] = "" \/ r.cols[i] = m.expect[i]
           \* open schema: the order inside a star is the table's, not the compiler's; names as a bag
           ELSE LET nm(s) == SelectSeq(s, LAMBDA c : c # "" /\ c \in Set(m.expect) /\ c \in Set(r.cols)) IN
                /\ Bag(nm(r.cols)) = Bag(nm(m.expect))
                /\ \A c \in Set(m.expect) \ {""} : c \in Set(r.cols) \/ "" \in Set(r.cols)
                /\ \A c \in Set(r.cols) \ {""} : c \in Set(m.expect) \/ "" \in Set(m.expect)

\* C03 beyond SQLite: the statement selects the same row positions in the same places as the statement
\* emitted for SQLite (whose result was validated by execution): the same sequence of (limit, offset)
\* and, where that statement orders (next to a limit, or at its end: entry "final"), orders by keys of the same number and
\* directions; where it does not order, any order is admissible (DISTINCT ON and T-SQL's OFFSET..FETCH need one)
TakeEq(d, got, exp) == /\ got[1] = exp[1] /\ got[2] = exp[2]
                       /\ (got[3] = exp[3] \/ exp[3] = "")
TakesOk(m) == ~m.hasTakes \/ (/\ Len(m.takes) = Len(m.expectTakes)
                               /\ \A i \in 1 .. Len(m.takes) : TakeEq(m.dialect, m.takes[i], m.expectTakes[i]))

Begin(e) == [M0 EXCEPT !.dialect = e.q, !.tables = e.tabs, !.world = e.alias, !.expect = e.expect, !.hasExpect = e.has_expect, !.ordered = e.ordered,
                       !.expectTakes = e.expect_takes, !.hasTakes = e.has_takes]
=============================================================================
