----------------------------- MODULE RqTrace -----------------------------
(* Trace validation for C16: one Reset per RQ, then its walk; an event    *)
(* the monitor cannot take is consumed by Reject (and the rest of that RQ *)
(* is skipped), so every RQ of the trace gets a verdict.                  *)
EXTENDS Rq, Json, IOUtils

Rec == ndJsonDeserialize(IOEnv.TRACE)
VARIABLES l, m, cur, bad, nrq, nrej
vars == <<l, m, cur, bad, nrq, nrej>>
TInit == l = 1 /\ m = M0 /\ cur = "" /\ bad = FALSE /\ nrq = 0 /\ nrej = 0
Ev == Rec[l]
Consume == l <= Len(Rec) /\ l' = l + 1

Reset == Consume /\ Ev.ev = "Reset" /\ m' = M0 /\ cur' = Ev.id /\ bad' = FALSE /\ nrq' = nrq + 1 /\ UNCHANGED nrej
Walk(kind) == /\ Consume /\ Ev.ev = kind /\ ~bad /\ Enabled(m, Ev)
              /\ m' = Step(m, Ev) /\ UNCHANGED <<cur, bad, nrq, nrej>>
Reject == /\ Consume /\ Ev.ev \notin {"Reset", "End"} /\ ~bad /\ ~Enabled(m, Ev)
          /\ bad' = TRUE /\ nrej' = nrej + 1 /\ PrintT(<<"REJECT", cur, Ev.ev, l>>)
          /\ UNCHANGED <<m, cur, nrq>>
Skip == Consume /\ Ev.ev \notin {"Reset", "End"} /\ bad /\ UNCHANGED <<m, cur, bad, nrq, nrej>>
End == Consume /\ Ev.ev = "End" /\ PrintT(<<"COUNTS", nrq, nrej>>) /\ UNCHANGED <<m, cur, bad, nrq, nrej>>

TNext == \/ Reset \/ Reject \/ Skip \/ End
         \/ Walk("TableDecl") \/ Walk("Main") \/ Walk("PipeBegin") \/ Walk("PipeEnd")
         \/ Walk("From") \/ Walk("Join") \/ Walk("Append") \/ Walk("Compute") \/ Walk("Filter")
         \/ Walk("Sort") \/ Walk("Take") \/ Walk("Aggregate") \/ Walk("Select")
         \/ Walk("LoopBegin") \/ Walk("LoopEnd")
TraceSpec == TInit /\ [][TNext]_vars
TraceAccepted ==
  LET d == TLCGet("stats").diameter IN
  /\ PrintT(<<"TRACE", d - 1, Len(Rec)>>)
  /\ d - 1 = Len(Rec)
=======================================================================
