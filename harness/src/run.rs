//! `pv run`: programs (ndjson) -> render -> compile -> execute on every
//! database instance -> events (ndjson) for PrqlTrace.tla.
use crate::{api, db, render};
use serde_json::{json, Value as J};
use std::io::{BufRead, Write};

pub fn emit(out: &mut dyn Write, v: &J) {
    let _ = writeln!(out, "{}", v);
}

/// Run one program; returns the events and the (source, sql) for replay files.
pub fn run_program(p: &J, dbset: &J, conns: &[rusqlite::Connection], target: &str, out: &mut dyn Write, side: &mut dyn Write) {
    let src = render::program(p, &dbset["schema"]);
    let id = p["id"].as_str().unwrap_or("?").to_string();
    emit(out, &json!({"event":"Reset","id":id}));
    if let Some(ds) = p["decls"].as_array() {
        for d in ds {
            emit(out, &json!({"event":"Decl","d":d}));
        }
    }
    if let Some(steps) = p["steps"].as_array() {
        for s in steps {
            emit(out, &json!({"event":"Step","s":s}));
        }
    }
    let mut sideinfo = json!({"id":id,"src":src,"target":target});
    match api::compile(&src, Some(target)) {
        api::Outcome::Ok(sql) => {
            sideinfo["sql"] = json!(sql);
            let rqcols = api::rq_columns(&src).unwrap_or_default();
            sideinfo["rqcols"] = json!(rqcols);
            let mut names: Vec<String> = vec![];
            let mut rows = vec![];
            let mut err: Option<String> = None;
            for c in conns {
                match db::query(c, &sql) {
                    Ok(r) => {
                        sideinfo["names"] = json!(r.names);
                        names = r.names;
                        rows.push(json!(r.rows));
                    }
                    Err(e) => {
                        err = Some(e);
                        break;
                    }
                }
            }
            match err {
                None => emit(out, &json!({"event":"Observe","names":names,"rows":rows,"rqcols":rqcols})),
                Some(e) => {
                    sideinfo["exec_error"] = json!(e);
                    emit(out, &json!({"event":"ExecError","msg":e}))
                }
            }
        }
        api::Outcome::Err(e) => {
            sideinfo["error"] = api::err_json(&e);
            emit(out, &json!({"event":"CompileError","reason": e.inner.first().map(|m| m.reason.clone()).unwrap_or_default()}));
        }
        api::Outcome::Panic { msg, file, line } => {
            sideinfo["panic"] = json!({"msg":msg,"file":file,"line":line});
            emit(out, &json!({"event":"Panic","msg":msg,"file":file,"line":line}));
        }
    }
    emit(side, &sideinfo);
}

/// args: <dbset.json> <programs.ndjson> <events.ndjson> <side.ndjson> [target]
pub fn main(args: &[String]) -> i32 {
    let dbset: J = serde_json::from_str(&std::fs::read_to_string(&args[0]).expect("dbset")).expect("dbset json");
    let progs = std::io::BufReader::new(std::fs::File::open(&args[1]).expect("programs"));
    let mut out = std::io::BufWriter::new(std::fs::File::create(&args[2]).expect("events"));
    let mut side = std::io::BufWriter::new(std::fs::File::create(&args[3]).expect("side"));
    let target = args.get(4).map(|s| s.as_str()).unwrap_or("sqlite");
    let conns: Vec<rusqlite::Connection> = dbset["dbs"]
        .as_array()
        .expect("dbs")
        .iter()
        .map(|i| db::open(&dbset["schema"], i).expect("open db"))
        .collect();
    emit(&mut out, &json!({"event":"Init","dbs":dbset["dbs"],"schema":dbset["schema"]}));
    let mut n = 0;
    for line in progs.lines() {
        let line = line.expect("read");
        if line.trim().is_empty() {
            continue;
        }
        let p: J = match serde_json::from_str(&line) {
            Ok(p) => p,
            Err(e) => {
                eprintln!("bad program line: {e}");
                return 2;
            }
        };
        run_program(&p, &dbset, &conns, target, &mut out, &mut side);
        n += 1;
    }
    eprintln!("pv run: {n} programs");
    0
}

/// `pv runsrc`: sources -> compile for sqlite -> execute on every database instance.
/// args: <dbset.json> <sources.ndjson {"id","src"[,"base"]}> <out.ndjson>.  One Result event per source; values are
/// rendered to strings (the canonical text of their value record) so that the validator compares like with like.
pub fn main_src(args: &[String]) -> i32 {
    let dbset: J = serde_json::from_str(&std::fs::read_to_string(&args[0]).expect("dbset")).expect("dbset json");
    let mut out = std::io::BufWriter::new(std::fs::File::create(&args[2]).expect("out"));
    let conns: Vec<rusqlite::Connection> =
        dbset["dbs"].as_array().expect("dbs").iter().map(|i| db::open(&dbset["schema"], i).expect("open db")).collect();
    for line in std::fs::read_to_string(&args[1]).expect("sources").lines() {
        if line.trim().is_empty() {
            continue;
        }
        let rec: J = serde_json::from_str(line).expect("json");
        let src = rec["src"].as_str().unwrap_or("");
        let mut e = json!({"ev": "Result", "id": rec["id"], "base": rec["base"].as_str().unwrap_or(""), "outcome": "", "names": [], "rows": [], "detail": "", "sql": ""});
        match api::compile(src, Some("sqlite")) {
            api::Outcome::Ok(sql) => {
                e["sql"] = json!(sql);
                let mut all = vec![];
                let mut err = None;
                for c in &conns {
                    match db::query(c, &sql) {
                        Ok(r) => {
                            e["names"] = json!(r.names);
                            all.push(json!(r.rows.iter().map(|row| row.as_array().map(|a| a.iter().map(|v| v.to_string()).collect::<Vec<_>>()).unwrap_or_default()).collect::<Vec<_>>()));
                        }
                        Err(x) => { err = Some(x); break; }
                    }
                }
                match err {
                    None => { e["outcome"] = json!("rows"); e["rows"] = json!(all); }
                    Some(x) => { e["outcome"] = json!("exec"); e["detail"] = json!(x); }
                }
            }
            api::Outcome::Err(m) => { e["outcome"] = json!("err"); e["detail"] = json!(m.inner.first().map(|x| x.reason.clone()).unwrap_or_default()); }
            api::Outcome::Panic { msg, file, line } => { e["outcome"] = json!("panic"); e["detail"] = json!(format!("{file}:{line}:{msg}")); }
        }
        emit(&mut out, &e);
    }
    emit(&mut out, &json!({"ev": "End"}));
    0
}
