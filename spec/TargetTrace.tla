--------------------------- MODULE TargetTrace ---------------------------
(* Trace validation for C18.  For every program `pv target` first logs    *)
(* the canonical outcome for each dialect (option = that dialect, no      *)
(* header), then one event per cell of the matrix.  A cell is accepted    *)
(* iff its outcome is the canonical outcome of Effective(opt, hdr), an    *)
(* unknown consulted name is an error, and the resolver's verdict on the  *)
(* program is the same in every cell.                                     *)
EXTENDS Target, Integers, Json, IOUtils

Rec == ndJsonDeserialize(IOEnv.TRACE)
VARIABLES l, canon, rq, cells, nrej
vars == <<l, canon, rq, cells, nrej>>

TInit == l = 1 /\ canon = [d \in Dialects |-> -1] /\ rq = "" /\ cells = 0 /\ nrej = 0
Ev == Rec[l]
IsEvent(e) == l <= Len(Rec) /\ Rec[l].event = e /\ l' = l + 1

\* a new program: forget the canonical outcomes
Program == IsEvent("Program") /\ canon' = [d \in Dialects |-> -1] /\ rq' = "" /\ UNCHANGED <<cells, nrej>>

\* outcome ids: >= 1 an interned SQL text, 0 = a compile error, -1 = not recorded
Canon ==
  /\ IsEvent("Canon")
  /\ canon' = [canon EXCEPT ![Ev.dialect] = Ev.outcome]
  /\ rq' = Ev.rq
  /\ IF rq = "" \/ rq = Ev.rq THEN UNCHANGED nrej
     ELSE nrej' = nrej + 1 /\ PrintT(<<"REJECT", Ev.prog, Ev.dialect, "absent", "resolver-verdict-differs", l>>)
  /\ UNCHANGED cells

CellOk ==
  LET eff == Effective(Ev.opt, Ev.hdr) IN
  /\ Ev.opt \in Axis /\ Ev.hdr \in Axis
  \* (a program the resolver rejects fails there, before the target is consulted)
  /\ IF eff = "error" THEN Ev.outcome = 0 /\ (Ev.rq = "ok" => Ev.stage = "target")
     ELSE /\ canon[eff] # -1 /\ Ev.outcome = canon[eff]
          /\ (Ev.outcome = 0 => Ev.stage # "target")
  \* the resolver never sees the option; with an unknown option there is no call at all
  /\ (Ev.opt # "unknown") => Ev.rq = rq

Cell ==
  /\ IsEvent("Cell")
  /\ cells' = cells + 1
  /\ IF CellOk THEN UNCHANGED nrej
     ELSE nrej' = nrej + 1 /\ PrintT(<<"REJECT", Ev.prog, Ev.opt, Ev.hdr, "cell", l>>)
  /\ UNCHANGED <<canon, rq>>

End == IsEvent("End") /\ PrintT(<<"COUNTS", cells, nrej>>) /\ UNCHANGED <<canon, rq, cells, nrej>>

TNext == Program \/ Canon \/ Cell \/ End
TraceSpec == TInit /\ [][TNext]_vars
TraceAccepted ==
  LET d == TLCGet("stats").diameter IN
  /\ PrintT(<<"TRACE", d - 1, Len(Rec)>>)
  /\ d - 1 = Len(Rec)
=======================================================================
