//! `pv lexrun`: every string up to a length over an alphabet (and seeded longer ones) through the
//! lexer; one event per string for LexerTrace.tla.
use serde_json::{json, Value as J};
use std::io::Write;

fn kind_str(k: &prqlc::lr::TokenKind) -> String {
    format!("{k:?}")
}

/// the kind class spec/LexGen.tla assigns (payloads dropped, except the character of a control and the binding of a range)
fn kind_class(k: &prqlc::lr::TokenKind) -> String {
    use prqlc::lr::{Literal as L, TokenKind as T};
    match k {
        T::Start => "Start".into(),
        T::NewLine => "NewLine".into(),
        T::Ident(_) => "Ident".into(),
        T::Keyword(_) => "Keyword".into(),
        T::Literal(l) => match l {
            L::Integer(_) => "Integer",
            L::Float(_) => "Float",
            L::Boolean(_) => "Boolean",
            L::String(_) => "String",
            L::RawString(_) => "RawString",
            L::Date(_) => "Date",
            L::Time(_) => "Time",
            L::Timestamp(_) => "Timestamp",
            L::ValueAndUnit(_) => "ValueAndUnit",
            L::Null => "Null",
        }
        .into(),
        T::Range { bind_left, bind_right } => format!("Range:{}{}", if *bind_left { "b" } else { "-" }, if *bind_right { "b" } else { "-" }),
        T::Interpolation(_, _) => "Interpolation".into(),
        T::Control(c) => format!("Control:{c}"),
        T::LineWrap(_) => "LineWrap".into(),
        T::Param(_) => "Param".into(),
        T::Comment(_) => "Comment".into(),
        T::DocComment(_) => "DocComment".into(),
        other => format!("{other:?}"),
    }
}

pub fn lex_event(src: &str, idx: &[usize]) -> J {
    let chars: Vec<char> = src.chars().collect();
    let widths: Vec<usize> = chars.iter().map(|c| c.len_utf8()).collect();
    let ws: Vec<bool> = chars.iter().map(|c| *c == ' ' || *c == '\t').collect();
    let r1 = std::panic::catch_unwind(|| prqlc_parser::lexer::lex_source(src));
    let r2 = crate::api::guarded(|| prqlc::prql_to_tokens(src));
    let api_ok = match &r2 {
        crate::api::Outcome::Ok(_) => "ok",
        crate::api::Outcome::Err(_) => "err",
        crate::api::Outcome::Panic { .. } => "panic",
    };
    let api_ntok = match &r2 {
        crate::api::Outcome::Ok(t) => t.0.len(),
        _ => 0,
    };
    let api_nerr = match &r2 {
        crate::api::Outcome::Err(e) => e.inner.len(),
        _ => 0,
    };
    match r1 {
        Err(_) => json!({"event":"LexPanic","idx":idx,"w":widths,"ws":ws,"src":src}),
        Ok(Ok(tokens)) => {
            let toks: Vec<J> = tokens
                .0
                .iter()
                .map(|t| {
                    let (s, e) = (t.span.start, t.span.end);
                    // the slice lexed in isolation
                    let (rk, rn) = if s <= e && e <= src.len() && src.is_char_boundary(s) && src.is_char_boundary(e) {
                        match std::panic::catch_unwind(|| prqlc_parser::lexer::lex_source(&src[s..e])) {
                            Ok(Ok(ts)) => {
                                let real: Vec<&prqlc::lr::Token> =
                                    ts.0.iter().filter(|x| !matches!(x.kind, prqlc::lr::TokenKind::Start)).collect();
                                (real.first().map(|x| kind_str(&x.kind)).unwrap_or_default(), real.len())
                            }
                            _ => ("<reject>".to_string(), 0),
                        }
                    } else {
                        ("<bad-slice>".to_string(), 0)
                    };
                    json!({"k": kind_str(&t.kind), "c": kind_class(&t.kind), "s": s, "e": e, "rk": rk, "rn": rn,
                           "start": matches!(t.kind, prqlc::lr::TokenKind::Start)})
                })
                .collect();
            json!({"event":"Lex","idx":idx,"w":widths,"ws":ws,"toks":toks,"api":api_ok,"api_ntok":api_ntok,"src":src,"chars":chars.iter().map(|c| c.to_string()).collect::<Vec<_>>()})
        }
        Ok(Err(errs)) => {
            json!({"event":"LexReject","idx":idx,"w":widths,"ws":ws,"nerr":errs.len(),"api":api_ok,"api_nerr":api_nerr,"src":src,"chars":chars.iter().map(|c| c.to_string()).collect::<Vec<_>>()})
        }
    }
}

/// args: <alphabet.json: ["a","1",...]> <maxlen> <out.ndjson> [first-index (shard) | -1]
pub fn main(args: &[String]) -> i32 {
    let alpha: Vec<String> = serde_json::from_str(&std::fs::read_to_string(&args[0]).expect("alphabet")).expect("json");
    let maxlen: usize = args[1].parse().expect("maxlen");
    let mut out = std::io::BufWriter::new(std::fs::File::create(&args[2]).expect("out"));
    let shard: i64 = args.get(3).map(|s| s.parse().expect("shard")).unwrap_or(-1);
    let n = alpha.len();
    let aw: Vec<usize> = alpha.iter().map(|c| c.len()).collect();
    let aws: Vec<bool> = alpha.iter().map(|c| c == " " || c == "\t").collect();
    writeln!(out, "{}", json!({"event":"Space","alphabet":alpha,"aw":aw,"aws":aws,"maxlen":maxlen,"shard":shard})).unwrap();
    let mut count = 0u64;
    // enumeration order: by length, then lexicographic in alphabet indices (1-based in the trace)
    for len in 0..=maxlen {
        if len == 0 {
            if shard <= 0 {
                writeln!(out, "{}", lex_event("", &[])).unwrap();
                count += 1;
            }
            continue;
        }
        let mut idx = vec![0usize; len];
        if shard >= 0 {
            idx[0] = shard as usize;
        }
        loop {
            let s: String = idx.iter().map(|i| alpha[*i].as_str()).collect();
            let idx1: Vec<usize> = idx.iter().map(|i| i + 1).collect();
            writeln!(out, "{}", lex_event(&s, &idx1)).unwrap();
            count += 1;
            // increment
            let mut p = len;
            loop {
                if p == 0 {
                    break;
                }
                p -= 1;
                if shard >= 0 && p == 0 {
                    p = usize::MAX;
                    break;
                }
                idx[p] += 1;
                if idx[p] < n {
                    break;
                }
                idx[p] = 0;
                if p == 0 {
                    p = usize::MAX;
                    break;
                }
            }
            if p == usize::MAX {
                break;
            }
        }
    }
    writeln!(out, "{}", json!({"event":"End","count":count})).unwrap();
    eprintln!("pv lexrun: {count} strings");
    0
}

/// args: <strings.json: ["..",...]> <out.ndjson>  (seeded longer strings, corpus files)
pub fn main_list(args: &[String]) -> i32 {
    let strs: Vec<String> = serde_json::from_str(&std::fs::read_to_string(&args[0]).expect("strings")).expect("json");
    let mut out = std::io::BufWriter::new(std::fs::File::create(&args[1]).expect("out"));
    writeln!(out, "{}", json!({"event":"Space","alphabet":[],"aw":[],"aws":[],"maxlen":0,"shard":-2})).unwrap();
    for s in &strs {
        writeln!(out, "{}", lex_event(s, &[])).unwrap();
    }
    writeln!(out, "{}", json!({"event":"End","count":strs.len()})).unwrap();
    0
}
