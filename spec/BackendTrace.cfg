SPECIFICATION TraceSpec
CONSTANT Repaired = TRUE
POSTCONDITION TraceAccepted
CHECK_DEADLOCK FALSE
