------------------------------- MODULE LexGen -------------------------------
(* The PRQL lexer as a function: prqlc-parser/src/lexer/mod.rs transcribed    *)
(* rule by rule (ordered choice, greedy repetition, the end_expr look-ahead)  *)
(* for sources over the 46 symbols of the C17 alphabets.  Lex(s) is either    *)
(* the token stream - kind class and character span of every token - or the   *)
(* verdict "reject".  LexGenTrace compares it with what the real lexer         *)
(* returned for every string of the bounded space: a generative oracle next   *)
(* to the tiling monitor of Lexer.tla (which cannot see a token of the wrong  *)
(* kind that is wrong consistently).                                          *)
(* A source is a sequence of one-character strings; positions are 1-based,    *)
(* an end position is the index after the last character matched, -1 = fail.  *)
EXTENDS Integers, Sequences, FiniteSets, TLC

Letters == {"a", "x", "l", "e", "t", "s", "f", "r", "T", "Z", "é"}
Digits  == {"0", "1", "2"}
HexDigits == Digits \cup {"a", "e", "f"}
Blank   == {" ", "\t"}
Others  == {"_", ".", ":", "@", "\n", "\\", "#", "\"", "'", "`", "=", "-", "&", "|", "😀",
            "{", "}", "(", ")", "$", "/", "*", "!", "?", "~", ">", "<", ",", "+", "\r"}
Known   == Letters \cup Digits \cup Blank \cup Others
AlNum   == Letters \cup Digits
Controls == {">", "<", "/", "=", "+", "-", "*", "(", ")", ".", ",", ":", "|", "!", "{", "}"}

At(s, i) == IF i >= 1 /\ i <= Len(s) THEN s[i] ELSE ""
Two(s, i) == <<At(s, i), At(s, i + 1)>>
RECURSIVE Many(_, _, _)
\* the position after the longest run of characters of S starting at i
Many(s, i, S) == IF At(s, i) \in S THEN Many(s, i + 1, S) ELSE i
RECURSIVE ManyUpTo(_, _, _, _)
ManyUpTo(s, i, S, k) == IF k > 0 /\ At(s, i) \in S THEN ManyUpTo(s, i + 1, S, k - 1) ELSE i
Exactly(s, i, S, k) == IF ManyUpTo(s, i, S, k) = i + k THEN i + k ELSE -1
Lit(s, i, w) == IF \A k \in 1 .. Len(w) : At(s, i + k - 1) = w[k] THEN i + Len(w) ELSE -1

Newline(s, i) == IF At(s, i) = "\n" THEN i + 1
                 ELSE IF At(s, i) = "\r" THEN (IF At(s, i + 1) = "\n" THEN i + 2 ELSE i + 1) ELSE -1
\* look-ahead: an expression may end here
EndExpr(s, i) == \/ i > Len(s)
                 \/ At(s, i) \in {",", ")", "]", "}", "\t", " ", ">"}
                 \/ Newline(s, i) # -1
                 \/ Two(s, i) = <<".", ".">>
NotNewline == Known \ {"\n", "\r"}

\* --------------------------------------------------------------- comments, line wraps
CommentEnd(s, i) == IF At(s, i) = "#" THEN Many(s, i + 1, NotNewline) ELSE -1
CommentKind(s, i) == IF At(s, i + 1) = "!" THEN "DocComment" ELSE "Comment"
RECURSIVE WrapBody(_, _)
\* after the newline: any number of (blanks comment newline), then blanks, then the backslash
WrapBody(s, k) ==
  LET w == Many(s, k, Blank)
      c == CommentEnd(s, w)
      nl == IF c = -1 THEN -1 ELSE Newline(s, c)
  IN IF nl # -1 THEN WrapBody(s, nl)
     ELSE IF At(s, w) = "\\" THEN w + 1 ELSE -1
LineWrap(s, i) == LET nl == Newline(s, i) IN IF nl = -1 THEN -1 ELSE WrapBody(s, nl)

\* --------------------------------------------------------------- strings
RECURSIVE CountQ(_, _, _)
CountQ(s, i, q) == IF At(s, i) = q THEN 1 + CountQ(s, i + 1, q) ELSE 0
\* characters an escape consumes, the backslash included
EscLen(s, p) ==
  LET c == At(s, p + 1) IN
  IF c = "" THEN 1
  ELSE IF c = "u" /\ At(s, p + 2) = "{" THEN
         LET h == ManyUpTo(s, p + 3, HexDigits, 6) IN (IF At(s, h) = "}" THEN h + 1 ELSE h) - p
  ELSE IF c = "x" THEN ManyUpTo(s, p + 2, HexDigits, 2) - p
  ELSE 2
RECURSIVE Content(_, _, _, _)
\* the position after the closing delimiter of n quotes, scanning content from p
Content(s, p, q, n) ==
  IF CountQ(s, p, q) >= n THEN p + n
  ELSE IF p > Len(s) THEN -1
  ELSE IF At(s, p) = "\\" THEN Content(s, p + EscLen(s, p), q, n)
  ELSE Content(s, p + 1, q, n)
Quoted(s, i, q) == LET n == CountQ(s, i, q) IN
                   IF n = 0 THEN -1 ELSE IF n % 2 = 0 THEN i + n ELSE Content(s, i + n, q, n)
QuotedString(s, i) == IF At(s, i) = "\"" THEN Quoted(s, i, "\"") ELSE Quoted(s, i, "'")
RawString(s, i) ==
  IF At(s, i) = "r" /\ At(s, i + 1) \in {"'", "\""}
  THEN LET p == Many(s, i + 2, Known \ {"'", "\"", "\n", "\r"}) IN IF At(s, p) \in {"'", "\""} THEN p + 1 ELSE -1
  ELSE -1

\* --------------------------------------------------------------- numbers, dates
IntegerEnd(s, i) == IF At(s, i) \in Digits \ {"0"} THEN Many(s, i + 1, Digits \cup {"_"})
                    ELSE IF At(s, i) = "0" THEN i + 1 ELSE -1
FracEnd(s, i) == IF At(s, i) = "." /\ At(s, i + 1) \in Digits THEN Many(s, i + 2, Digits \cup {"_"}) ELSE i
ExpEnd(s, i) == IF At(s, i) = "e"
                THEN LET p == IF At(s, i + 1) \in {"+", "-"} THEN i + 2 ELSE i + 1
                     IN IF At(s, p) \in Digits THEN Many(s, p, Digits) ELSE i
                ELSE i
NumberEnd(s, i) == LET a == IntegerEnd(s, i) IN IF a = -1 THEN -1 ELSE ExpEnd(s, FracEnd(s, a))
NumberKind(s, i) == LET a == IntegerEnd(s, i) e == NumberEnd(s, i) IN
                    IF e - i > 15 THEN "Num" ELSE IF e = a THEN "Integer" ELSE "Float"
HexEnd(s, i) == IF Two(s, i) = <<"0", "x">>
                THEN LET p == IF At(s, i + 2) = "_" THEN i + 3 ELSE i + 2
                         e == ManyUpTo(s, p, HexDigits, 12)
                     IN IF e > p THEN e ELSE -1
                ELSE -1
DateInner(s, i) ==
  LET a == Exactly(s, i, Digits, 4) IN
  IF a = -1 \/ At(s, a) # "-" THEN -1 ELSE
  LET b == Exactly(s, a + 1, Digits, 2) IN
  IF b = -1 \/ At(s, b) # "-" THEN -1 ELSE Exactly(s, b + 1, Digits, 2)
\* an optional separator + component: skipped as a whole when the component does not follow
Opt(s, i, sep, k) == IF At(s, i) = sep /\ Exactly(s, i + 1, Digits, k) # -1 THEN i + 1 + k ELSE i
TimeInner(s, i) ==
  LET h == Exactly(s, i, Digits, 2) IN
  IF h = -1 THEN -1 ELSE
  LET m == Opt(s, h, ":", 2)
      sc == Opt(s, m, ":", 2)
      ms == IF At(s, sc) = "." /\ At(s, sc + 1) \in Digits THEN ManyUpTo(s, sc + 1, Digits, 6) ELSE sc
      tz == IF At(s, ms) = "Z" THEN ms + 1
            ELSE IF At(s, ms) \in {"+", "-"} /\ Exactly(s, ms + 1, Digits, 2) # -1
                 THEN LET c == IF At(s, ms + 3) = ":" THEN ms + 4 ELSE ms + 3
                      IN IF Exactly(s, c, Digits, 2) # -1 THEN c + 2 ELSE ms
                 ELSE ms
  IN tz
DateToken(s, i) ==       \* <<end, kind>>
  IF At(s, i) = "@" /\ At(s, i + 1) \in Digits THEN
    LET d == DateInner(s, i + 1)
        dt == IF d # -1 /\ At(s, d) = "T" THEN TimeInner(s, d + 1) ELSE -1
        t == TimeInner(s, i + 1)
    IN IF dt # -1 /\ EndExpr(s, dt) THEN <<dt, "Timestamp">>
       ELSE IF d # -1 /\ EndExpr(s, d) THEN <<d, "Date">>
       ELSE IF t # -1 /\ EndExpr(s, t) THEN <<t, "Time">>
       ELSE <<-1, "">>
  ELSE <<-1, "">>

\* --------------------------------------------------------------- identifiers, operators
PlainIdent(s, i) == IF At(s, i) \in Letters \cup {"_"} THEN Many(s, i + 1, AlNum \cup {"_"}) ELSE -1
TickIdent(s, i) == IF At(s, i) = "`" THEN LET p == Many(s, i + 1, Known \ {"`"}) IN IF At(s, p) = "`" THEN p + 1 ELSE -1 ELSE -1
Word(s, i, w) == LET e == Lit(s, i, w) IN IF e # -1 /\ EndExpr(s, e) THEN e ELSE -1
Op2(s, i) ==
  LET t == Two(s, i) IN
  CASE t = <<"-", ">">> -> "ArrowThin" [] t = <<"=", ">">> -> "ArrowFat" [] t = <<"=", "=">> -> "Eq" [] t = <<"!", "=">> -> "Ne"
    [] t = <<">", "=">> -> "Gte" [] t = <<"<", "=">> -> "Lte" [] t = <<"~", "=">> -> "RegexSearch"
    [] t = <<"&", "&">> /\ EndExpr(s, i + 2) -> "And" [] t = <<"|", "|">> /\ EndExpr(s, i + 2) -> "Or"
    [] t = <<"?", "?">> -> "Coalesce" [] t = <<"/", "/">> -> "DivInt" [] t = <<"*", "*">> -> "Pow"
    [] OTHER -> ""

\* one token starting exactly at i (no leading blanks): <<end, kind>> in the order of the lexer's choice
Token(s, i) ==
  LET c == At(s, i)
      dt == DateToken(s, i)
  IN IF LineWrap(s, i) # -1 THEN <<LineWrap(s, i), "LineWrap">>
     ELSE IF Newline(s, i) # -1 THEN <<Newline(s, i), "NewLine">>
     ELSE IF Op2(s, i) # "" THEN <<i + 2, Op2(s, i)>>
     ELSE IF c \in {"s", "f"} /\ QuotedString(s, i + 1) # -1 THEN <<QuotedString(s, i + 1), "Interpolation">>
     ELSE IF c = "$" THEN <<Many(s, i + 1, AlNum \cup {"_", "."}), "Param">>
     ELSE IF dt[1] # -1 THEN dt
     ELSE IF c = "@" THEN <<i + 1, "Annotate">>
     ELSE IF c \in Controls THEN <<i + 1, "Control:" \o c>>
     ELSE IF HexEnd(s, i) # -1 THEN <<HexEnd(s, i), "Integer">>
     ELSE IF QuotedString(s, i) # -1 THEN <<QuotedString(s, i), "String">>
     ELSE IF RawString(s, i) # -1 THEN <<RawString(s, i), "RawString">>
     ELSE IF NumberEnd(s, i) # -1 THEN <<NumberEnd(s, i), NumberKind(s, i)>>
     ELSE IF Word(s, i, <<"f", "a", "l", "s", "e">>) # -1 THEN <<i + 5, "Boolean">>
     ELSE IF Word(s, i, <<"l", "e", "t">>) # -1 THEN <<i + 3, "Keyword">>
     ELSE IF PlainIdent(s, i) # -1 THEN <<PlainIdent(s, i), "Ident">>
     ELSE IF TickIdent(s, i) # -1 THEN <<TickIdent(s, i), "Ident">>
     ELSE IF CommentEnd(s, i) # -1 THEN <<CommentEnd(s, i), CommentKind(s, i)>>
     ELSE <<-1, "">>

\* one lex_token at i: a range (blanks on either side belong to its span) or blanks and a token
LexToken(s, i) ==
  LET w == Many(s, i, Blank) IN
  IF Two(s, w) = <<".", ".">>
  THEN LET r == Many(s, w + 2, Blank)
       IN [k |-> "Range:" \o (IF w = i THEN "b" ELSE "-") \o (IF r = w + 2 THEN "b" ELSE "-"), s |-> i, e |-> r]
  ELSE LET t == Token(s, w) IN [k |-> t[2], s |-> w, e |-> t[1]]

RECURSIVE LexFrom(_, _, _)
LexFrom(s, i, acc) ==
  LET t == LexToken(s, i) IN
  IF i <= Len(s) /\ t.e # -1 THEN LexFrom(s, t.e, Append(acc, t))
  ELSE IF Many(s, i, Blank) > Len(s) THEN [ok |-> TRUE, toks |-> acc]
  ELSE [ok |-> FALSE, toks |-> <<>>]
Lex(s) == LexFrom(s, 1, <<>>)
InAlphabet(s) == \A i \in 1 .. Len(s) : s[i] \in Known
=============================================================================
