"""C13: errors are located inside the source and point at the offending text (spec/Spans.tla)."""
import sys, os, json, random
sys.path.insert(0, os.path.join(os.path.dirname(os.path.abspath(__file__)), "..", "lib"))
from vlib import *

# error templates: (name, text with the offending token between «», class)
TEMPLATES = {
    "lex-unclosed-string": ("from t | select {a, x = «\"abc}»", None),
    "lex-bad-char": ("from t | select {a, x = b «^» 2}", None),
    "lex-unclosed-fstring-eof": ("from t | select {a, x = f\"{a}«»", None),          # reported at the end of input (empty span)
    "lex-unclosed-sstring-eof": ("from t | derive x = s\"abs({a}«»", None),
    "syn-double-comma": ("from t | select {a«,», b}", None),
    "syn-missing-operand": ("from t | derive {x = (a +«)»}", None),
    "syn-unclosed-brace": ("from t | select {a, b«»", None),
    "name-unknown-column": ("from t | select {a, b} | filter «zzz» > 1", None),
    "name-unknown-function": ("from t | derive {x = («foo_bar» a)}", None),
    "name-ambiguous": ("from t | join u (==k) | select {«k»}", None),
    "type-take-string": ("from t | take «\"x\"»", None),
    "arg-too-many": ("from t | «take 1 2 3»", None),
    "syn-let-newline": ("let«\n»from t | select {a}", None),               # span ends exactly where the next line starts
    "syn-into-newline": ("from t | select {a}\ninto«\n»from u", None),
    # errors of from_text (the payload is parsed by another parser: the reason must not be lost)
    # (the compiler points at the format argument)
    "fromtext-json-scalar": ("from_text format:«json» '42' | select {a}", None),
    "fromtext-json-empty": ("from_text format:«json» '' | select {a}", None),
    "fromtext-json-truncated": ("from_text format:«json» '\"a\": 1}]' | select {a}", None),
    "sql-regex-mssql": ("from t | filter a «~=» \"x\"", "mssql"),
    "sql-two-pipelines": ("from t | select {a} | «append (from u | select {a, c})»", None),
}
PADS = {
    "ascii": "abc xyz", "latin": "éàü ñç", "cjk": "日本語", "emoji": "😀😀", "mixed": "aé日😀",
}
PLACES = ["none", "comment-line-before", "string-same-line-before", "ident-same-line-before", "comment-after", "line-after", "two-lines-before",
          "crlf-line-before", "crlf-three-lines-before"]          # earlier lines ending in carriage return + line feed
LAYOUTS = ["single", "project-root", "project-module", "project-suffix"]

def build(tmpl, pad, place, layout):
    text, dialect = TEMPLATES[tmpl]
    padtxt = PADS[pad]
    pre = ""
    if place == "comment-line-before": pre = f"# {padtxt}\n"
    elif place == "two-lines-before": pre = f"# {padtxt}\n# {padtxt} {padtxt}\n\n"
    elif place == "crlf-line-before": pre = f"# {padtxt}\r\n"
    elif place == "crlf-three-lines-before": pre = f"# {padtxt}\r\n\r\n# {padtxt}\r\n"
    body = text
    if place == "string-same-line-before":
        body = body.replace("from t |", f"from t | derive {{pad = \"{padtxt}\"}} |", 1)
    elif place == "ident-same-line-before":
        body = body.replace("from t |", f"from t | derive {{`{padtxt}` = 1}} |", 1)
    elif place == "comment-after": body = body + f"  # {padtxt}"
    elif place == "line-after": body = body + f"\n# {padtxt}\n"
    full = pre + body
    s = full.index("«"); e = full.index("»") - 1
    clean = full.replace("«", "").replace("»", "")
    # planted token as character offsets in `clean`
    start, end = len(full[:s]), len(full[:s]) + (e - s)
    if layout == "single":
        files = [{"path": "", "content": clean}]; ppath = ""; root = None
    elif layout == "project-root":
        files = [{"path": "Project.prql", "content": clean}, {"path": "lib.prql", "content": "let helper = 1\n"}]; ppath = "Project.prql"; root = None
    elif layout == "project-suffix":
        # the erroneous file's path is a suffix of another file's path
        files = [{"path": "Project.prql", "content": "from lib.q\n"}, {"path": "sub/lib.prql", "content": "# helpers\nlet other = (from o)\n"},
                 {"path": "lib.prql", "content": "let q = (\n" + clean + "\n)\n"}]
        start += len("let q = (\n"); end += len("let q = (\n"); ppath = "lib.prql"; root = None
    else:
        # the erroneous pipeline lives in a module file; the root only refers to it
        files = [{"path": "Project.prql", "content": "from lib.q\n"}, {"path": "other.prql", "content": "let unused = 2\n"},
                 {"path": "lib.prql", "content": "let q = (\n" + clean + "\n)\n"}]
        start += len("let q = (\n"); end += len("let q = (\n"); ppath = "lib.prql"; root = None
    return {"files": files, "root": root, "dialect": dialect, "planted": {"path": ppath, "start": start, "end": end}}

def check(tier):
    rep = Report("C13", tier)
    d = workdir("C13")
    build_harness()
    pads = list(PADS) if tier == "thorough" else ["ascii", "latin", "emoji", "mixed"]
    cfg = {"maxlen": 4 if tier == "quick" else 5, "templates": list(TEMPLATES), "pads": pads, "places": PLACES, "layouts": LAYOUTS}
    cp = os.path.join(d, "cfg.json"); json.dump(cfg, open(cp, "w"))
    out, info = tlc("SpansMC", "SpansMC.cfg", env={"SPANSCFG": cp}, workers=4)
    if not info["no_error"]:
        raise ToolError("SpansMC: " + info.get("error_text", "")[:1500])
    cases = []
    for i, c in enumerate(replay_lines(out)):
        if c["place"] == "none" and c["pad"] != pads[0]:
            continue
        if c["tmpl"] in ("syn-unclosed-brace", "syn-let-newline", "syn-into-newline", "lex-unclosed-fstring-eof", "lex-unclosed-sstring-eof") and c["layout"] in ("project-module", "project-suffix"):
            continue        # an unclosed brace inside `let q = ( ... )` is reported at the end of the enclosing file
        if c["tmpl"].endswith("-eof") and c["place"] in ("comment-after", "line-after"):
            continue        # the unclosed literal swallows the text that follows: the end of input is no longer where the token was planted
        x = build(c["tmpl"], c["pad"], c["place"], c["layout"])
        x["id"] = f"{c['tmpl']}/{c['pad']}/{c['place']}/{c['layout']}"
        x["meta"] = c
        cases.append(x)
        if c["layout"] != "single":
            # behaviour that depends on hash-map order of the source tree shows only on some instances
            for rpt in range(3):
                y = dict(x); y["id"] = x["id"] + f"#{rpt}"; cases.append(y)
    write_ndjson(os.path.join(d, "cases.ndjson"), cases)
    ev = os.path.join(d, "ev.ndjson")
    pv(["errors", os.path.join(d, "cases.ndjson"), ev])
    tout, tinfo = tlc("SpansTrace", "SpansTrace.cfg", env={"TRACE": ev}, workers=1, deque=True, xmx="6g")
    tr = tuples(tout, "TRACE")
    if not tinfo["no_error"] or not tr or tr[0][1] != tr[0][2]:
        open(ev + ".tlc.out", "w").write(tout)
        raise ToolError("SpansTrace did not consume the trace: " + tinfo.get("error_text", tout[-1200:])[:1500])
    byid = {c["id"]: c for c in cases}
    for cc in cases:
        cc["meta"]["case"] = cc["id"]
    evs = {e["id"]: e for e in read_ndjson(ev) if "id" in e}
    for r in tuples(tout, "REJECT"):
        c = byid[r[1]]; e = evs[r[1]]
        src = next(f["content"] for f in c["files"] if f["path"] == c["planted"]["path"])
        non_ascii_before = any(ord(ch) > 127 for ch in src[:c["planted"]["start"]])
        sig = {"what": "span", "fault": r[2], "template": c["meta"]["tmpl"], "layout": c["meta"]["layout"], "place": c["meta"]["place"],
               "non_ascii_before": non_ascii_before, "non_ascii_in_file": any(ord(ch) > 127 for ch in src), "src": src,
               "panic_site": (f"{e.get('file')}:{e.get('line')}" if e.get("event") == "Panic" else "")}
        rep.violation({"property": "C13", "kind": r[2], "case": r[1], "files": c["files"], "planted": c["planted"],
                       "messages": [{k: m[k] for k in ("reason", "span", "path", "location", "display")} for m in e.get("msgs", [])],
                       "panic": {k: e.get(k) for k in ("msg", "file", "line")} if e.get("event") == "Panic" else None}, sig)
    # binding demonstration: move one location / one span
    good = [e for e in read_ndjson(ev) if e.get("event") == "Errors" and all(m["has_span"] for m in e["msgs"])]
    import copy
    bad = copy.deepcopy(good[:40])
    accepted_ids = set(e["id"] for e in bad) - set(r[1] for r in tuples(tout, "REJECT"))
    k = 0
    for e in bad:
        if e["id"] in accepted_ids and k < 2:
            if k == 0: e["msgs"][0]["location"][0][1] += 1
            else: e["msgs"][0]["span"][1] = len(e["msgs"][0]["chars"]) + 5
            k += 1
    write_ndjson(os.path.join(d, "bad.ndjson"), bad + [{"event": "End"}])
    write_ndjson(os.path.join(d, "good.ndjson"), good[:40] + [{"event": "End"}])
    bout, _ = tlc("SpansTrace", "SpansTrace.cfg", env={"TRACE": os.path.join(d, "bad.ndjson")}, workers=1, deque=True)
    gout, _ = tlc("SpansTrace", "SpansTrace.cfg", env={"TRACE": os.path.join(d, "good.ndjson")}, workers=1, deque=True)
    if k != 2 or len(tuples(bout, "REJECT")) != len(tuples(gout, "REJECT")) + 2:
        raise ToolError(f"C13 selftest: corrupted location/span not rejected ({k}, {len(tuples(bout,'REJECT'))}, {len(tuples(gout,'REJECT'))})")
    c = tuples(tout, "COUNTS")
    cov = {"states": info["distinct"] + tinfo.get("distinct", 0), "transitions": info["generated"] + tinfo.get("distinct", 0),
           "traces_validated_against_impl": c[-1][1] if c else 0,
           "samples": [{"id": cases[0]["id"], "files": cases[0]["files"]}, {"id": cases[-1]["id"], "files": cases[-1]["files"]}],
           "exhaustive": True,
           "explanation": f"SpansMC: position-machine laws and 'byte offsets read as character offsets are right iff the prefix is ASCII' checked on every source of <= {cfg['maxlen']} characters over 1-/2-/4-byte characters and line breaks; the case space {len(TEMPLATES)} error templates (lexical, syntactic, name resolution, type, SQL generation) x {len(pads)} paddings x {len(PLACES)} places x {len(LAYOUTS)} file layouts = {len(cases)} erroneous sources compiled by prqlc, every returned message validated by SpansTrace (reason, span inside the named file, location = position of the span, display quotes that line, span at the planted token)",
           "cases": len(cases), "selftest": {"corrupted": 2, "rejected": 2}}
    return rep.finish("model_checking", cov, ["spans are character offsets into the named source file (as ErrorMessage documents)",
                                               "the quoted line is read from the gutter of the rendered message (`N | text`)"])
