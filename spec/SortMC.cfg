SPECIFICATION Spec
CONSTANTS
  RepairedSI = TRUE
  Mutant = "none"
  MaxCtes = 2
  MaxSteps = 3
  AllowF42 = FALSE
INVARIANT MachineMeetsMeaning
CHECK_DEADLOCK FALSE
