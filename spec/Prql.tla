----------------------------- MODULE Prql -----------------------------
(* L1 - the PRQL language machine.                                     *)
(*                                                                     *)
(* A pipeline is a sequence of transforms; each transform is a         *)
(* transition on the abstract state                                    *)
(*     frame   - ordered columns of the current relation               *)
(*     W       - for every database instance, the SET of row           *)
(*               sequences ("possible worlds") the documented          *)
(*               semantics allows at this point                        *)
(*     dirs    - directions of the sort in effect (<<>> = none); the   *)
(*               key VALUES are attached to every row, so a later      *)
(*               projection cannot invalidate the order                *)
(*     status  - "ok" | "error" (ill-scoped / ill-formed program: the  *)
(*               compiler must reject) | "unsup" (outside the          *)
(*               fragment this specification gives a meaning to)       *)
(* The meaning is the book's (web/book/src/reference), transcribed     *)
(* once; it knows nothing about SQL, sub-queries or CTEs.              *)
EXTENDS Values, SequencesExt, FiniteSetsExt

Idx(s) == 1 .. Len(s)
MapSeq(s, f(_)) == [i \in 1 .. Len(s) |-> f(s[i])]
Max2(a, b) == IF a > b THEN a ELSE b
Min2(a, b) == IF a < b THEN a ELSE b
Inf == 1000000          \* an open range bound

-----------------------------------------------------------------------
(* Frames and name resolution                                          *)

Col(name, src) == [name |-> name, src |-> src, key |-> FALSE]

\* columns a reference q.name may denote
Matches(fr, q, name) ==
  { i \in Idx(fr) : fr[i].name = name /\ name # "" /\ (q = "" \/ q = "this" \/ fr[i].src = q) }

RECURSIVE Refs(_)
Refs(e) ==
  CASE e.t = "col"  -> { [q |-> e.q, name |-> e.name] }
    [] e.t = "lit"  -> {}
    [] e.t = "bin"  -> Refs(e.l) \cup Refs(e.r)
    [] e.t = "un"   -> Refs(e.e)
    [] e.t = "case" -> UNION { Refs(e.arms[i].c) \cup Refs(e.arms[i].v) : i \in Idx(e.arms) }
    [] e.t = "agg"  -> Refs(e.e)
    [] e.t = "in"   -> Refs(e.e) \cup Refs(e.lo) \cup Refs(e.hi)
    [] e.t = "call" -> UNION { Refs(e.args[i]) : i \in Idx(e.args) }
    [] e.t = "badcall" -> { [q |-> "?", name |-> "?"] }          \* never in scope: an ill-formed call
    [] OTHER        -> {}

\* "ok": every reference denotes exactly one column; "none": some reference
\* denotes nothing; "ambiguous": some bare reference denotes two columns
ScopeOf(fr, e) ==
  LET rs == Refs(e) IN
  \* inside `group`: a bare name matching both a key column and a column of
  \* the partition - the book does not say which one is meant
  IF \E r \in rs : LET m == Matches(fr, r.q, r.name) IN
                      Cardinality(m) > 1 /\ (\E i \in m : fr[i].key) /\ (\E i \in m : ~fr[i].key) THEN "keyclash"
  ELSE IF \E r \in rs : Cardinality(Matches(fr, r.q, r.name)) > 1 THEN "ambiguous"
  ELSE IF \E r \in rs : Matches(fr, r.q, r.name) = {} THEN "none"
  ELSE "ok"

\* Static typing.  The resolver checks the operands of && || ! against
\* bool; which non-boolean operands it refuses is not documented, so an
\* expression that feeds something not syntactically boolean into a logical
\* operator is outside the fragment this specification gives a meaning to.
Boolish(e) ==
  \/ e.t = "bin" /\ e.op \in {"==", "!=", "<", "<=", ">", ">=", "~=", "&&", "||"}
  \/ e.t = "un" /\ e.op = "!"
  \/ e.t = "lit" /\ e.v.k \in {"bool", "null"}
  \/ e.t = "in"
RECURSIVE TypeRisk(_)
TypeRisk(e) ==
  CASE e.t = "bin"  -> \/ (e.op \in {"&&", "||"} /\ (~Boolish(e.l) \/ ~Boolish(e.r)))
                       \/ TypeRisk(e.l) \/ TypeRisk(e.r)
    [] e.t = "un"   -> (e.op = "!" /\ ~Boolish(e.e)) \/ TypeRisk(e.e)
    [] e.t = "case" -> \E i \in Idx(e.arms) : TypeRisk(e.arms[i].c) \/ TypeRisk(e.arms[i].v)
    [] e.t = "agg"  -> TypeRisk(e.e)
    [] e.t = "in"   -> TypeRisk(e.e) \/ TypeRisk(e.lo) \/ TypeRisk(e.hi)
    [] OTHER        -> FALSE

RECURSIVE HasAgg(_)
HasAgg(e) ==
  CASE e.t = "agg"  -> TRUE
    [] e.t = "bin"  -> HasAgg(e.l) \/ HasAgg(e.r)
    [] e.t = "un"   -> HasAgg(e.e)
    [] e.t = "case" -> \E i \in Idx(e.arms) : HasAgg(e.arms[i].c) \/ HasAgg(e.arms[i].v)
    [] e.t = "in"   -> HasAgg(e.e) \/ HasAgg(e.lo) \/ HasAgg(e.hi)
    [] e.t = "call" -> \E i \in Idx(e.args) : HasAgg(e.args[i])
    [] OTHER        -> FALSE

-----------------------------------------------------------------------
(* Expression evaluation                                               *)

OpBin(op, a, b) ==
  CASE op = "+"  -> Add(a, b)   [] op = "-"  -> Sub(a, b)
    [] op = "*"  -> Mul(a, b)   [] op = "/"  -> DivF(a, b)
    [] op = "//" -> DivI(a, b)  [] op = "%"  -> Mod(a, b)
    [] op = "**" -> Pow(a, b)
    [] op = "==" -> Eq(a, b)    [] op = "!=" -> Ne(a, b)
    [] op = "<"  -> Lt(a, b)    [] op = "<=" -> Lte(a, b)
    [] op = ">"  -> Gt(a, b)    [] op = ">=" -> Gte(a, b)
    [] op = "&&" -> And3(a, b)  [] op = "||" -> Or3(a, b)
    [] op = "??" -> Coalesce(a, b)

IsNullLit(e) == e.t = "lit" /\ e.v.k = "null"

\* lexicographic comparison of two sort-key tuples under directions dirs;
\* nsm = TRUE: NULL is the smallest value, FALSE: the largest
RECURSIVE KeyCmp(_, _, _, _)
KeyCmp(k1, k2, dirs, nsm) ==
  IF dirs = <<>> THEN 0
  ELSE LET c0 == OrdCmp(k1[1], k2[1], nsm)
           c  == IF dirs[1] = "desc" THEN -c0 ELSE c0
       IN IF c # 0 THEN c ELSE KeyCmp(Tail(k1), Tail(k2), Tail(dirs), nsm)

\* The evaluation context of an expression: the segment of rows an
\* aggregation / window function ranges over.
\*   part : the partition (sequence of rows [v, key]) in linear order
\*   i    : index of the current row in part (0 inside `aggregate`)
\*   win  : [fk |-> "none"|"rows"|"range", lo, hi]
\*   dirs : directions of the sort in effect
\*   uniq : the sort keys of part are pairwise distinct (its linear order
\*          is determined, so position-dependent functions have one value)
FrameIdx(c) ==
  LET n == Len(c.part) IN
  IF c.i = 0 \/ c.win.fk = "none" THEN 1 .. n
  ELSE IF c.win.fk = "rows" THEN Max2(1, c.i + c.win.lo) .. Min2(n, c.i + c.win.hi)
  ELSE \* range: offsets on the (single, ascending, numeric) sort key
    LET kv(j) == c.part[j].key[1]
        cur   == kv(c.i)
    IN { j \in 1 .. n :
           /\ IsNum(kv(j)) /\ IsNum(cur)
           /\ (c.win.lo <= -Inf \/ IsTrue(Gte(kv(j), Add(cur, IntV(c.win.lo)))))
           /\ (c.win.hi >= Inf  \/ IsTrue(Lte(kv(j), Add(cur, IntV(c.win.hi))))) }

OrderSensitive(f, win) ==
  \/ f \in {"row_number", "lag", "lead", "first", "last"}
  \/ win.fk = "rows"

RECURSIVE SumV(_)
SumV(vs) == IF vs = <<>> THEN IntV(0) ELSE Add(Head(vs), SumV(Tail(vs)))
RECURSIVE MinV(_)
MinV(vs) == IF Len(vs) = 1 THEN vs[1]
            ELSE LET m == MinV(Tail(vs)) IN IF Cmp(vs[1], m) <= 0 THEN vs[1] ELSE m
RECURSIVE MaxV(_)
MaxV(vs) == IF Len(vs) = 1 THEN vs[1]
            ELSE LET m == MaxV(Tail(vs)) IN IF Cmp(vs[1], m) >= 0 THEN vs[1] ELSE m

\* value of aggregation function f over the argument values vs (in frame
\* order), isAgg = inside `aggregate` (the empty sum is 0 there)
AggOf(f, vs, isAgg) ==
  LET nn == SelectSeq(vs, LAMBDA v : ~IsNull(v)) IN
  IF \E i \in Idx(vs) : IsUndef(vs[i]) THEN Undef
  ELSE CASE f = "count"   -> IntV(Len(vs))
    [] f = "sum"     -> IF nn = <<>> THEN (IF isAgg THEN IntV(0) ELSE Null0) ELSE SumV(nn)
    [] f = "min"     -> IF nn = <<>> THEN Null ELSE MinV(nn)
    [] f = "max"     -> IF nn = <<>> THEN Null ELSE MaxV(nn)
    [] f = "average" -> IF nn = <<>> THEN Null ELSE DivF(SumV(nn), IntV(Len(nn)))
    [] f = "any"     -> IF nn = <<>> THEN (IF isAgg THEN False ELSE Undef)
                        ELSE B(\E i \in Idx(nn) : IsTrue(Truth(nn[i])))
    [] f = "all"     -> IF nn = <<>> THEN (IF isAgg THEN True ELSE Undef)
                        ELSE B(\A i \in Idx(nn) : IsTrue(Truth(nn[i])))
    [] f = "count_distinct" -> IntV(Cardinality({ nn[i] : i \in Idx(nn) }))
    [] f = "first"   -> IF vs = <<>> THEN Null ELSE vs[1]
    [] f = "last"    -> IF vs = <<>> THEN Null ELSE vs[Len(vs)]
    [] OTHER         -> Undef

NoWin == [fk |-> "none", lo |-> -Inf, hi |-> Inf]
\* a context in which no aggregation may occur (arguments of aggregations)
ScalarCtx == [part |-> <<>>, i |-> 0, win |-> NoWin, dirs |-> <<>>, uniq |-> FALSE, nsm |-> TRUE, scalar |-> TRUE, osort |-> FALSE]

RECURSIVE Eval(_, _, _, _)
RECURSIVE EvalCase(_, _, _, _)
Eval(e, fr, r, c) ==
  CASE e.t = "col"  -> r[CHOOSE i \in Matches(fr, e.q, e.name) : TRUE]
    [] e.t = "lit"  -> e.v
    [] e.t = "un"   -> IF e.op = "-" THEN Neg(Eval(e.e, fr, r, c))
                       ELSE IF e.op = "+" THEN Eval(e.e, fr, r, c)            \* unary plus: the operand itself
                       ELSE Not3(Eval(e.e, fr, r, c))
    [] e.t = "bin"  ->
         IF e.op = "==" /\ IsNullLit(e.r) THEN
              (LET v == Eval(e.l, fr, r, c) IN IF IsUndef(v) THEN Undef ELSE B(IsNull(v)))
         ELSE IF e.op = "==" /\ IsNullLit(e.l) THEN
              (LET v == Eval(e.r, fr, r, c) IN IF IsUndef(v) THEN Undef ELSE B(IsNull(v)))
         ELSE IF e.op = "!=" /\ IsNullLit(e.r) THEN
              (LET v == Eval(e.l, fr, r, c) IN IF IsUndef(v) THEN Undef ELSE B(~IsNull(v)))
         ELSE IF e.op = "!=" /\ IsNullLit(e.l) THEN
              (LET v == Eval(e.r, fr, r, c) IN IF IsUndef(v) THEN Undef ELSE B(~IsNull(v)))
         ELSE OpBin(e.op, Eval(e.l, fr, r, c), Eval(e.r, fr, r, c))
    [] e.t = "case" -> EvalCase(e.arms, fr, r, c)
    [] e.t = "in"   ->
         LET v == Eval(e.e, fr, r, c) IN
         And3(IF IsNullLit(e.lo) THEN True ELSE Gte(v, Eval(e.lo, fr, r, c)),
              IF IsNullLit(e.hi) THEN True ELSE Lte(v, Eval(e.hi, fr, r, c)))
    [] e.t = "agg"  ->
         IF c.scalar THEN Undef
         ELSE IF c.i > 0 /\ OrderSensitive(e.f, c.win) /\ ~c.uniq THEN Undef
         ELSE IF e.f \in {"rank", "rank_dense"} /\ c.osort THEN Undef
         ELSE IF e.f = "row_number" THEN IntV(c.i)
         ELSE IF e.f = "rank" THEN
              IntV(1 + Cardinality({ j \in Idx(c.part) :
                       KeyCmp(c.part[j].key, c.part[c.i].key, c.dirs, c.nsm) < 0 }))
         ELSE IF e.f = "rank_dense" THEN
              IntV(1 + Cardinality({ c.part[j].key : j \in { j \in Idx(c.part) :
                       KeyCmp(c.part[j].key, c.part[c.i].key, c.dirs, c.nsm) < 0 } }))
         ELSE IF e.f = "lag" THEN
              (IF c.i - e.n >= 1 /\ c.i - e.n <= Len(c.part)
                 THEN Eval(e.e, fr, c.part[c.i - e.n].v, ScalarCtx) ELSE Null)
         ELSE IF e.f = "lead" THEN
              (IF c.i + e.n >= 1 /\ c.i + e.n <= Len(c.part)
                 THEN Eval(e.e, fr, c.part[c.i + e.n].v, ScalarCtx) ELSE Null)
         ELSE LET idx == FrameIdx(c)
                  js  == SelectSeq([j \in Idx(c.part) |-> j], LAMBDA j : j \in idx)
                  vs  == [m \in Idx(js) |-> Eval(e.e, fr, c.part[js[m]].v, ScalarCtx)]
              IN AggOf(e.f, vs, c.i = 0)
    [] OTHER -> Undef

EvalCase(arms, fr, r, c) ==
  IF arms = <<>> THEN Null
  ELSE LET cv == Eval(arms[1].c, fr, r, c) IN
       IF IsUndef(cv) THEN Undef
       ELSE IF IsTrue(Truth(cv)) THEN Eval(arms[1].v, fr, r, c)
       ELSE EvalCase(Tail(arms), fr, r, c)

-----------------------------------------------------------------------
(* Worlds                                                              *)
(* world = [ns |-> "any"|"small"|"large", rows |-> Seq([v, key])]      *)
(* Invariant: rows are sorted by key under the directions in effect;   *)
(* every permutation inside a group of rows with equal keys is an      *)
(* equally admissible result.                                          *)

Nsm(w) == w.ns # "large"      \* NULL smallest unless the world says largest

\* stable insertion sort of rows by key
RECURSIVE InsertRow(_, _, _, _)
InsertRow(sorted, r, dirs, nsm) ==
  IF sorted = <<>> THEN << r >>
  ELSE IF KeyCmp(r.key, sorted[Len(sorted)].key, dirs, nsm) >= 0 THEN Append(sorted, r)
  ELSE Append(InsertRow(SubSeq(sorted, 1, Len(sorted) - 1), r, dirs, nsm), sorted[Len(sorted)])
RECURSIVE SortRows(_, _, _)
SortRows(rows, dirs, nsm) ==
  IF rows = <<>> THEN <<>>
  ELSE InsertRow(SortRows(SubSeq(rows, 1, Len(rows) - 1), dirs, nsm), rows[Len(rows)], dirs, nsm)

KeysUnique(rows, dirs, nsm) ==
  \A i, j \in Idx(rows) : i < j => KeyCmp(rows[i].key, rows[j].key, dirs, nsm) # 0

\* maximal runs of rows with equal keys (rows are sorted): sequence of sequences
RECURSIVE TieGroups(_, _, _)
TieGroups(rows, dirs, nsm) ==
  IF rows = <<>> THEN <<>>
  ELSE LET n == Len(rows)
           first == CHOOSE m \in 1 .. n :
                       /\ \A j \in 1 .. m : KeyCmp(rows[j].key, rows[1].key, dirs, nsm) = 0
                       /\ (m = n \/ KeyCmp(rows[m + 1].key, rows[1].key, dirs, nsm) # 0)
       IN << SubSeq(rows, 1, first) >> \o TieGroups(SubSeq(rows, first + 1, n), dirs, nsm)

\* all sub-sequences of g with exactly c elements
SubSeqsOfSize(g, c) ==
  { LET js == SelectSeq([j \in Idx(g) |-> j], LAMBDA j : j \in S) IN [m \in Idx(js) |-> g[js[m]]]
      : S \in kSubset(c, Idx(g)) }

\* rows at positions lo..hi of every admissible linearisation
RECURSIVE TakeGroups(_, _, _, _)
TakeGroups(groups, pos, lo, hi) ==     \* pos = position of first row of Head(groups)
  IF groups = <<>> THEN { <<>> }
  ELSE LET g == Head(groups)
           s == pos
           e == pos + Len(g) - 1
           cnt == Max2(0, Min2(e, hi) - Max2(s, lo) + 1)
           rest == TakeGroups(Tail(groups), e + 1, lo, hi)
           mine == IF cnt = Len(g) THEN { g } ELSE IF cnt = 0 THEN { <<>> } ELSE SubSeqsOfSize(g, cnt)
       IN { a \o b : a \in mine, b \in rest }

-----------------------------------------------------------------------
(* State                                                               *)

\* dbs : sequence of database instances [t |-> Seq(Seq(Value)), u |-> ...]
\* schema : [t |-> <<"k","a","b">>, ...]
InitState(ndb) ==
  [ frame |-> <<>>, W |-> [d \in 1 .. ndb |-> {}], dirs |-> <<>>, status |-> "init",
    known |-> TRUE, win |-> NoWin, grouped |-> FALSE, loose |-> FALSE, inputs |-> <<>>, osort |-> FALSE,
    \* declarations in scope: let-bound relations [name, steps] and user functions
    \* [name, params, named: Seq([n, d]), body], in declaration order
    env |-> <<>>, fns |-> <<>> ]

\* the state a nested pipeline (join / append operand, let-bound relation) starts from
Fresh(st) == [InitState(Len(st.W)) EXCEPT !.env = st.env, !.fns = st.fns]
Err(st)   == [st EXCEPT !.status = "error"]
\* outcome of a scope check that failed
Bad(st, sc) == [st EXCEPT !.status = IF sc = "keyclash" THEN "unsup" ELSE "error"]
Unsup(st) == [st EXCEPT !.status = "unsup"]

\* lift a world transformer (world -> set of worlds) over all instances
Lift(st, F(_)) == [d \in Idx(st.W) |-> UNION { F(w) : w \in st.W[d] }]

CtxOf(st, w, i) ==
  [ part |-> w.rows, i |-> i, win |-> st.win, dirs |-> st.dirs,
    uniq |-> KeysUnique(w.rows, st.dirs, Nsm(w)), nsm |-> Nsm(w), scalar |-> FALSE,
    \* a sort was in effect outside the enclosing group and none inside yet:
    \* whether ranking functions see it is not documented
    osort |-> st.osort /\ st.dirs = <<>> ]

ExprsScope(fr, es) ==
  IF \E i \in Idx(es) : ScopeOf(fr, es[i]) = "keyclash" \/ TypeRisk(es[i]) THEN "keyclash"
  ELSE IF \E i \in Idx(es) : ScopeOf(fr, es[i]) = "ambiguous" THEN "ambiguous"
  ELSE IF \E i \in Idx(es) : ScopeOf(fr, es[i]) = "none" THEN "none" ELSE "ok"

\* name a select/derive item introduces
ItemName(it) == IF it.n # "" THEN it.n ELSE IF it.e.t = "col" THEN it.e.name ELSE ""
ItemSrc(fr, it) == IF it.n = "" /\ it.e.t = "col" /\ Matches(fr, it.e.q, it.e.name) # {}
                   THEN fr[CHOOSE i \in Matches(fr, it.e.q, it.e.name) : TRUE].src ELSE ""

\* un-name every column that a later column of the same name shadows
Shadow(fr) ==
  [i \in Idx(fr) |->
     IF fr[i].name # "" /\ \E j \in Idx(fr) : j > i /\ fr[j].name = fr[i].name
                                               /\ (fr[j].src = fr[i].src \/ fr[j].src = "")
       THEN [fr[i] EXCEPT !.name = ""] ELSE fr[i]]

-----------------------------------------------------------------------
(* Transforms                                                          *)

From(st, s, dbs, schema) ==
  IF s.t \notin DOMAIN schema THEN Unsup(st)
  ELSE
  LET src == IF s.alias # "" THEN s.alias ELSE s.t IN
  [ st EXCEPT
      !.frame  = [i \in Idx(schema[s.t]) |-> Col(schema[s.t][i], src)],
      !.W      = [d \in Idx(dbs) |->
                   { [ns |-> "any", rows |-> [i \in Idx(dbs[d][s.t]) |-> [v |-> dbs[d][s.t][i], key |-> <<>>]]] }],
      !.dirs   = <<>>,
      !.inputs = << src >>,
      !.status = "ok" ]

\* from [{a = 1, b = null}, ...]: a relation literal; the same rows on every database instance
FromLit(st, s, dbs) ==
  LET src == IF s.alias # "" THEN s.alias ELSE "_literal" IN
  IF s.rows = <<>> \/ \E i \in Idx(s.rows) : Len(s.rows[i]) # Len(s.cols) THEN Unsup(st)
  ELSE [ st EXCEPT
      !.frame  = [i \in Idx(s.cols) |-> Col(s.cols[i], src)],
      !.W      = [d \in Idx(dbs) |-> { [ns |-> "any", rows |-> [i \in Idx(s.rows) |-> [v |-> s.rows[i], key |-> <<>>]]] }],
      !.dirs   = <<>>,
      !.inputs = << src >>,
      !.status = "ok" ]

\* select / derive: one new value per item and row
ItemVals(st, w, items) ==
  [i \in Idx(w.rows) |-> [m \in Idx(items) |-> Eval(items[m].e, st.frame, w.rows[i].v, CtxOf(st, w, i))]]

\* `t.*` in a select list: the columns of input t that are in the frame, in frame order
StarCols(fr, q) == SelectSeq([i \in Idx(fr) |-> i], LAMBDA i : fr[i].src = q)
RECURSIVE ExpandStars(_, _)
ExpandStars(fr, items) ==
  IF items = <<>> THEN <<>>
  ELSE LET it == Head(items) IN
       (IF it.e.t = "star"
        THEN LET cs == StarCols(fr, it.e.q) IN [k \in Idx(cs) |-> [n |-> "", e |-> [t |-> "col", q |-> it.e.q, name |-> fr[cs[k]].name]]]
        ELSE << [n |-> it.n, e |-> it.e] >>) \o ExpandStars(fr, Tail(items))
\* a star over an input that is not in the frame, or one of whose columns has lost its name: no meaning given
StarBad(fr, items) == \E m \in Idx(items) : items[m].e.t = "star" /\
                         (StarCols(fr, items[m].e.q) = <<>> \/ \E i \in Idx(fr) : fr[i].src = items[m].e.q /\ fr[i].name = "")

Select(st, s) ==
  LET items == ExpandStars(st.frame, s.items)
      es == [m \in Idx(items) |-> items[m].e]
      sc == ExprsScope(st.frame, es)
      keys == SelectSeq([i \in Idx(st.frame) |-> i], LAMBDA i : st.frame[i].key)
      nf == [m \in Idx(items) |-> Col(ItemName(items[m]), ItemSrc(st.frame, items[m]))]
  IN
  IF StarBad(st.frame, s.items) THEN Unsup(st)
  ELSE IF sc # "ok" THEN Bad(st, sc)
  ELSE IF st.grouped THEN Unsup(st)
  ELSE [ st EXCEPT
      !.frame = Shadow(nf),
      !.known = TRUE,
      !.W = Lift(st, LAMBDA w : { [w EXCEPT !.rows =
                 LET vals == ItemVals(st, w, items) IN
                 [i \in Idx(w.rows) |-> [v |-> vals[i], key |-> w.rows[i].key]]] }) ]

\* select !{..}: `this.*` minus the named columns (each must resolve, as in select).  `this.*` is
\* expanded by the resolver from its name table (see Group): the columns of input number p form a
\* block with sort key p, a computed column at frame position i has sort key i, unnamed columns
\* have no entry.
Exclude(st, s) ==
  LET sc == ExprsScope(st.frame, s.cols)
      drop == UNION { Matches(st.frame, s.cols[m].q, s.cols[m].name) : m \in Idx(s.cols) }
      oset == { i \in Idx(st.frame) : i \notin drop /\ st.frame[i].name # "" }
      ipos(src) == IF \E p \in Idx(st.inputs) : st.inputs[p] = src
                   THEN (CHOOSE p \in Idx(st.inputs) : st.inputs[p] = src) - 1 ELSE -1
      okey(i) == IF st.frame[i].src # "" THEN ipos(st.frame[i].src) ELSE i
      comp(i) == st.frame[i].src = ""
      before(i, j) == \/ okey(i) < okey(j)
                      \/ okey(i) = okey(j) /\ comp(i) /\ ~comp(j)
                      \/ okey(i) = okey(j) /\ comp(i) = comp(j) /\ i < j
      keep == SortSeq(SetToSeq(oset), before)
      tie == \E i \in oset : st.frame[i].src # "" /\ okey(i) < 0
  IN
  IF sc # "ok" THEN Bad(st, sc)
  \* (SQL has no relation without columns: excluding everything is not judged)
  ELSE IF st.grouped \/ tie \/ keep = <<>> \/ \E m \in Idx(s.cols) : s.cols[m].t # "col" THEN Unsup(st)
  ELSE [ st EXCEPT
      !.frame = [j \in Idx(keep) |-> st.frame[keep[j]]],
      !.W = Lift(st, LAMBDA w : { [w EXCEPT !.rows =
                 [i \in Idx(w.rows) |-> [v |-> [j \in Idx(keep) |-> w.rows[i].v[keep[j]]], key |-> w.rows[i].key]]] }) ]

Derive(st, s) ==
  LET es == [m \in Idx(s.items) |-> s.items[m].e]
      sc == ExprsScope(st.frame, es)
      nf == [m \in Idx(s.items) |-> Col(ItemName(s.items[m]), ItemSrc(st.frame, s.items[m]))]
  IN
  IF sc # "ok" THEN Bad(st, sc)
  ELSE [ st EXCEPT
      !.frame = Shadow(st.frame \o nf),
      !.W = Lift(st, LAMBDA w : { [w EXCEPT !.rows =
                 LET vals == ItemVals(st, w, s.items) IN
                 [i \in Idx(w.rows) |-> [v |-> w.rows[i].v \o vals[i], key |-> w.rows[i].key]]] }) ]

Filter(st, s) ==
  IF ExprsScope(st.frame, << s.e >>) # "ok" THEN Bad(st, ExprsScope(st.frame, << s.e >>))
  ELSE
  LET pv(w) == [i \in Idx(w.rows) |-> Eval(s.e, st.frame, w.rows[i].v, CtxOf(st, w, i))]
      undef == \E d \in Idx(st.W) : \E w \in st.W[d] : \E i \in Idx(w.rows) : IsUndef(pv(w)[i])
  IN [ st EXCEPT
      !.loose = st.loose \/ undef,
      !.W = Lift(st, LAMBDA w : { [w EXCEPT !.rows =
                 LET p == pv(w)
                     js == SelectSeq([i \in Idx(w.rows) |-> i], LAMBDA i : IsTrue(Truth(p[i])))
                 IN [m \in Idx(js) |-> w.rows[js[m]]]] }) ]

Sort(st, s) ==
  LET es == [m \in Idx(s.keys) |-> s.keys[m].e]
      dirs == [m \in Idx(s.keys) |-> s.keys[m].d]
      kv(w) == [i \in Idx(w.rows) |-> [m \in Idx(es) |-> Eval(es[m], st.frame, w.rows[i].v, CtxOf(st, w, i))]]
      undef == \E d \in Idx(st.W) : \E w \in st.W[d] : \E i \in Idx(w.rows) :
                  \E m \in Idx(es) : IsUndef(kv(w)[i][m])
      resort(w, ns) == [ns |-> ns, rows |->
                          SortRows([i \in Idx(w.rows) |-> [v |-> w.rows[i].v, key |-> kv(w)[i]]], dirs, ns # "large")]
  IN
  IF ExprsScope(st.frame, es) # "ok" THEN Bad(st, ExprsScope(st.frame, es))
  ELSE [ st EXCEPT
      !.dirs = dirs,
      !.loose = st.loose \/ undef,
      !.W = Lift(st, LAMBDA w :
               IF w.ns = "any" /\ \E i \in Idx(w.rows) : \E m \in Idx(es) : IsNull(kv(w)[i][m])
                 THEN { resort(w, "small"), resort(w, "large") }
                 ELSE { resort(w, w.ns) }) ]

\* take lo..hi (1-based, inclusive; hi = Inf when open)
Take(st, s) ==
  IF s.lo < 1 \/ s.hi < 0 THEN Err(st)
  ELSE [ st EXCEPT
      !.W = Lift(st, LAMBDA w :
               { [w EXCEPT !.rows = x] :
                   x \in TakeGroups(TieGroups(w.rows, st.dirs, Nsm(w)), 1, s.lo, s.hi) }) ]

Aggregate(st, s) ==
  LET es == [m \in Idx(s.items) |-> s.items[m].e]
      keys == SelectSeq([i \in Idx(st.frame) |-> i], LAMBDA i : st.frame[i].key)
      nf == [m \in Idx(keys) |-> st.frame[keys[m]]]
            \o [m \in Idx(s.items) |-> Col(ItemName(s.items[m]), "")]
      one(w) == LET c == [CtxOf(st, w, 0) EXCEPT !.i = 0]
                    kvals == IF w.rows = <<>> THEN [m \in Idx(keys) |-> Null]
                             ELSE [m \in Idx(keys) |-> w.rows[1].v[keys[m]]]
                    r0 == IF w.rows = <<>> THEN [j \in Idx(st.frame) |-> Null] ELSE w.rows[1].v
                IN [v |-> kvals \o [m \in Idx(es) |-> Eval(es[m], st.frame, r0, c)], key |-> <<>>]
  IN
  IF ExprsScope(st.frame, es) # "ok" THEN Bad(st, ExprsScope(st.frame, es))
  ELSE IF \E m \in Idx(es) : ~HasAgg(es[m]) THEN Unsup(st)
  ELSE [ st EXCEPT
      !.frame = Shadow(nf),
      !.known = TRUE,
      !.dirs = <<>>,
      !.W = Lift(st, LAMBDA w : { [ns |-> w.ns, rows |-> << one(w) >>] }) ]

-----------------------------------------------------------------------
(* Combination of the per-partition results of a group                 *)
NsJoin(a, b) == IF a = "any" THEN b ELSE IF b = "any" \/ a = b THEN a ELSE "clash"

\* parts: sequence of SETS of worlds; result: set of worlds, one choice per
\* partition, concatenated in partition order (the order between
\* partitions is not specified; callers treat the result as unordered)
RECURSIVE CrossConcat(_, _)
CrossConcat(parts, ns0) ==
  IF parts = <<>> THEN { [ns |-> ns0, rows |-> <<>>] }
  ELSE LET rest == CrossConcat(Tail(parts), ns0) IN
       { [ns |-> NsJoin(a.ns, b.ns), rows |-> a.rows \o b.rows] :
            a \in { x \in Head(parts) : TRUE }, b \in { y \in rest : TRUE } }

\* partition rows by the first nk values (in order of first appearance)
RECURSIVE PartitionRows(_, _)
PartitionRows(rows, nk) ==
  IF rows = <<>> THEN <<>>
  ELSE LET kof(r) == SubSeq(r.v, 1, nk)
           k1 == kof(rows[1])
           mine == SelectSeq(rows, LAMBDA r : kof(r) = k1)
           others == SelectSeq(rows, LAMBDA r : kof(r) # k1)
       IN << mine >> \o PartitionRows(others, nk)

RECURSIVE SumLens(_, _)
SumLens(ss, n) == IF n = 0 THEN 0 ELSE Len(ss[n]) + SumLens(ss, n - 1)

-----------------------------------------------------------------------
RECURSIVE ApplyStep(_, _, _, _)
RECURSIVE RunPipe(_, _, _, _)

Group(st, s, dbs, schema) ==
  LET sc == ExprsScope(st.frame, s.by)
      kidx == [m \in Idx(s.by) |-> CHOOSE i \in Matches(st.frame, s.by[m].q, s.by[m].name) : TRUE]
      kset == { kidx[m] : m \in Idx(s.by) }
      \* The partition is `this.*` minus the keys.  The resolver expands `this.*`
      \* from its name table (semantic/module.rs insert_frame, resolver/expr.rs
      \* construct_tuple_from_module): the columns of input number p (0-based)
      \* form one block with sort key p, a computed/aliased column at (1-based)
      \* frame position i has sort key i; blocks keep their frame order.
      oset == { i \in Idx(st.frame) : i \notin kset /\ st.frame[i].name # "" }
      ipos(src) == IF \E p \in Idx(st.inputs) : st.inputs[p] = src
                   THEN (CHOOSE p \in Idx(st.inputs) : st.inputs[p] = src) - 1 ELSE -1
      okey(i) == IF st.frame[i].src # "" THEN ipos(st.frame[i].src) ELSE i
      \* equal keys of a computed column and an input block: the column first (it precedes that
      \* input's columns in the frame; before the repair of F85 this order depended on hash seeds)
      comp(i) == st.frame[i].src = ""
      before(i, j) == \/ okey(i) < okey(j)
                      \/ okey(i) = okey(j) /\ comp(i) /\ ~comp(j)
                      \/ okey(i) = okey(j) /\ comp(i) = comp(j) /\ i < j
      others == SortSeq(SetToSeq(oset), before)
      \* two computed columns cannot tie; a column of an input the resolver does not know has no key
      tie == \E i \in oset : st.frame[i].src # "" /\ okey(i) < 0
      perm == kidx \o others
      nk == Len(kidx)
      fr0 == [m \in Idx(perm) |-> [st.frame[perm[m]] EXCEPT !.key = (m <= nk)]]
      \* all (instance, world) pairs, in a fixed order
      dw == FlattenSeq([d \in Idx(st.W) |-> LET ws == SetToSeq(st.W[d]) IN [j \in Idx(ws) |-> [d |-> d, w |-> ws[j]]]])
      \* `group` resets the order: inside a partition no sort is in effect
      \* until the inner pipeline sorts
      prow(r) == [v |-> [m \in Idx(perm) |-> r.v[perm[m]]], key |-> <<>>]
      partsOf == [j \in Idx(dw) |-> PartitionRows([i \in Idx(dw[j].w.rows) |-> prow(dw[j].w.rows[i])], nk)]
      nsOf == FlattenSeq([j \in Idx(dw) |-> [p \in Idx(partsOf[j]) |-> dw[j].w.ns]])
      flat == FlattenSeq(partsOf)
      inner0 == [ st EXCEPT !.frame = fr0, !.grouped = TRUE, !.dirs = <<>>, !.osort = (st.dirs # <<>>),
                            !.W = [m \in Idx(flat) |-> { [ns |-> nsOf[m], rows |-> flat[m]] }] ]
      inner1 == RunPipe(inner0, s.pipe, dbs, schema)
      off(j) == SumLens(partsOf, j - 1)
      res(j) == { x \in CrossConcat([p \in Idx(partsOf[j]) |-> inner1.W[off(j) + p]], dw[j].w.ns) : x.ns # "clash" }
      clear(w) == [w EXCEPT !.rows = [i \in Idx(w.rows) |-> [w.rows[i] EXCEPT !.key = <<>>]]]
  IN
  IF sc # "ok" THEN Bad(st, sc)
  ELSE IF tie THEN Unsup(st)
  ELSE IF \E m \in Idx(s.by) : s.by[m].t # "col" THEN Unsup(st)
  ELSE IF st.grouped THEN Unsup(st)
  ELSE IF inner1.status # "ok" THEN [st EXCEPT !.status = inner1.status]
  ELSE [ st EXCEPT
      !.frame = [m \in Idx(inner1.frame) |-> [inner1.frame[m] EXCEPT !.key = FALSE]],
      !.osort = st.osort,
      !.known = TRUE,
      !.dirs = <<>>,
      \* a key without a specified value makes the partitioning unspecified
      !.loose = inner1.loose \/ (\E m \in Idx(flat) : \E i \in Idx(flat[m]) : \E q \in 1 .. nk : IsUndef(flat[m][i].v[q])),
      !.W = [d \in Idx(st.W) |-> UNION { { clear(x) : x \in res(j) } : j \in { j \in Idx(dw) : dw[j].d = d } }] ]

Window(st, s, dbs, schema) ==
  LET inner0 == [st EXCEPT !.win = [fk |-> s.fk, lo |-> s.lo, hi |-> s.hi]]
      inner1 == RunPipe(inner0, s.pipe, dbs, schema)
  IN IF s.fk = "range" /\ (Len(st.dirs) # 1 \/ st.dirs # << "asc" >>) THEN Unsup(st)
     ELSE [inner1 EXCEPT !.win = st.win]

\* join: rows of the left input paired with the matching rows of the right
JoinRows(lrows, rrows, nl, nr, side, match(_, _)) ==
  LET nullL == [j \in 1 .. nl |-> Null]
      nullR == [j \in 1 .. nr |-> Null]
      forLeft(i) ==
        LET ms == SelectSeq([j \in Idx(rrows) |-> j], LAMBDA j : match(lrows[i].v, rrows[j].v)) IN
        IF ms = <<>> /\ side \in {"left", "full"}
          THEN << [v |-> lrows[i].v \o nullR, key |-> lrows[i].key] >>
          ELSE [m \in Idx(ms) |-> [v |-> lrows[i].v \o rrows[ms[m]].v, key |-> lrows[i].key]]
      matchedR == { j \in Idx(rrows) : \E i \in Idx(lrows) : match(lrows[i].v, rrows[j].v) }
      unmatchedR == SelectSeq([j \in Idx(rrows) |-> j], LAMBDA j : j \notin matchedR)
  IN FlattenSeq([i \in Idx(lrows) |-> forLeft(i)])
     \o (IF side \in {"right", "full"}
           THEN [m \in Idx(unmatchedR) |-> [v |-> nullL \o rrows[unmatchedR[m]].v, key |-> <<>>]]
           ELSE <<>>)

Join(st, s, dbs, schema) ==
  LET r0 == RunPipe(Fresh(st), s.with, dbs, schema)
      rfr == [i \in Idx(r0.frame) |-> [r0.frame[i] EXCEPT !.src = IF s.alias # "" THEN s.alias ELSE r0.frame[i].src]]
      fr == st.frame \o rfr
      nl == Len(st.frame)
      nr == Len(rfr)
      \* `==c` : this.c == that.c
      scope == IF s.on.t = "eqcol"
                 THEN (IF Cardinality(Matches(st.frame, "", s.on.name)) = 1
                          /\ Cardinality(Matches(rfr, "", s.on.name)) = 1 THEN "ok" ELSE "none")
                 ELSE ScopeOf(fr, s.on)
      cond(lv, rv) ==
        IF s.on.t = "eqcol"
          THEN Eq(lv[CHOOSE i \in Matches(st.frame, "", s.on.name) : TRUE],
                  rv[CHOOSE i \in Matches(rfr, "", s.on.name) : TRUE])
          ELSE Eval(s.on, fr, lv \o rv, ScalarCtx)
      undef == \E d \in Idx(st.W) : \E w \in st.W[d], x \in r0.W[d] :
                 \E i \in Idx(w.rows), j \in Idx(x.rows) : IsUndef(cond(w.rows[i].v, x.rows[j].v))
      keepOrder == s.side \in {"inner", "left"}
      strip(rows) == [i \in Idx(rows) |-> [rows[i] EXCEPT !.key = <<>>]]
  IN
  IF r0.status # "ok" THEN [st EXCEPT !.status = r0.status]
  \* joining a relation under a name the frame already uses (`join u` twice
  \* without an alias): the book gives no meaning to the resulting names
  ELSE IF \E i \in Idx(rfr), j \in Idx(st.frame) : rfr[i].src # "" /\ rfr[i].src = st.frame[j].src THEN Unsup(st)
  ELSE IF scope # "ok" THEN Bad(st, scope)
  ELSE IF s.on.t # "eqcol" /\ HasAgg(s.on) THEN Unsup(st)
  ELSE [ st EXCEPT
      !.frame = fr,
      !.inputs = st.inputs \o (IF s.alias # "" THEN << s.alias >> ELSE r0.inputs),
      !.known = st.known /\ r0.known,
      !.dirs = IF keepOrder THEN st.dirs ELSE <<>>,
      \* a right / full join has no left order to retain (unmatched right rows have no position): the
      \* book does not say what order is then in effect, so what rank means afterwards is left open
      !.osort = IF keepOrder THEN st.osort ELSE (st.osort \/ st.dirs # <<>>),
      !.loose = st.loose \/ r0.loose \/ undef,
      !.W = [d \in Idx(st.W) |->
               { [ns |-> NsJoin(p[1].ns, p[2].ns),
                  rows |-> LET jr == JoinRows(p[1].rows, p[2].rows, nl, nr, s.side,
                                              LAMBDA lv, rv : IsTrue(Truth(cond(lv, rv))))
                           IN IF keepOrder THEN jr ELSE strip(jr)]
                 : p \in { q \in st.W[d] \X r0.W[d] : NsJoin(q[1].ns, q[2].ns) # "clash" } }] ]

AppendT(st, s, dbs, schema) ==
  LET r0 == RunPipe(Fresh(st), s.with, dbs, schema)
      strip(rows) == [i \in Idx(rows) |-> [rows[i] EXCEPT !.key = <<>>]]
  IN
  IF r0.status # "ok" THEN [st EXCEPT !.status = r0.status]
  ELSE IF Len(r0.frame) # Len(st.frame) THEN Err(st)
  ELSE [ st EXCEPT
      !.frame = [i \in Idx(st.frame) |-> IF st.frame[i].name # "" THEN st.frame[i]
                                         ELSE [r0.frame[i] EXCEPT !.src = st.frame[i].src]],
      !.dirs = <<>>,
      !.loose = st.loose \/ r0.loose,
      !.W = [d \in Idx(st.W) |->
               { [ns |-> NsJoin(p[1].ns, p[2].ns), rows |-> strip(p[1].rows) \o strip(p[2].rows)]
                 : p \in { q \in st.W[d] \X r0.W[d] : NsJoin(q[1].ns, q[2].ns) # "clash" } }] ]

\* loop (step): the rows of the relation and of every relation obtained by applying the step
\* pipeline again, until a step returns no rows (the book's pseudo-code):
\*     result = []; current = initial; while current is not empty: result += current; current = step(current)
\* Given a meaning for step pipelines made of filter / select / derive (row-wise steps: an empty
\* relation stays empty, so all database instances can be iterated together), with one world per
\* instance, and when the iteration ends within LoopBound rounds; otherwise nothing is said.
LoopBound == 6
RowWise(pipe) == \A i \in Idx(pipe) : pipe[i].op \in {"filter", "select", "derive"}
AllEmpty(st) == \A d \in Idx(st.W) : \A w \in st.W[d] : w.rows = <<>>
OneWorld(st) == \A d \in Idx(st.W) : Cardinality(st.W[d]) = 1
TheWorld(st, d) == CHOOSE w \in st.W[d] : TRUE
-----------------------------------------------------------------------
(* remove / intersect (book, page "Append"; both marked experimental).                       *)
(* remove: "Removes rows that appear in another relation, like EXCEPT ALL. Duplicate rows    *)
(* are removed one-for-one."  The book does not say whether a NULL equals a NULL here        *)
(* (EXCEPT ALL: yes; the std definition, a left join on == over all columns: no): both are   *)
(* admissible worlds.  intersect: the book gives the name only; std defines it as the inner  *)
(* join on all columns (multiplicities multiply, NULL never matches), the name and the       *)
(* compiler's INTERSECT ALL say minimum of the multiplicities with NULLs not distinct: both  *)
(* are admissible worlds.  What order is in effect afterwards is left open (like a right     *)
(* join); relations of different widths are given no meaning (unsup).                        *)
RowEqv(lv, rv, nulleq) ==
  \A i \in Idx(lv) : \/ (nulleq /\ lv[i].k = "null" /\ rv[i].k = "null")
                     \/ IsTrue(Truth(Eq(lv[i], rv[i])))
RECURSIVE SetOpRows(_, _, _, _)
\* mode "diff": bag difference, one for one; mode "min": bag intersection
SetOpRows(top, bot, nulleq, mode) ==
  IF top = <<>> THEN <<>>
  ELSE LET r    == Head(top)
           ms   == SelectSeq([j \in Idx(bot) |-> j], LAMBDA j : RowEqv(r.v, bot[j].v, nulleq))
           rest == IF ms = <<>> THEN bot ELSE SubSeq(bot, 1, ms[1] - 1) \o SubSeq(bot, ms[1] + 1, Len(bot))
           keep == IF mode = "diff" THEN ms = <<>> ELSE ms # <<>>
       IN (IF keep THEN << [r EXCEPT !.key = <<>>] >> ELSE <<>>) \o SetOpRows(Tail(top), rest, nulleq, mode)
\* every top row once per matching bottom row (the inner join of the std definition)
ProductRows(top, bot) ==
  FlattenSeq([i \in Idx(top) |->
     LET ms == SelectSeq([j \in Idx(bot) |-> j], LAMBDA j : RowEqv(top[i].v, bot[j].v, FALSE))
     IN [m \in Idx(ms) |-> [top[i] EXCEPT !.key = <<>>]]])

SetOpT(st, s, dbs, schema) ==
  LET r0 == RunPipe(Fresh(st), s.with, dbs, schema)
      worlds(trows, brows) ==
        IF s.op = "remove"
          THEN { SetOpRows(trows, brows, TRUE, "diff"), SetOpRows(trows, brows, FALSE, "diff") }
          ELSE { SetOpRows(trows, brows, TRUE, "min"), ProductRows(trows, brows) }
  IN
  IF r0.status # "ok" THEN [st EXCEPT !.status = r0.status]
  ELSE IF Len(r0.frame) # Len(st.frame) THEN Unsup(st)
  ELSE [ st EXCEPT
      !.dirs = <<>>,
      !.osort = st.osort \/ st.dirs # <<>>,
      !.loose = st.loose \/ r0.loose,
      !.W = [d \in Idx(st.W) |->
               UNION { { [ns |-> NsJoin(p[1].ns, p[2].ns), rows |-> rs] : rs \in worlds(p[1].rows, p[2].rows) }
                       : p \in { q \in st.W[d] \X r0.W[d] : NsJoin(q[1].ns, q[2].ns) # "clash" } }] ]

RECURSIVE LoopRounds(_, _, _, _, _, _)
\* acc: per instance the rows gathered so far; result: [ok, acc, loose]
LoopRounds(cur, acc, n, pipe, dbs, schema) ==
  IF AllEmpty(cur) THEN [ok |-> TRUE, acc |-> acc, loose |-> cur.loose]
  ELSE IF n = 0 THEN [ok |-> FALSE, acc |-> acc, loose |-> cur.loose]
  ELSE LET acc2 == [d \in Idx(cur.W) |-> acc[d] \o [i \in Idx(TheWorld(cur, d).rows) |-> [v |-> TheWorld(cur, d).rows[i].v, key |-> <<>>]]]
           nxt0 == RunPipe([cur EXCEPT !.dirs = <<>>], pipe, dbs, schema)
       IN IF nxt0.status # "ok" \/ ~OneWorld(nxt0) \/ Len(nxt0.frame) # Len(cur.frame)
            THEN [ok |-> FALSE, acc |-> acc2, loose |-> cur.loose]
            \* the next round sees the step's rows under the names of the initial relation
            ELSE LoopRounds([nxt0 EXCEPT !.frame = cur.frame], acc2, n - 1, pipe, dbs, schema)
Loop(st, s, dbs, schema) ==
  IF ~RowWise(s.pipe) \/ ~OneWorld(st) \/ st.grouped THEN Unsup(st)
  ELSE LET r == LoopRounds(st, [d \in Idx(st.W) |-> <<>>], LoopBound, s.pipe, dbs, schema) IN
       IF ~r.ok THEN Unsup(st)
       ELSE [ st EXCEPT
              !.dirs = <<>>, !.osort = FALSE,
              !.loose = st.loose \/ r.loose,
              !.W = [d \in Idx(st.W) |-> { [ns |-> "any", rows |-> r.acc[d]] }] ]

\* `from x` where x is a let-bound relation (let x = (...), `... | into x`,
\* module m { let x = ... } referred to as m.x): the relation the named
\* pipeline denotes, evaluated with the declarations that precede it; it keeps
\* its order; its columns are known under the name (or the alias)
EnvIdx(st, name) == { i \in Idx(st.env) : st.env[i].name = name }
FromLet(st, s, dbs, schema) ==
  LET i == CHOOSE i \in EnvIdx(st, s.t) : \A j \in EnvIdx(st, s.t) : j <= i
      sub0 == [Fresh(st) EXCEPT !.env = SubSeq(st.env, 1, i - 1)]
      r0 == RunPipe(sub0, st.env[i].steps, dbs, schema)
      \* the last component of a module path is the relation's name
      src == IF s.alias # "" THEN s.alias ELSE st.env[i].short
  IN IF r0.status # "ok" THEN [st EXCEPT !.status = r0.status]
     ELSE [ st EXCEPT
       !.frame = [k \in Idx(r0.frame) |-> [r0.frame[k] EXCEPT !.src = src]],
       !.W = r0.W, !.dirs = r0.dirs, !.loose = r0.loose, !.known = TRUE,
       !.inputs = << src >>, !.status = "ok" ]

\* ---- user functions: a call is replaced by the body with the parameters
\* substituted (beta-reduction) before anything is evaluated ----
FnIdx(fns, name) == { i \in Idx(fns) : fns[i].name = name }
BadCall == [t |-> "badcall"]
RECURSIVE SubstE(_, _)
\* bind: function from parameter name to expression
SubstE(e, bind) ==
  CASE e.t = "col"  -> IF e.q = "" /\ e.name \in DOMAIN bind THEN bind[e.name] ELSE e
    [] e.t = "bin"  -> [e EXCEPT !.l = SubstE(e.l, bind), !.r = SubstE(e.r, bind)]
    [] e.t = "un"   -> [e EXCEPT !.e = SubstE(e.e, bind)]
    [] e.t = "case" -> [e EXCEPT !.arms = [k \in Idx(e.arms) |-> [c |-> SubstE(e.arms[k].c, bind), v |-> SubstE(e.arms[k].v, bind)]]]
    [] e.t = "agg"  -> [e EXCEPT !.e = SubstE(e.e, bind)]
    [] e.t = "in"   -> [e EXCEPT !.e = SubstE(e.e, bind), !.lo = SubstE(e.lo, bind), !.hi = SubstE(e.hi, bind)]
    [] e.t = "call" -> [e EXCEPT !.args = [k \in Idx(e.args) |-> SubstE(e.args[k], bind)],
                                  !.named = [k \in Idx(e.named) |-> [n |-> e.named[k].n, e |-> SubstE(e.named[k].e, bind)]]]
    [] OTHER        -> e
RECURSIVE InlineE(_, _)
InlineE(e, fns) ==
  CASE e.t = "bin"  -> [e EXCEPT !.l = InlineE(e.l, fns), !.r = InlineE(e.r, fns)]
    [] e.t = "un"   -> [e EXCEPT !.e = InlineE(e.e, fns)]
    [] e.t = "case" -> [e EXCEPT !.arms = [k \in Idx(e.arms) |-> [c |-> InlineE(e.arms[k].c, fns), v |-> InlineE(e.arms[k].v, fns)]]]
    [] e.t = "agg"  -> [e EXCEPT !.e = InlineE(e.e, fns)]
    [] e.t = "in"   -> [e EXCEPT !.e = InlineE(e.e, fns), !.lo = InlineE(e.lo, fns), !.hi = InlineE(e.hi, fns)]
    [] e.t = "call" ->
         IF FnIdx(fns, e.f) = {} THEN BadCall
         ELSE LET i == CHOOSE i \in FnIdx(fns, e.f) : \A j \in FnIdx(fns, e.f) : j <= i
                  f == fns[i]
                  args == [k \in Idx(e.args) |-> InlineE(e.args[k], fns)]
                  namedOk == \A k \in Idx(e.named) : \E m \in Idx(f.named) : f.named[m].n = e.named[k].n
                  pbind == [p \in { f.params[k] : k \in Idx(f.params) } |->
                              args[CHOOSE k \in Idx(f.params) : f.params[k] = p]]
                  nval(m) == IF \E k \in Idx(e.named) : e.named[k].n = f.named[m].n
                             THEN InlineE(e.named[CHOOSE k \in Idx(e.named) : e.named[k].n = f.named[m].n].e, fns)
                             ELSE f.named[m].d
                  nbind == [p \in { f.named[m].n : m \in Idx(f.named) } |->
                              nval(CHOOSE m \in Idx(f.named) : f.named[m].n = p)]
                  bind == [p \in DOMAIN pbind \cup DOMAIN nbind |-> IF p \in DOMAIN pbind THEN pbind[p] ELSE nbind[p]]
                  \* the body may call functions declared before f
                  body == InlineE(f.body, SubSeq(fns, 1, i - 1))
              IN \* too many / too few positional arguments, or an unknown named argument: ill-formed
                 IF Len(e.args) # Len(f.params) \/ ~namedOk THEN BadCall
                 ELSE SubstE(body, bind)
    [] OTHER        -> e

InlineItems(items, fns) == [k \in Idx(items) |-> [items[k] EXCEPT !.e = InlineE(items[k].e, fns)]]
InlineStep(s, fns) ==
  IF fns = <<>> THEN s
  ELSE CASE s.op \in {"select", "derive", "aggregate"} -> [s EXCEPT !.items = InlineItems(s.items, fns)]
         [] s.op = "filter" -> [s EXCEPT !.e = InlineE(s.e, fns)]
         [] s.op = "sort"   -> [s EXCEPT !.keys = [k \in Idx(s.keys) |-> [s.keys[k] EXCEPT !.e = InlineE(s.keys[k].e, fns)]]]
         [] s.op = "join"   -> IF s.on.t = "eqcol" THEN s ELSE [s EXCEPT !.on = InlineE(s.on, fns)]
         [] OTHER -> s

ApplyStep(st, s0, dbs, schema) ==
  LET s == InlineStep(s0, st.fns) IN
  IF st.status = "init" /\ s.op = "fromlit" THEN FromLit(st, s, dbs)
  ELSE IF st.status = "init" THEN (IF s.op = "from" THEN (IF EnvIdx(st, s.t) # {} THEN FromLet(st, s, dbs, schema) ELSE From(st, s, dbs, schema)) ELSE Err(st))
  ELSE IF st.status # "ok" THEN st
  ELSE CASE s.op = "select"    -> Select(st, s)
         [] s.op = "derive"    -> Derive(st, s)
         [] s.op = "exclude"   -> Exclude(st, s)
         [] s.op = "filter"    -> Filter(st, s)
         [] s.op = "sort"      -> Sort(st, s)
         [] s.op = "take"      -> Take(st, s)
         [] s.op = "aggregate" -> Aggregate(st, s)
         [] s.op = "group"     -> Group(st, s, dbs, schema)
         [] s.op = "window"    -> Window(st, s, dbs, schema)
         [] s.op = "join"      -> Join(st, s, dbs, schema)
         [] s.op = "append"    -> AppendT(st, s, dbs, schema)
         [] s.op \in {"remove", "intersect"} -> SetOpT(st, s, dbs, schema)
         [] s.op = "loop"      -> Loop(st, s, dbs, schema)
         \* scope-breaking steps (C10): a call with a surplus positional argument,
         \* an unknown named argument, a scalar where a relation is required or
         \* a relation where a scalar is required.  s.kind names the breakage.
         [] s.op = "bad"       -> Err(st)
         [] OTHER              -> Unsup(st)

RunPipe(st, steps, dbs, schema) ==
  IF steps = <<>> THEN st
  ELSE RunPipe(ApplyStep(st, Head(steps), dbs, schema), Tail(steps), dbs, schema)

-----------------------------------------------------------------------
(* Observation: is a result read back from a database admissible?      *)

\* bag equality of two sequences of value tuples under Equiv, greedy:
\* remove from exp the first row equivalent to each obs row
RowEquiv(o, e) == Len(o) = Len(e) /\ \A i \in Idx(o) : Equiv(o[i], e[i])

RECURSIVE BagMatch(_, _)
BagMatch(obs, exp) ==
  IF obs = <<>> THEN exp = <<>>
  ELSE IF \E j \in Idx(exp) : RowEquiv(obs[1], exp[j])
    THEN LET j == CHOOSE j \in Idx(exp) : RowEquiv(obs[1], exp[j]) /\ \A j2 \in 1 .. (j - 1) : ~RowEquiv(obs[1], exp[j2])
         IN BagMatch(Tail(obs), SubSeq(exp, 1, j - 1) \o SubSeq(exp, j + 1, Len(exp)))
    ELSE FALSE

\* obs (sequence of value tuples, in the order the database returned them)
\* is a linearisation of world w: chunk by chunk, each tie group is matched
\* as a bag
RECURSIVE ChunksMatch(_, _)
ChunksMatch(obs, groups) ==
  IF groups = <<>> THEN obs = <<>>
  ELSE LET g == Head(groups) n == Len(g) IN
       /\ Len(obs) >= n
       /\ BagMatch(SubSeq(obs, 1, n), [i \in Idx(g) |-> g[i].v])
       /\ ChunksMatch(SubSeq(obs, n + 1, Len(obs)), Tail(groups))

Admits(w, dirs, obs) ==
  /\ Len(obs) = Len(w.rows)
  /\ ChunksMatch(obs, TieGroups(w.rows, dirs, Nsm(w)))

\* an Undef cell makes greedy matching unsound only in the accepting
\* direction, which is the direction "unspecified" must take anyway
ObserveOk(st, obs) ==      \* obs[d] = rows returned on instance d
  \A d \in Idx(st.W) : \E w \in st.W[d] : Admits(w, st.dirs, obs[d])

\* frame check: one result column per frame column, named columns carry
\* their names (names[i] = "" is never produced by a database)
FrameOk(st, names) ==
  /\ Len(names) = Len(st.frame)
  /\ \A i \in Idx(names) : st.frame[i].name # "" => names[i] = st.frame[i].name
=======================================================================
