SPECIFICATION Spec
CONSTANTS
  RepairedN88 = TRUE
  RepairedN115 = TRUE
  MaxDecls = 3
  MaxInsts = 3
INVARIANT NamesOk
CHECK_DEADLOCK FALSE
