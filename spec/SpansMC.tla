----------------------------- MODULE SpansMC -----------------------------
(* (1) The two offset conventions in the code base - byte offsets (parser   *)
(* token spans) and character offsets (what ErrorMessage documents and      *)
(* what the location / display are computed from) - agree exactly on        *)
(* prefixes without multi-byte characters: checked for every source of up   *)
(* to MaxLen characters over {1-, 2-, 4-byte character, line break}.        *)
(* (2) The case space of the replay: error template x padding kind x        *)
(* padding place x file layout, one state each, printed for `pv errors`.    *)
EXTENDS Spans, Json, IOUtils
Cfg == JsonDeserialize(IOEnv.SPANSCFG)   \* [maxlen, templates: Seq(STRING), pads: Seq(STRING), places: Seq(STRING), layouts: Seq(STRING)]
Alphabet == { <<1, FALSE>>, <<2, FALSE>>, <<4, FALSE>>, <<1, TRUE>> }
VARIABLES src, cs
vars == <<src, cs>>
NoCase == [tmpl |-> "", pad |-> "", place |-> "", layout |-> ""]
Init == src = <<>> /\ cs = NoCase
Grow == cs = NoCase /\ Len(src) < Cfg.maxlen /\ \E c \in Alphabet : src' = Append(src, c) /\ UNCHANGED cs
Case == /\ src = <<>> /\ cs = NoCase
        /\ \E t \in 1 .. Len(Cfg.templates), p \in 1 .. Len(Cfg.pads), q \in 1 .. Len(Cfg.places), y \in 1 .. Len(Cfg.layouts) :
             cs' = [tmpl |-> Cfg.templates[t], pad |-> Cfg.pads[p], place |-> Cfg.places[q], layout |-> Cfg.layouts[y]]
        /\ UNCHANGED src
Next == Grow \/ Case
Spec == Init /\ [][Next]_vars

RECURSIVE ByteOffset(_, _)
ByteOffset(chars, p) == IF p = 0 THEN 0 ELSE ByteOffset(chars, p - 1) + chars[p][1]
\* reading the byte offset of character position p as a character offset is right iff nothing multi-byte precedes
ConventionsAgreeOnAsciiOnly ==
  \A p \in 0 .. Len(src) : (ByteOffset(src, p) = p) <=> (\A i \in 1 .. p : src[i][1] = 1)
\* the position machine: moving one character forward either increments the column or starts a new line
LineColStep ==
  \A p \in 1 .. Len(src) :
    LET a == LineCol(src, p - 1)  b == LineCol(src, p) IN
    IF src[p][2] THEN b = << a[1] + 1, 0 >> ELSE b = << a[1], a[2] + 1 >>
Emit == (cs # NoCase) => PrintT(<<"REPLAY", ToJson(cs)>>)
=======================================================================
