---------------------------- MODULE FmtTrace ----------------------------
EXTENDS FmtLaw, Json, IOUtils
Rec == ndJsonDeserialize(IOEnv.TRACE)
VARIABLES l, val, cur, n, nrej
vars == <<l, val, cur, n, nrej>>
TInit == l = 1 /\ val = V0 /\ cur = "" /\ n = 0 /\ nrej = 0
Ev == Rec[l]
Consume == l <= Len(Rec) /\ l' = l + 1
Reset == Consume /\ Ev.event = "Reset" /\ val' = V0 /\ cur' = Ev.id /\ n' = n + 1 /\ UNCHANGED nrej
NoParse == Consume /\ Ev.event = "NoParse" /\ UNCHANGED <<val, cur, n, nrej>>
ApplyF(f) == /\ Consume /\ Ev.event = "Apply" /\ Ev.f = f /\ ApplyOk(val, f, Ev.dst, Ev.id, Ev.ok)
             /\ val' = [val EXCEPT ![Ev.dst] = Ev.id] /\ UNCHANGED <<cur, n, nrej>>
Reject == /\ Consume /\ Ev.event = "Apply" /\ ~ApplyOk(val, Ev.f, Ev.dst, Ev.id, Ev.ok)
          /\ nrej' = nrej + 1 /\ PrintT(<<"REJECT", cur, Ev.f, l>>) /\ UNCHANGED <<val, cur, n>>
End == Consume /\ Ev.event = "End" /\ PrintT(<<"COUNTS", n, nrej>>) /\ UNCHANGED <<val, cur, n, nrej>>
TNext == \/ Reset \/ NoParse \/ Reject \/ End
         \/ ApplyF("parse") \/ ApplyF("format") \/ ApplyF("reparse") \/ ApplyF("reformat")
         \/ ApplyF("compile") \/ ApplyF("compile_formatted")
TraceSpec == TInit /\ [][TNext]_vars
TraceAccepted ==
  LET d == TLCGet("stats").diameter IN
  /\ PrintT(<<"TRACE", d - 1, Len(Rec)>>)
  /\ d - 1 = Len(Rec)
=======================================================================
