"""C08: literal values reach the database unchanged and cannot alter the statement (spec/Literal.tla)."""
import sys, os, json, random, subprocess
sys.path.insert(0, os.path.join(os.path.dirname(os.path.abspath(__file__)), "..", "lib"))
from vlib import *
from concurrent.futures import ThreadPoolExecutor

def raw(c): return {"k": "raw", "c": ord(c), "e": ""}
def esc(e): return {"k": "esc", "c": 0, "e": e}
RAWS = "a '\"-/*;{}\n%_é😀#"
ESCS = ["\\", "'", "\"", "n", "t", "r", "/", "b", "f", "x41", "u{e9}", "u{1F600}", "u{27}", "u{5c}", "x7e"]

BACKSLASH = {"mysql", "bigquery", "clickhouse", "snowflake", "redshift"}

def check(tier):
    rep = Report("C08", tier)
    d = workdir("C08")
    build_harness()
    pieces = [raw(c) for c in RAWS] + [esc(e) for e in ESCS]
    models = [({"pieces": pieces, "maxlen": 2}, "all2")]
    # length 3 (4 thorough) over the characters that matter to SQL lexing
    core = [raw(c) for c in "a'\"-;\n"] + [esc(e) for e in ["\\", "'", "\"", "n", "u{27}", "u{5c}"]]
    models.append(({"pieces": core, "maxlen": 3 if tier == "quick" else 4}, "core"))
    lits = []
    states = transitions = 0
    for cfg, tag in models:
        cp = os.path.join(d, f"cfg-{tag}.json"); json.dump(cfg, open(cp, "w"))
        out, info = tlc("LiteralMC", "LiteralMC.cfg", env={"LITCFG": cp}, workers=8, xmx="8g")
        if not info["no_error"]:
            raise ToolError("LiteralMC: the design-level lexing laws fail: " + info.get("error_text", "")[:1500])
        states += info["distinct"]; transitions += info["generated"]
        lits += replay_lines(out)
    # de-duplicate
    seen = set(); uniq = []
    for l in lits:
        key = json.dumps([l["pieces"], l["q"], l["n"], l["raw"]], sort_keys=True)
        if key not in seen:
            seen.add(key); uniq.append(l)
    lits = uniq
    # the same values written as f-strings without interpolations (`{` and `}` are written twice there): every literal that
    # contains a brace, and a sample of the others
    rnd0 = random.Random(seed() + 5)
    fl = [l for l in lits if not l["raw"] and any(p["k"] == "raw" and p["c"] in (123, 125) for p in l["pieces"])]
    others = [l for l in lits if not l["raw"] and l not in fl]
    fl = fl + rnd0.sample(others, min(len(others), 300 if tier == "quick" else 3000))
    lits = lits + [dict(l, f=True) for l in fl]
    per = 3000
    shards = [lits[i:i + per] for i in range(0, len(lits), per)]
    def run(i):
        lp = os.path.join(d, f"lits{i}.ndjson"); write_ndjson(lp, shards[i])
        ev = os.path.join(d, f"ev{i}.ndjson")
        pv(["literal", lp, ev])
        return ev, tlc("LiteralTrace", "LiteralTrace.cfg", env={"TRACE": ev}, workers=1, deque=True, xmx="6g")
    with ThreadPoolExecutor(max_workers=6) as ex:
        results = list(ex.map(run, range(len(shards))))
    nvalid = 0; tstates = 0
    for si, (ev, (tout, tinfo)) in enumerate(results):
        tr = tuples(tout, "TRACE")
        if not tinfo["no_error"] or not tr or tr[0][1] != tr[0][2]:
            open(ev + ".tlc.out", "w").write(tout)
            raise ToolError("LiteralTrace did not consume the trace: " + tinfo.get("error_text", tout[-1200:])[:1500])
        tstates += tinfo.get("distinct", 0)
        c = tuples(tout, "COUNTS"); nvalid += c[-1][1] if c else 0
        evs = None
        for r in tuples(tout, "REJECT"):
            if evs is None:
                evs = {e["id"]: e for e in read_ndjson(ev) if e.get("event") == "Lit"}
            e = evs[r[1]]
            val = e["lit"]["value"]
            fault = r[2]
            sig = {"what": "literal", "fault": fault.split(":")[0], "dialect": fault.split(":")[1] if ":" in fault else "sqlite",
                   "has_backslash": 92 in val, "has_quote": 39 in val, "has_backslash_quote": any(val[i] == 92 and val[i + 1] == 39 for i in range(len(val) - 1)), "has_two_quotes": any(val[i] == 39 and val[i + 1] == 39 for i in range(len(val) - 1)),
                   "src": e["spelling"], "sql": next((x.get("sql") or "" for x in e["dialects"] if x["d"] == (fault.split(":")[1] if ":" in fault else "sqlite")), "")}
            rep.violation({"property": "C08", "kind": fault, "literal": e["spelling"], "expected_code_points": val,
                           "sqlite": e["sqlite"], "failing": [x for x in e["dialects"] if x["d"] == sig["dialect"]][:1]}, sig)
    # ---- numeric literals (spec/Number.tla) ----
    def N(ip, fp="", ex=None, us=()):
        return {"ip": [int(ch) for ch in ip], "fp": [int(ch) for ch in fp], "ex": ex or 0, "hasexp": ex is not None, "us": list(us)}
    nums = [N("0"), N("7"), N("42"), N("1000", us=(1,)), N("1000000", us=(1, 4)), N("12", us=(1,)), N("15", fp="5"), N("1", fp="0"), N("0", fp="1"),
            N("0", fp="025"), N("1", ex=3), N("25", fp="5", ex=-2), N("1", ex=-3), N("3", fp="14159"), N("2", fp="5", ex=2), N("100", fp="001"),
            N("9", fp="99", ex=1), N("123456789012345678"), N("1513599841355526145"), N("9223372036854775807"), N("1000000000000000000"),
            N("999999999999999999"), N("9223372036854775808"), N("12345678901234567890"), N("4294967296"), N("2147483648"), N("99999999999"),
            N("1", fp="5", ex=10), N("1", ex=15), N("123456", fp="789"),
            # mantissa x power of ten is not the nearest double of the spelling (two roundings): the whole spelling must be read at once
            N("1", fp="1", ex=2), N("3", ex=-1), N("1", fp="1", ex=-5), N("5", fp="1", ex=1), N("7", ex=-2), N("2", fp="3", ex=-4), N("6", fp="02214076", ex=23), N("1", ex=23), N("4", fp="35", ex=2)]
    for m_ in ("1.1", "3", "7", "2.3", "5.1", "9.7", "1.9", "6.5", "0.7", "4.35"):
        for ex_ in (-7, -5, -3, -2, -1, 1, 2, 3, 4, 6, 9, 21, 22, 23):
            ip_, _, fp_ = m_.partition(".")
            nums.append(N(ip_, fp=fp_, ex=ex_))
    rnd = random.Random(seed())
    for _ in range(150 if tier == "quick" else 3000):
        ln = rnd.choice([1, 2, 5, 9, 10, 15, 17, 18, 19, 19, 20])
        ip = str(rnd.randint(1, 9)) + "".join(str(rnd.randint(0, 9)) for _ in range(ln - 1))
        if rnd.random() < 0.6:
            nums.append(N(ip, us=tuple(sorted(rnd.sample(range(1, max(2, len(ip))), min(len(ip) - 1, rnd.randint(0, 2)))))))
        else:
            ip = ip[:rnd.randint(1, 6)]
            nums.append(N(ip, fp="".join(str(rnd.randint(0, 9)) for _ in range(rnd.randint(1, 6))), ex=rnd.choice([None, None, -3, -1, 0, 2, 5])))
    write_ndjson(os.path.join(d, "nums.ndjson"), nums)
    pv(["number", os.path.join(d, "nums.ndjson"), os.path.join(d, "num_ev.ndjson")])
    nout, ninfo = tlc("NumberTrace", "NumberTrace.cfg", env={"TRACE": os.path.join(d, "num_ev.ndjson")}, workers=1, deque=True)
    trn = tuples(nout, "TRACE")
    if not ninfo["no_error"] or not trn or trn[0][1] != trn[0][2]:
        raise ToolError("NumberTrace did not consume the trace: " + ninfo.get("error_text", nout[-1200:])[:1500])
    cn = tuples(nout, "COUNTS"); nvalid += cn[-1][1] if cn else 0
    tstates += ninfo.get("distinct", 0)
    nev = {e["id"]: e for e in read_ndjson(os.path.join(d, "num_ev.ndjson")) if e.get("event") == "Num"}
    for r in tuples(nout, "REJECT"):
        e = nev[r[1]]
        rep.violation({"property": "C08", "kind": "number-" + r[2], "literal": e["spelling"], "sqlite": e["sqlite"],
                       "failing": [x for x in e["dialects"] if r[2].endswith(":" + x["d"])][:1]},
                      {"what": "number", "fault": r[2].split(":")[0], "src": e["spelling"]})
    # binding demonstration
    evs = read_ndjson(results[0][0])
    k = 0
    for e in evs:
        if e.get("event") == "Lit" and e["sqlite"]["ran"] and e["sqlite"]["istext"] and 92 not in e["lit"]["value"] and 39 not in e["lit"]["value"]:
            k += 1
            if k == 1: e["sqlite"]["v"] = e["sqlite"]["v"] + [120]
            elif k == 2: e["sqlite"]["w"] = 8
            elif k == 3: e["dialects"][3]["nstr"] = 2
            elif k == 4: break
    write_ndjson(os.path.join(d, "bad.ndjson"), evs)
    bout, _ = tlc("LiteralTrace", "LiteralTrace.cfg", env={"TRACE": os.path.join(d, "bad.ndjson")}, workers=1, deque=True)
    extra = len(tuples(bout, "REJECT")) - len(tuples(results[0][1][0], "REJECT"))
    if extra != 3:
        raise ToolError(f"C08 selftest: expected 3 additional rejections, got {extra}")
    cov = {"states": states + tstates, "transitions": transitions + tstates, "traces_validated_against_impl": nvalid,
           "samples": [{"literal": l["pieces"], "q": l["q"], "n": l["n"], "raw": l["raw"], "value": l["value"]} for l in (lits[0], lits[len(lits) // 2], lits[-1])],
           "exhaustive": True,
           "explanation": f"LiteralMC: every string literal of <= 2 pieces over {len(pieces)} pieces (raw characters incl. quotes, comment markers, newline, non-ASCII, non-BMP; every documented escape) and of <= {models[1][0]['maxlen']} pieces over the {len(core)} SQL-critical pieces, in 4 quote styles + raw strings ({len(lits)} literals; TLC checked the design-level laws: emission round-trips under ANSI lexing, and under backslash-escaping lexers iff the value has no backslash); each compiled for 12 dialects, value read back from SQLite, string token read with sqlparser's tokenizer of each dialect, validated by LiteralTrace; plus {len(nums)} numeric spellings (underscores, fractions, exponents, 1..20 digits around the i64 boundary) validated by NumberTrace on digit sequences",
           "literals": len(lits), "numeric_literals": len(nums), "selftest": {"corrupted": 3, "rejected": extra}}
    return rep.finish("model_checking", cov,
                      ["the per-dialect lexer is sqlparser's tokenizer for that dialect (glaredb -> PostgreSQL, ansi/generic -> Generic); SQLite is the only engine",
                       "date/time and f-string literals are exercised by the C14/C15 generators, not by this model; floats are required to agree in value up to 15 significant digits"])
