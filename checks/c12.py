"""C12: no input makes a public entry point panic, abort or hang (spec/Totality.tla; exploration level).
The input space is given shape by the other models: the lexical alphabet of Lexer.tla, token-level
sequences, the programs of the L1 machine incl. every scope-breaking edit, single-invariant corruptions
of RQ / PL documents (the negative space of Rq.tla), and growth families of doubling size."""
import sys, os, json, random, subprocess, itertools, copy, time
sys.path.insert(0, os.path.join(os.path.dirname(os.path.abspath(__file__)), "..", "lib"))
from vlib import *
from progs import *
import l1, gen, corpus, l1props, c16, c17
from concurrent.futures import ThreadPoolExecutor

TOKENS = ["from", "t", "select", "{", "}", "(", ")", "a", ",", "=", "==", "+", "-", "|", "1", "\"s\"", "null", "derive", "group", "take", "..", "let", "->", "\n"]

TOKENS2 = ["select", "derive", "filter", "sort", "take", "group", "aggregate", "join", "window", "append", "a", "t.a", "this", "*", "t.*", "{", "}", "(", ")", "[", "]",
           ",", "=", "==", "+", "-", "!", "??", "&&", "..", "1", "\"s\"", "null", "true", "case", "=>", "f\"{a}\"", "s\"x\"", "@2020-01-01", "$1", "sum", "u"]
TOKENS3 = ["loop", "into", "let", "->", "|", "in", "that", "`a b`", "1.5", "2days", "%", "//", "~=", ":", "rolling:2", "side:left", "count", "std.sum", "\n", "r\"x\""]

def run_shard(d, name, inputs, dialects, timeout=600):
    """run `pv totality` on inputs in a child process; a crash / time-out of the child is recorded as a
    Died event for the input it was working on, and the remaining inputs continue in a new child"""
    events = []
    rest = inputs
    rnd = 0
    deaths = {}
    while rest:
        ip = os.path.join(d, f"{name}-{rnd}.in.ndjson"); op = os.path.join(d, f"{name}-{rnd}.out.ndjson")
        write_ndjson(ip, rest)
        try:
            r = subprocess.run([PV, "totality", ip, op, dialects], stdout=subprocess.PIPE, stderr=subprocess.PIPE, text=True, timeout=timeout)
            rc, err, how = r.returncode, r.stderr, "crashed"
        except subprocess.TimeoutExpired as e:
            rc, err, how = -9, (e.stderr.decode() if isinstance(e.stderr, bytes) else (e.stderr or "")), "timed-out"
        done = [e for e in read_ndjson(op)] if os.path.exists(op) else []
        done = [e for e in done if e.get("event") == "Input"]
        events += done
        if rc == 0:
            break
        marks = [l[1:] for l in err.splitlines() if l.startswith("@")]
        cur = marks[-1] if marks else rest[0]["id"]
        events.append({"event": "Died", "id": cur, "how": how, "family": next((x["family"] for x in rest if x["id"] == cur), "")})
        idx = next((i for i, x in enumerate(rest) if x["id"] == cur), len(rest) - 1)
        rest = rest[idx + 1:]
        rnd += 1
        # a family that has killed three children is a finding already: its remaining inputs are not run (each hang costs a
        # whole time-out), and after a time-out the following children get a short one
        fam = events[-1]["family"]
        deaths[fam] = deaths.get(fam, 0) + 1
        if deaths[fam] >= 3:
            rest = [x for x in rest if x["family"] != fam]
        if how == "timed-out":
            timeout = min(timeout, 90)
    return events

def rq_corruptions(rq, rnd):
    """every RQ with ONE invariant of Rq.tla broken"""
    out = []
    def walk_exprs(node, fn):
        if isinstance(node, dict):
            if "ColumnRef" in node and isinstance(node["ColumnRef"], int):
                fn(node)
            for v in node.values():
                walk_exprs(v, fn)
        elif isinstance(node, list):
            for v in node:
                walk_exprs(v, fn)
    refs = []
    walk_exprs(rq, refs.append)
    r1 = copy.deepcopy(rq); refs1 = []; walk_exprs(r1, refs1.append)
    if refs1:
        refs1[0]["ColumnRef"] = 9999; out.append(("dangling-cid", r1))
    pipe = rq["relation"]["kind"].get("Pipeline") if isinstance(rq["relation"]["kind"], dict) else None
    if pipe:
        r2 = copy.deepcopy(rq); p2 = r2["relation"]["kind"]["Pipeline"]
        if "From" in p2[0]:
            p2[0]["From"]["source"] = 777; out.append(("undeclared-tid", r2))
        r3 = copy.deepcopy(rq); del r3["relation"]["kind"]["Pipeline"][0]; out.append(("missing-from", r3))
        r4 = copy.deepcopy(rq)
        if "Select" in r4["relation"]["kind"]["Pipeline"][-1]:
            del r4["relation"]["kind"]["Pipeline"][-1]; out.append(("missing-select", r4))
        r5 = copy.deepcopy(rq)
        if len(r5["relation"]["columns"]) > 1:
            r5["relation"]["columns"].pop(); out.append(("arity", r5))
        r6 = copy.deepcopy(rq)
        for t in r6["relation"]["kind"]["Pipeline"]:
            if "Select" in t and t["Select"]:
                t["Select"][0] = 9999; out.append(("select-dangling", r6)); break
        r7 = copy.deepcopy(rq); found = [False]
        def opfix(node):
            if isinstance(node, dict):
                if "Operator" in node and node["Operator"]["args"] and not found[0]:
                    node["Operator"]["args"].pop(); found[0] = True
                for v in node.values(): opfix(v)
            elif isinstance(node, list):
                for v in node: opfix(v)
        opfix(r7)
        if found[0]: out.append(("operator-arity", r7))
    return out

def growth_inputs(maxk):
    fams = {
        "nest-paren": lambda n: "from t | select {x = " + "(" * n + "a" + ")" * n + "}",
        "nest-tuple": lambda n: "from t | select " + "{" * n + "a" + "}" * n,
        "chain-unary": lambda n: "from t | select {x = " + "-(" * n + "a" + ")" * n + "}",
        "chain-binary": lambda n: "from t | select {x = a" + " + a" * n + "}",
        "chain-pipeline": lambda n: "from t" + " | filter a > 1" * n,
        "chain-derive": lambda n: "from t" + "".join(f" | derive {{x{i} = a + {i}}}" for i in range(n)),
        "chain-let": lambda n: "".join(f"let t{i+1} = (from t{i} | filter a > {i})\n" for i in range(n)) + f"from t{n}",
        "nest-fstring": lambda n: "from t | select {x = f\"" + "{a}-" * n + "\"}",
        "chain-case": lambda n: "from t | select {x = case [" + ", ".join(f"a == {i} => {i}" for i in range(n)) + "]}",
        "wide-select": lambda n: "from t | select {" + ", ".join(f"c{i} = a + {i}" for i in range(n)) + "}",
    }
    out = []
    for f, mk in fams.items():
        for k in range(2, maxk + 1):
            n = 2 ** k
            out.append({"id": f"{f}/{n}", "family": f, "n": n, "kind": "src", "text": mk(n)})
    return out

def check(tier):
    rep = Report("C12", tier)
    d = workdir("C12")
    for f in os.listdir(d):
        os.remove(os.path.join(d, f))
    build_harness()
    rnd = random.Random(seed())
    dbset = os.path.join(ROOT, "corpus", "dbs_quick.json")
    inputs = []
    # (a) lexical alphabet of Lexer.tla
    A = c17.ALPHABET
    maxlen = 3 if tier == "quick" else 4
    for ln in range(0, maxlen + 1):
        for tup in itertools.product(A, repeat=ln):
            inputs.append({"family": "lex", "kind": "src", "text": "".join(tup)})
    if tier == "quick":
        for _ in range(6000):
            inputs.append({"family": "lex", "kind": "src", "text": "".join(rnd.choice(A) for _ in range(4))})
    # (b) token-level sequences (nearly valid programs)
    tl = 3 if tier == "quick" else 4
    for ln in range(1, tl + 1):
        for tup in itertools.product(TOKENS, repeat=ln):
            inputs.append({"family": "tok", "kind": "src", "text": " ".join(tup)})
    for _ in range(4000 if tier == "quick" else 40000):
        inputs.append({"family": "tok", "kind": "src", "text": "from t | " + " ".join(rnd.choice(TOKENS) for _ in range(rnd.randint(2, 7)))})
    # (b2) every continuation of `from t |` by up to three tokens of a wider vocabulary (transform names, `*`, this, literals of
    # every kind, brackets, case, ranges, interpolated strings, parameters, keywords)
    T2 = TOKENS2 if tier == "quick" else TOKENS2 + TOKENS3
    for ln in range(1, 4):
        for tup in itertools.product(T2, repeat=ln):
            inputs.append({"family": "tok", "kind": "src", "text": "from t | " + " ".join(tup)})
    # (b3) escape sequences: every string of up to four characters over the escape alphabet after a backslash, in a plain
    # string, an f-string and an s-string
    ESC = ["u", "x", "{", "}", "0", "f", "z", "n", "\\", "1"]
    for ln in range(0, 5 if tier == "quick" else 6):
        for tup in itertools.product(ESC, repeat=ln):
            body = "\\" + "".join(tup)
            inputs.append({"family": "escape", "kind": "src", "text": f"from t | select {{v = \"{body}\"}}"})
            if ln <= 3:
                inputs.append({"family": "escape", "kind": "src", "text": f"from t | select {{v = f\"a{body}\"}}"})
                inputs.append({"family": "escape", "kind": "src", "text": f"from t | select {{v = s\"a{body}\"}}"})
                inputs.append({"family": "escape", "kind": "src", "text": f"from t | select {{v = '{body}'}}"})
    # (b4) \u{..} and \x.. with 0 to 10 hex digits, closed and unclosed, valid and beyond the code-point range
    for nd in (0, 1, 4, 6, 7, 8, 10):
        for digits in ("1234567890"[:nd], "0000000041"[:nd]):
            for close in ("}", ""):
                for q, pre in (('"', ""), ("'", ""), ('"', "f")):
                    inputs.append({"family": "escape", "kind": "src", "text": f"from t | select {{v = {pre}{q}\\u{{{digits}{close}{q}}}"})
            inputs.append({"family": "escape", "kind": "src", "text": f"from t | select {{v = \"\\x{digits}\"}}"})
    # (b4) set operations and whole-row de-duplication around projections: relation x operation x projection x distinct x follower
    rels = ["from t", "from t | select {k, a}", "from t | take 5"]
    setops = ["", "append u", "append (from u | select {k, a})", "remove (from u | select {k, a})", "intersect (from u | select {k, a})", "join u (==k)"]
    projs = ["", "select {k, a}", "select {a}", "select {a, k}", "derive {z = a + 1}", "sort a", "filter a > 1"]
    dists = ["group {k, a} (take 1)", "group {a} (take 1)", "group this (take 1)", "group {k, a} (take 2)"]
    posts = ["", "take 3", "sort k", "aggregate {n = count this}"]
    for r_ in rels:
        for so in setops:
            for pj in projs:
                for ds in dists:
                    for po in posts:
                        inputs.append({"family": "distinct", "kind": "src", "text": " | ".join(x for x in (r_, so, pj, ds, po) if x)})
    # (b5) declarations that refer to themselves or to each other: imports, functions, let-bound relations, types, modules
    names = ["x", "y", "m.x", "std.sum", "t"]
    for n1 in names:
        inputs.append({"family": "decl", "kind": "src", "text": f"import {n1}\nfrom x"})
        inputs.append({"family": "decl", "kind": "src", "text": f"import {n1} as x\nfrom t | aggregate {{s = x a}}"})
        for n2 in names:
            inputs.append({"family": "decl", "kind": "src", "text": f"module a {{ import b.{n1.split('.')[-1]} }}\nmodule b {{ import a.{n2.split('.')[-1]} }}\nfrom a.{n1.split('.')[-1]}"})
            inputs.append({"family": "decl", "kind": "src", "text": f"import {n1} as {n2.split('.')[-1]}\nimport {n2} as {n1.split('.')[-1]}\nfrom t | select {{{n1.split('.')[-1]}}}"})
    for chain in (("m", "a", "b", "a"), ("m", "a", "b", "c", "b"), ("m", "n", "a", "a"), ("a", "b", "c", "a"), ("m", "a", "m"), ("m", "a", "b", "c", "d", "b")):
        mods = []
        for i_ in range(len(chain) - 1):
            if chain[i_] not in [m_[0] for m_ in mods]:
                mods.append((chain[i_], chain[i_ + 1]))
        inputs.append({"family": "decl", "kind": "src", "text": "\n".join(f"module {a_} {{ import {b_}.x }}" for a_, b_ in mods) + f"\nfrom {chain[0]}.x"})
    for body in ("f a", "g a", "(f a) + 1", "a | f", "f (f a)", "case [a > 0 => f (a - 1), true => 0]"):
        inputs.append({"family": "decl", "kind": "src", "text": f"let f = a -> {body}\nlet g = a -> f a\nfrom t | derive {{y = f 1}}"})
    for r1, r2 in (("r", "r"), ("s", "r"), ("t", "r"), ("r | take 1", "r")):
        inputs.append({"family": "decl", "kind": "src", "text": f"let r = (from {r1})\nlet s = (from {r2})\nfrom r | join s (==a)"})
    for src in ("type x = x\nfrom t", "type x = y\ntype y = x\nfrom t", "module m { module m { let t = (from m.t) } }\nfrom m.m.t", "let x = x\nfrom t | select {x}",
                "let x = y\nlet y = x\nfrom t | select {x}", "from t | loop (loop (take 1))", "from t | loop (from t | loop (take 1))", "module std { let sum = 1 }\nfrom t | aggregate {sum a}",
                "let this = 1\nfrom t | select {this.a}", "let default_db = 1\nfrom t", "module default_db { module default_db { let t <[{a = int}]> } }\nfrom t"):
        inputs.append({"family": "decl", "kind": "src", "text": src.replace("\\n", "\n")})
    # (b6) relation literals: every row of up to two fields over named / unnamed / null / nested / non-literal fields, one or two rows
    # (of equal or different shape), as the source, joined and appended (the lowering took the column names of a literal
    # without looking: F121, repaired)
    LF = ["a = 1", "1", "b = null", "'x'", "a = 2", "c = a", "{1}", "x = [1]", "1..2", "-1", "a = 1 + 1", "`a b` = 1", "k = @2020-01-01"]
    lrows = ["{}"] + ["{" + f + "}" for f in LF] + ["{" + f + ", " + g_ + "}" for f in LF for g_ in LF]
    lits = ["[]"] + ["[" + r_ + "]" for r_ in lrows] + ["[" + r1 + ", " + r2 + "]" for r1 in lrows[:16] for r2 in lrows[:16]]
    for lt in lits:
        inputs.append({"family": "literal", "kind": "src", "text": f"from {lt}"})
    for lt in lits[:60] + lits[-256::5]:
        inputs.append({"family": "literal", "kind": "src", "text": f"from t | join ({'from ' + lt}) (==a)"})
        inputs.append({"family": "literal", "kind": "src", "text": f"from t | select {{a}} | append (from {lt})"})
        inputs.append({"family": "literal", "kind": "src", "text": f"from {lt} | select {{a}} | sort a | take 1"})
    # (c) programs of the L1 machine incl. every scope-breaking edit, and random programs outside the safe profile
    m = model([from_("t")], l1props.alph_c10(), 3 if tier == "quick" else 4)
    progs, info = l1.mc_generate("C12-mc", m, dbset, workers=8)
    g = gen.G(seed(), safe=False, p_shadow=0.15, append_bare=0.3)
    progs += [g.program(i) for i in range(1500 if tier == "quick" else 20000)]
    for i, p in enumerate(progs):
        p["id"] = f"g{i}"; p["decl"] = (i % 2 == 0)
    write_ndjson(os.path.join(d, "progs.ndjson"), progs)
    pv(["render-ndjson", dbset, os.path.join(d, "progs.ndjson"), os.path.join(d, "gsrc.ndjson")])
    for s in read_ndjson(os.path.join(d, "gsrc.ndjson")):
        inputs.append({"family": "l1", "kind": "src", "text": s["src"]})
    # (c2) boundary families: multi-byte characters at every byte offset of s-/f-strings, identifiers and
    # comments; numbers around 2^31 / 2^63 / 2^64 in every place a number may stand
    MB = ["é", "\u00a0", "日", "😀"]
    for k in range(0, 10):
        for ch in MB:
            pre = "SELECT * FROM"[:k] if k <= 6 else "SELECT" + " " * (k - 6)
            inputs.append({"family": "boundary", "kind": "src", "text": f"from s\"{pre}{ch}* FROM employees\" | select {{a}}"})
            inputs.append({"family": "boundary", "kind": "src", "text": f"from t | derive {{x = s\"{'x' * k}{ch}({{a}})\", y = f\"{'y' * k}{ch}{{a}}\"}}"})
            inputs.append({"family": "boundary", "kind": "src", "text": f"from t | select {{`{'c' * k}{ch}` = a}} | filter `{'c' * k}{ch}` > 1"})
            inputs.append({"family": "boundary", "kind": "src", "text": f"from (read_csv \"{'p' * k}{ch}.csv\") | take 1"})
    BIG = ["0", "1", "2147483647", "2147483648", "4294967296", "9223372036854775807", "9223372036854775808", "18446744073709551615",
           "18446744073709551616", "99999999999999999999999", "-1", "-9223372036854775808", "-9223372036854775809", "1.5", "1e400", "-0"]
    for nmb in BIG:
        for tmpl in ["from t | take {n}", "from t | take 1..{n}", "from t | take {n}..", "from t | sort k | derive {{x = lag {n} a}}",
                     "from t | window rows:-{n}..{n} (sort k | derive {{x = sum a}})", "from t | window rolling:{n} (sort k | derive {{x = sum a}})",
                     "from t | derive {{x = {n}days, y = a + {n}, z = {n} ** 2}}", "from t | filter (a | in {n}..{n})",
                     "from_text format:json '[{{\"id\": {n}, \"n\": 1}}, {{\"id\": 7, \"n\": 2}}]'",
                     "from_text format:json '{{\"columns\": [\"id\"], \"data\": [[{n}]]}}'",
                     "from_text format:csv \"\"\"id,n\n{n},1\n\"\"\"", "from [{{id = {n}}}] | derive {{y = id + 1}}",
                     "from t | derive {{x = (a | math.round {n}), y = (text.extract {n} {n} \"abc\")}}", "from t | loop (take {n})"]:
            inputs.append({"family": "boundary", "kind": "src", "text": tmpl.replace("{n}", nmb).replace("{{", "{").replace("}}", "}")})
    for js in ["[]", "{}", "[{}]", "[[1]]", "[{\"a\": [1, 2]}]", "[{\"a\": {\"b\": 1}}]", "[{\"a\": null}, {\"b\": true}]", "{\"columns\": [], \"data\": []}",
               "{\"columns\": [\"a\"], \"data\": [[1, 2]]}", "{\"columns\": [\"a\", \"a\"], \"data\": [[1, 2]]}", "[{\"a\": 1}, {\"a\": \"x\"}]", "not json", "[{\"a\": 1.5e308}, {\"a\": -1.5e308}]"]:
        inputs.append({"family": "boundary", "kind": "src", "text": f"from_text format:json '{js}'"})
    # corpus
    corp = list(corpus.SYNTAX) + list(c16.HAND) + [s for _, s in corpus.repo_queries()] + [s for _, _, s in corpus.book_snippets()]
    for s in corp:
        inputs.append({"family": "corpus", "kind": "src", "text": s})
    # (d) single-invariant corruptions of RQ / PL documents
    srcs = [{"id": f"c{i}", "src": s} for i, s in enumerate(list(c16.HAND) + [s for _, s in corpus.repo_queries()][:20] + corpus.SYNTAX[:30])]
    write_ndjson(os.path.join(d, "rqsrc.ndjson"), srcs)
    pv(["rqjson", os.path.join(d, "rqsrc.ndjson"), os.path.join(d, "rq.ndjson")])
    ncorrupt = 0
    for r in read_ndjson(os.path.join(d, "rq.ndjson")):
        if r["rq"] is None:
            continue
        for kind, doc in rq_corruptions(r["rq"], rnd):
            inputs.append({"family": "rq-corrupt:" + kind, "kind": "rqjson", "text": json.dumps(doc)}); ncorrupt += 1
    pv(["pljson", os.path.join(d, "rqsrc.ndjson"), os.path.join(d, "pl.ndjson")])
    for r in read_ndjson(os.path.join(d, "pl.ndjson")):
        if r["pl"] is None:
            continue
        txt = json.dumps(r["pl"])
        for kind, rep_ in (("retag", ("\"FuncCall\"", "\"Tuple\"")), ("drop-args", ("\"args\":", "\"argz\":")), ("ident-type", ("\"Ident\":[", "\"Ident\":[1,")),
                           ("literal-type", ("{\"Integer\":", "{\"String\":"))):
            if rep_[0] in txt:
                inputs.append({"family": "pl-corrupt:" + kind, "kind": "pljson", "text": txt.replace(rep_[0], rep_[1], 1)}); ncorrupt += 1
    for i, x in enumerate(inputs):
        x["id"] = f"{x['family'].split(':')[0]}{i}"; x.setdefault("n", 0)
    dialects_all = "ansi,bigquery,clickhouse,duckdb,generic,glaredb,mssql,mysql,postgres,redshift,sqlite,snowflake"
    dialects_q = "generic,sqlite,postgres,mssql,bigquery,clickhouse"
    # shards by family so that corpus / corruptions see all 12 dialects
    shards = []
    per = 4000
    by_dial = {"corpus": dialects_all, "rq-corrupt": dialects_all}
    keyf = lambda x: by_dial.get(x["family"].split(":")[0], dialects_q if tier == "quick" else dialects_all)
    groups = {}
    for x in inputs:
        groups.setdefault(keyf(x), []).append(x)
    for dl, xs in groups.items():
        for i in range(0, len(xs), per):
            shards.append((f"s{len(shards)}", xs[i:i + per], dl))
    with ThreadPoolExecutor(max_workers=10) as ex:
        results = list(ex.map(lambda a: run_shard(d, a[0], a[1], a[2]), shards))
    events = [e for r in results for e in r]
    # (e) growth families, each size in its own child (stack exhaustion kills the child, not the check)
    gin = growth_inputs(9 if tier == "quick" else 12)
    def one(x):
        evs = run_shard(d, "g-" + x["id"].replace("/", "-"), [x], "generic,sqlite", timeout=60)
        out = []
        for e in evs:
            if e["event"] == "Input":
                out.append(e)
                out.append({"event": "Growth", "id": x["id"], "family": x["family"], "n": x["n"], "us": e["us"]})
            else:
                out.append(e)
        return out
    with ThreadPoolExecutor(max_workers=8) as ex:
        gres = list(ex.map(one, gin))
    # growth events must be ordered by family and size
    gevents = [e for r in gres for e in r]
    order = {x["id"]: i for i, x in enumerate(gin)}
    gevents.sort(key=lambda e: (order.get(e["id"], 0), 0 if e["event"] != "Growth" else 1))
    # a family is only followed up to the first size that died
    events += gevents
    byid = {x["id"]: x for x in inputs + gin}
    msg_of = {}
    # normalise event shapes for TLC
    norm = []
    for e in events:
        if e["event"] == "Input":
            for rr in e["results"]:
                if rr.get("outcome") == "panic":
                    msg_of[(e["id"], rr["stage"])] = rr.get("msg", "")
            norm.append({"event": "Input", "id": e["id"], "family": e.get("family") or "", "results": e["results"], "us": e["us"], "how": "", "n": 0})
        elif e["event"] == "Died":
            norm.append({"event": "Died", "id": e["id"], "family": e.get("family") or "", "results": [], "us": 0, "how": e["how"], "n": 0})
        else:
            norm.append({"event": "Growth", "id": e["id"], "family": e["family"], "results": [], "us": e["us"], "how": "", "n": e["n"]})
    tshards = [norm[i:i + 30000] for i in range(0, len(norm), 30000)]
    # keep growth families within one shard: they are at the end, in order
    def validate(i):
        p = os.path.join(d, f"trace{i}.ndjson"); write_ndjson(p, tshards[i] + [{"event": "End"}])
        return p, tlc("TotalityTrace", "TotalityTrace.cfg", env={"TRACE": p}, workers=1, deque=True, xmx="8g")
    with ThreadPoolExecutor(max_workers=6) as ex:
        vres = list(ex.map(validate, range(len(tshards))))
    nvalid = 0; tstates = 0
    panics_by_site = {}
    for p, (tout, tinfo) in vres:
        tr = tuples(tout, "TRACE")
        if not tinfo["no_error"] or not tr or tr[0][1] != tr[0][2]:
            open(p + ".tlc.out", "w").write(tout)
            raise ToolError("TotalityTrace did not consume the trace: " + tinfo.get("error_text", tout[-1200:])[:1500])
        tstates += tinfo.get("distinct", 0)
        c = tuples(tout, "COUNTS"); nvalid += c[-1][1] if c else 0
        for r in tuples(tout, "REJECT"):
            x = byid.get(r[1], {})
            fam = x.get("family", "")
            sig = {"what": "panic" if r[2] not in ("growth", "crashed", "timed-out") else r[2], "stage": r[2], "site": r[3], "panic_site": r[3], "family": fam.split(":")[0],
                   "family_detail": fam, "msg": msg_of.get((r[1], r[2]), ""), "src": x.get("text", "")[:2000], "non_ascii": any(ord(ch) > 127 for ch in x.get("text", ""))}
            panics_by_site[(r[2], r[3], fam)] = panics_by_site.get((r[2], r[3], fam), 0) + 1
            rep.violation({"property": "C12", "kind": sig["what"], "stage": r[2], "panic_site": r[3], "family": fam, "input_kind": x.get("kind"),
                           "input": x.get("text", "")[:4000], "panic_message": msg_of.get((r[1], r[2]), "")}, sig)
    fams = {}
    for x in inputs + gin:
        fams[x["family"].split(":")[0]] = fams.get(x["family"].split(":")[0], 0) + 1
    distinct = len(set((x["kind"], x["text"]) for x in inputs + gin))
    cov = {"evaluations": len(inputs) + len(gin), "distinct_nontrivial": distinct,
           "rule": "bounded-exhaustive strings over the lexical alphabet and token sequences over a 24-token alphabet; every program of the bounded L1 model incl. scope-breaking edits and seeded random programs (declared and open schemas); corpus; every corpus RQ / PL document with ONE invariant broken; growth families nest/chain of size 2^k each in its own process. distinct = distinct (kind, text) pairs; all are non-trivial in the sense that each is a different input to every entry point",
           "samples": [inputs[50]["text"], inputs[len(inputs) // 2]["text"][:300], gin[3]["text"][:200]],
           "families": fams, "corruptions": ncorrupt, "trace_events_validated": nvalid, "tlc_states": tstates,
           "entry_points": ["prql_to_tokens", "prql_to_pl", "pl_to_prql", "json::from_pl/to_pl", "pl_to_rq", "json::from_rq/to_rq", "rq_to_sql x dialects", "compile"],
           "panic_sites_seen": [{"stage": k[0], "site": k[1], "family": k[2], "count": v} for k, v in sorted(panics_by_site.items())][:60]}
    return rep.finish("exploration", cov, ["a panic is caught by catch_unwind in the harness; stack exhaustion, abort and time-outs are detected by running inputs in child processes",
                                           "polynomial time stands for: per doubling of the input size the time grows at most 10x once above 20 ms"])
