SPECIFICATION Spec
INVARIANT BaseOk
INVARIANT Preserved
INVARIANT Emit
CHECK_DEADLOCK FALSE
