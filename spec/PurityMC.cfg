SPECIFICATION Spec
CONSTANTS NC = 2
 NI = 2
 Repaired = TRUE
INVARIANT NoPanic
INVARIANT Pure
INVARIANT CounterSane
INVARIANT OnceOnly
CHECK_DEADLOCK FALSE
