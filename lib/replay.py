"""bin/check <id> --replay <file>: re-run the program of a replay file through the same path and
print the verdict of the specification."""
import json, os, sys
from vlib import *
import l1

def scope_replay(pid, path, v):
    """C07 / C05 dialect frames: recompile the program for the dialect and re-run the scope monitor"""
    import scoperun
    d = workdir("replay-scope")
    TU = {"t": ["k", "a", "b"], "u": ["k", "a", "c"]}
    src = {"id": "replay", "src": v["prql"]}
    if re.search(r"\bfrom (t|u)\b", v["prql"]) or "let t <" in v["prql"]:
        src["schema"] = TU
    expect = None
    if v.get("kind") == "dialect-frame":
        src["id"] = "replay" + ("o" if str(v.get("program", {}).get("id", "")).endswith("o") else "")
        expect = {src["id"]: v["expected_frame"]}
    sr = scoperun.run(d, [src], dialects=v.get("dialect", "all"), expect=expect, nsh=1)
    want = "frame" if v.get("kind") == "dialect-frame" else None
    rj = [r for r in sr["rejects"] if (want is None) == (r["verdict"] != "frame")]
    for r in rj:
        print("rejected:", r["dialect"], r["verdict"], r["detail"]); print("  SQL:", r["rec"].get("sql"))
    if rj:
        print(f"VIOLATION property={pid} replay={path}"); return 1
    print("accepted"); return 0

def purity_replay(pid, path, v):
    """C11: the input again, from several fresh processes and threads; every API must give one artefact"""
    d = workdir("replay-purity")
    ip = os.path.join(d, "in.json"); json.dump([{"id": "replay", "src": v["prql"], "dialect": None}], open(ip, "w"))
    outs = {}
    for k in range(8):
        op = os.path.join(d, f"o{k}.ndjson")
        pv(["purity", ip, op, "4" if k == 0 else "1", "2", "1" if k == 0 else "0", "replay"])
        for e in read_ndjson(op):
            if e.get("event") == "Result":
                outs.setdefault(e["input"], set()).add(e.get("text", ""))
    bad = {k: sorted(x) for k, x in outs.items() if len(x) > 1}
    for k, x in bad.items():
        print("differs:", k); [print("   ", t[:300]) for t in x]
    if bad:
        print(f"VIOLATION property={pid} replay={path}"); return 1
    print("one artefact per API over 8 processes"); return 0

def _verdict(pid, path, out, info):
    tr = tuples(out, "TRACE")
    if not info["no_error"] or not tr or tr[0][1] != tr[0][2]:
        print("the trace validator did not consume the trace:", info.get("error_text", "")[:500]); return 2
    rj = tuples(out, "REJECT")
    for r in rj:
        print("rejected:", r[1:6])
    if rj:
        print(f"VIOLATION property={pid} replay={path}"); return 1
    print("accepted"); return 0

def source_replay(pid, path, v):
    """the failing input of a source-based check once more through the same recorder and the same trace specification"""
    import subprocess
    d = workdir("replay-" + pid)
    if pid == "C14":
        sp = os.path.join(d, "src.ndjson"); write_ndjson(sp, [{"id": "replay", "src": v["prql"]}])
        ev = os.path.join(d, "ev.ndjson"); pv(["fmtrun", sp, ev])
        return _verdict(pid, path, *tlc("FmtTrace", "FmtTrace.cfg", env={"TRACE": ev}, workers=1, deque=True))
    if pid == "C16":
        import rqwalk
        sp = os.path.join(d, "src.ndjson"); write_ndjson(sp, [{"id": "replay", "src": v["prql"]}])
        rp = os.path.join(d, "rq.ndjson"); pv(["rqjson", sp, rp])
        r = read_ndjson(rp)[0]
        if r["rq"] is None:
            print("the resolver rejects the program: nothing to judge"); return 0
        blank = {"ev": "", "id": "", "tid": -1, "kind": "", "ncols": 0, "defs": [], "uses": [], "compute": [], "agg": False}
        evs = [dict(blank, ev="Reset", id="replay")] + [dict(blank, **e) for e in rqwalk.walk(r["rq"])] + [dict(blank, ev="End")]
        tp = os.path.join(d, "walk.ndjson"); write_ndjson(tp, evs)
        return _verdict(pid, path, *tlc("RqTrace", "RqTrace.cfg", env={"TRACE": tp}, workers=1, deque=True))
    if pid == "C17":
        sp = os.path.join(d, "strs.json"); json.dump([v["source"]], open(sp, "w"))
        out = os.path.join(d, "list.ndjson")
        r = subprocess.run([build_harness(), "lexlist", sp, out], stdout=subprocess.PIPE, stderr=subprocess.PIPE, text=True)
        if r.returncode != 0:
            print(r.stderr[-500:]); return 2
        return _verdict(pid, path, *tlc("LexerTrace", "LexerTrace.cfg", env={"TRACE": out}, workers=1, deque=True))
    if pid == "C18":
        write_ndjson(os.path.join(d, "cells.ndjson"), [{"opt": v["option"], "hdr": v["header"]}])
        json.dump([v["program"]], open(os.path.join(d, "progs.json"), "w"))
        ev = os.path.join(d, "ev.ndjson"); pv(["target", os.path.join(d, "cells.ndjson"), os.path.join(d, "progs.json"), ev])
        return _verdict(pid, path, *tlc("TargetTrace", "TargetTrace.cfg", env={"TRACE": ev}, workers=1, deque=True))
    if pid == "C12":
        import c12
        x = {"id": "replay", "family": v.get("family", "replay").split(":")[0], "n": 0, "kind": v.get("input_kind") or "src", "text": v["input"]}
        evs = c12.run_shard(d, "replay", [x], "generic,sqlite,postgres,mssql", timeout=120)
        norm = []
        for e in evs:
            if e["event"] == "Input":
                norm.append({"event": "Input", "id": e["id"], "family": e.get("family") or "", "results": e["results"], "us": e["us"], "how": "", "n": 0})
            elif e["event"] == "Died":
                norm.append({"event": "Died", "id": e["id"], "family": e.get("family") or "", "results": [], "us": 0, "how": e["how"], "n": 0})
        norm.append({"event": "End", "id": "", "family": "", "results": [], "us": 0, "how": "", "n": 0})
        tp = os.path.join(d, "tot.ndjson"); write_ndjson(tp, norm)
        return _verdict(pid, path, *tlc("TotalityTrace", "TotalityTrace.cfg", env={"TRACE": tp}, workers=1, deque=True))
    return None

def main(pid, path):
    import re as _re
    globals()["re"] = _re
    v = json.load(open(path))
    if pid == "C07" or v.get("kind") == "dialect-frame":
        return scope_replay(pid, path, v)
    if pid == "C11" and v.get("prql") and not v["prql"].startswith("[["):
        return purity_replay(pid, path, v)
    if "program" not in v or pid == "C18":
        sys.path.insert(0, os.path.join(ROOT, "checks"))
        try:
            rc = source_replay(pid, path, v) if pid in ("C12", "C14", "C16", "C17", "C18") and (v.get("prql") or v.get("source") or v.get("input") or pid == "C18") else None
        except ToolError as e:
            print("tool error:", e); return 2
        if rc is not None:
            return rc
        print(json.dumps(v, indent=1)[:3000])
        print("this replay file names the failing input (fields above); re-run `bin/check %s quick` to have it judged again in context" % pid); return 2
    dbset = os.path.join(ROOT, v.get("dbset", "corpus/dbs_quick.json"))
    progs = [v["program"]]
    if v.get("reduced"):
        r = dict(v["reduced"]["program"]); r["id"] = "reduced"; progs.append(r)
    res = l1.run_and_validate("replay", progs, dbset, target=v.get("target", "sqlite"))
    for p in progs:
        s = res["side"].get(p["id"], {})
        print("----", p["id"]); print(s.get("src")); print("SQL:", s.get("sql")); print("names:", s.get("names"), "error:", s.get("exec_error") or s.get("error") or s.get("panic"))
    rej = [(a, b) for a, b, _ in res["rejects"]]
    print("rejected by PrqlTrace:", rej)
    if rej:
        print(f"VIOLATION property={pid} replay={path}")
        return 1
    print("accepted"); return 0
