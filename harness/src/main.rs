fn main() {
    let o = prqlc::Options::default().no_format().no_signature();
    println!("{:?}", prqlc::compile("from t | select a", &o));
}
