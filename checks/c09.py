"""C09: identifiers are referenced verbatim; generated names never capture user names.
(a) clash part: the L1 machine over user tables/columns named like generated ones (checks/l1props.py, config C09)
(b) identifier part: spec/Ident.tla + IdentMC + IdentTrace."""
import sys, os, json, random
sys.path.insert(0, os.path.join(os.path.dirname(os.path.abspath(__file__)), "..", "lib"))
from vlib import *
import l1props

PRQL_WORDS = ["let", "into", "case", "prql", "type", "module", "internal", "func", "import", "enum", "date", "count", "min", "average", "this", "that"]
MUST = ["select", "from", "where", "group", "order", "by", "table", "user", "current_date", "current_time", "current_timestamp", "current_user",
        "session_user", "null", "true", "false", "case", "when", "then", "else", "end", "and", "or", "not", "in", "is", "as", "on", "join", "left",
        "right", "union", "all", "distinct", "limit", "offset", "having", "with", "create", "insert", "update", "delete", "values", "into"]

def ident_part(rep, tier, coverage):
    d = workdir("C09-ident")
    chars = [ord(c) for c in "aA1_ \"$.é-"]
    words = []
    for w in MUST + PRQL_WORDS + ["table_0", "_expr_0", "a'b", "a;b", "a--b", "a/*b", "a\\b", "a\\", "\\", "a\\\"b", "a%b", "a[b]", "tab\tname", "日本", "UPPER_CASE", "mixed_Case9", "x y z"]:
        for v in {w, w.upper(), w.capitalize()} if w.isalpha() and w in MUST[:12] else {w}:
            words.append({"s": v, "cps": [ord(c) for c in v], "lower": v.lower()})
    cfg = {"chars": chars, "maxlen": 2 if tier == "quick" else 3, "words": words}
    cp = os.path.join(d, "cfg.json"); json.dump(cfg, open(cp, "w"))
    out, info = tlc("IdentMC", "IdentMC.cfg", env={"IDENTCFG": cp}, workers=4)
    if not info["no_error"]:
        raise ToolError("IdentMC: " + info.get("error_text", "")[:1500])
    names = []
    for r in replay_lines(out):
        s = "".join(chr(c) for c in r["cps"])
        if s.strip() == "" or s != s.strip():
            continue            # names with leading / trailing blanks cannot be created portably
        names.append({"s": s, "cps": r["cps"], "lower": s.lower()})
    write_ndjson(os.path.join(d, "names.ndjson"), names)
    ev = os.path.join(d, "ev.ndjson")
    pv(["ident", os.path.join(d, "names.ndjson"), ev])
    tout, tinfo = tlc("IdentTrace", "IdentTrace.cfg", env={"TRACE": ev}, workers=1, deque=True, xmx="6g")
    tr = tuples(tout, "TRACE")
    if not tinfo["no_error"] or not tr or tr[0][1] != tr[0][2]:
        raise ToolError("IdentTrace did not consume the trace: " + tinfo.get("error_text", tout[-1200:])[:1500])
    evs = {e["id"]: e for e in read_ndjson(ev) if e.get("event") == "Ident"}
    for r in tuples(tout, "REJECT"):
        e = evs[r[1]]
        bad = json.loads(r[2]); bad = list(bad.values()) if isinstance(bad, dict) else bad
        name = e["name"]["s"]
        for dl in bad + (["sqlite-engine"] if r[3] else []):
            rep.violation({"property": "C09", "kind": "ident", "name": name, "position": e["pos"], "prql": e["src"], "dialect": dl,
                           "sql": [x["sql"] for x in e["dialects"] if x["d"] == dl.replace("sqlite-engine", "sqlite")][:1], "sqlite": e["sqlite"]},
                          {"what": "ident", "dialect": dl, "name": name, "pos": e["pos"], "src": e["src"]})
    for r in tuples(tout, "FMT"):
        e = evs[r[1]]
        dd = next((x for x in e["dialects"] if x["d"] == r[3]), {})
        rep.violation({"property": "C09", "kind": "ident-format-" + r[2], "name": e["name"]["s"], "position": e["pos"], "prql": e["src"], "dialect": r[3],
                       "sql": dd.get("sql"), "formatted_sql": dd.get("fmt_sql")},
                      {"what": "ident-format", "fault": r[2], "dialect": r[3], "name": e["name"]["s"], "pos": e["pos"], "src": e["src"], "sql": dd.get("sql") or ""})
    # binding demonstration: change the token value / the quoting flag of one event
    bad = [dict(e) for e in list(evs.values())[:30]]
    k = 0
    for e in bad:
        if e["name"]["s"] == "a":
            e["dialects"] = [dict(x) for x in e["dialects"]]
            e["dialects"][2] = dict(e["dialects"][2], tok=dict(e["dialects"][2]["tok"], value="b")); k += 1; break
    write_ndjson(os.path.join(d, "bad.ndjson"), bad + [{"event": "End"}])
    bout, _ = tlc("IdentTrace", "IdentTrace.cfg", env={"TRACE": os.path.join(d, "bad.ndjson")}, workers=1, deque=True)
    write_ndjson(os.path.join(d, "good.ndjson"), list(evs.values())[:30] + [{"event": "End"}])
    gout, _ = tlc("IdentTrace", "IdentTrace.cfg", env={"TRACE": os.path.join(d, "good.ndjson")}, workers=1, deque=True)
    if k != 1 or len(tuples(bout, "REJECT")) != len(tuples(gout, "REJECT")) + 1:
        raise ToolError("C09 selftest: corrupted identifier token not rejected")
    c = tuples(tout, "COUNTS")
    return {"states": coverage["states"] + info["distinct"] + tinfo.get("distinct", 0),
            "transitions": coverage["transitions"] + info["generated"] + tinfo.get("distinct", 0),
            "traces_validated_against_impl": coverage["traces_validated_against_impl"] + (c[-1][1] if c else 0),
            "identifier_names": len(names), "identifier_uses": c[-1][1] if c else 0,
            "explanation": coverage["explanation"] + f"; identifier part: IdentMC enumerated {len(names)} names (all of <= {cfg['maxlen']} characters over {len(chars)} characters incl. upper case, blank, quote, $, dot, non-ASCII; reserved words and niladic functions in three spellings), each used as column, table and alias, compiled for 12 dialects: the identifier token must carry the name verbatim and be quoted where the specification requires, and SQLite must bind to the object of exactly that name (marker value)"}

def capture_part(rep, tier):
    """declarations named like a table of the query (in a module, so that both names stay reachable) or like a generated
    name: the program must return what the same program returns with the declaration inlined - the table of the database
    keeps its name, the declaration gets another (spec/RewriteLaw.tla on observed results, SQLite)"""
    d = workdir("C09-capture")
    pairs = [
        ("from t | join (from u | take 3) (==k) | select {t.k, t.a, u.c}",
         ["module m {\n  let t = (from u | take 3)\n}\nfrom t | join u = m.t (==k) | select {t.k, t.a, u.c}",
          "module m {\n  let t = (from u | take 3)\n}\nfrom x = m.t | join t (==k) | select {t.k, t.a, x.c}",
          "module m {\n  let u = (from u | take 3)\n}\nfrom t | join u = m.u (==k) | select {t.k, t.a, u.c}"]),
        ("from u | join (from t | filter a > 0 | select {k, a}) (==k) | select {u.k, u.c, t.a}",
         ["module m {\n  let u = (from t | filter a > 0 | select {k, a})\n}\nfrom u | join t = m.u (==k) | select {u.k, u.c, t.a}"]),
        ("from t | take 2 | join (from u | take 3) (==k) | select {t.k, u.c}",
         ["let table_0 = (from u | take 3)\nfrom t | take 2 | join u = table_0 (==k) | select {t.k, u.c}",
          "module m {\n  let t = (from u | take 3)\n}\nfrom t | take 2 | join u = m.t (==k) | select {t.k, u.c}"]),
    ]
    srcs = []
    for i, (b_, vs) in enumerate(pairs):
        srcs.append({"id": f"cp{i}", "src": b_})
        for j, v_ in enumerate(vs):
            srcs.append({"id": f"cp{i}-v{j}", "base": f"cp{i}", "src": v_})
    srcs.append({"id": "self-base", "src": "from t | select {k, a}"})
    srcs.append({"id": "self-rows", "base": "self-base", "src": "from u | select {k, a}"})
    ip = os.path.join(d, "cap.src.ndjson"); op = os.path.join(d, "cap.res.ndjson"); write_ndjson(ip, srcs)
    pv(["runsrc", os.path.join(ROOT, "corpus", "dbs_quick.json"), ip, op])
    out, info = tlc("RewriteLaw", "RewriteLaw.cfg", env={"TRACE": op}, workers=1, deque=True)
    tr = tuples(out, "TRACE")
    if not info["no_error"] or not tr or tr[0][1] != tr[0][2]:
        raise ToolError("RewriteLaw did not consume the trace: " + info.get("error_text", out[-1200:])[:1500])
    res = {r["id"]: r for r in read_ndjson(op) if r.get("ev") == "Result"}
    src_of = {s_["id"]: s_["src"] for s_ in srcs}
    nrej, selfok = 0, False
    for t in tuples(out, "REJECT"):
        vid, bid, verdict = t[1], t[2], t[3]
        if vid == "self-rows":
            selfok = True
            continue
        nrej += 1
        rep.violation({"property": "C09", "kind": "capture-" + verdict, "base": src_of[bid], "variant": src_of[vid], "base_sql": res[bid].get("sql"), "variant_sql": res[vid].get("sql"),
                       "variant_detail": res[vid].get("detail")},
                      {"what": "capture-" + verdict, "src": src_of[vid], "base_src": src_of[bid], "sql": res[vid].get("sql") or "", "detail": res[vid].get("detail") or ""})
    if not selfok:
        raise ToolError("C09 capture family selftest: a variant reading another table was not rejected")
    ran = sum(1 for r in res.values() if r["outcome"] == "rows")
    return {"bases": len(pairs), "variants": len(srcs) - len(pairs) - 2, "executed": ran, "rejections": nrej}

def let_clash_part(rep, tier, coverage):
    """user tables named table_0 / table_1 together with let-bound sub-pipelines, nested pipelines and relation literals:
    anonymous declarations are numbered before the tables of the query and must not take their names (F88)"""
    from progs import from_, fromlit, join, eqcol, take, filter_, bin_, col, lit, select, item, append, sort, derive
    import l1check
    k = col("k")
    def let(name, steps):
        return {"kind": "let", "name": name, "short": name, "steps": steps, "params": [], "named": [], "body": {"t": "lit"}, "surface": "let", "module": ""}
    L1 = fromlit(["k"], [[1], [2], [2]])
    L3 = fromlit(["k", "_expr_0", "_expr_1"], [[1, 5, 6], [3, None, 0]])
    # (the let-bound relation exposes each name once: a second `k` would make `==k` ambiguous)
    inner = [
        [from_("table_1"), take(1, 2), join("inner", [L1], eqcol("k"), alias="l"), select(item(col("k", "table_1")), item("_expr_0"))],
        [from_("table_1"), select(item("k")), append([L1])],
        [L1, join("left", [from_("table_1"), take(1, 2)], eqcol("k")), select(item(col("k", "table_1")), item("_expr_2"))],
        [from_("table_1"), join("inner", [from_("table_0"), take(1, 2)], eqcol("k"), alias="z"), select(item(col("k", "z")), item(col("_expr_0", "table_1")), item("_expr_1"))],
        [L3, filter_(bin_(">", k, lit(0)))],
    ]
    outer = [
        lambda: [from_("table_0"), join("inner", [from_("foo")], eqcol("k"))],
        lambda: [from_("table_0"), take(1, 2), join("left", [from_("foo")], eqcol("k"))],
        lambda: [from_("foo"), join("inner", [from_("table_0")], eqcol("k"))],
        lambda: [from_("table_0"), select(item("k")), append([from_("foo"), select(item("k"))]), sort(("asc", "k"))],
        lambda: [from_("table_0"), join("inner", [from_("foo")], eqcol("k")), join("left", [from_("table_1")], bin_("==", col("k", "table_0"), col("k", "table_1")))],
    ]
    progs = []
    for i, inn in enumerate(inner):
        for j, mk in enumerate(outer):
            progs.append({"id": f"lc{i}_{j}", "decl": True, "decls": [let("foo", inn)], "steps": mk()})
            progs.append({"id": f"lc{i}_{j}b", "decl": True, "decls": [let("bar", [from_("table_1"), take(2, 3, True)]), let("foo", inn)], "steps": mk()})
    def fix(st):
        st.setdefault("at", [])
        for key in ("with", "pipe"):
            for x in st.get(key, []) or []:
                fix(x)
    for p in progs:
        for st in p["steps"] + [x for d_ in p["decls"] for x in d_["steps"]]:
            fix(st)
    dbset = os.path.join(ROOT, "corpus", "dbs_clash.json")
    res = l1check.run(rep, "C09-let", progs, dbset, l1props.CONFIG["C09"]["relevant"])
    # self-joins and repeated joins of tables / aliases named like generated relation names: every instance needs an alias
    # of its own, and a generated alias must not land on a name the user chose (judged by the scope monitor SqlScope.tla)
    import scoperun
    shapes = [
        "from table_0 | join table_0 (this.boss == that.id)",
        "from table_1 | join table_1 (this.boss == that.id) | join table_1 (this.table_1.boss == that.id)",
        "from table_1 | sort name | take 5 | join table_1 (this.boss == that.id) | join table_1 (this.boss == that.id)",
        "from table_0 | take 3 | join table_0 (this.boss == that.id) | take 2 | join table_1 (this.boss == that.id) | join table_1 (this.table_0.boss == that.id)",
        "from table_0 = employees | join employees (this.boss == that.id) | join employees (this.table_0.boss == that.id)",
        "from table_1 = employees | take 4 | join employees (this.boss == that.id) | join table_0 (this.table_1.boss == that.id) | join employees (this.table_1.id == that.boss)",
        "from employees | join table_0 = (from employees | take 2) (this.id == that.boss) | join (from employees | take 3) (this.employees.boss == that.id)",
        "from employees | join (from employees | take 2) (this.id == that.boss) | join table_0 = (from employees | take 3) (this.employees.boss == that.id) | join table_1 (this.employees.id == that.id)",
        "from table_2 | take 1 | join table_2 (this.boss == that.id) | take 2 | join table_2 (this.id == that.boss) | take 3 | join table_2 (this.boss == that.boss)",
    ]
    srcs = [{"id": f"sj{i}", "src": sh} for i, sh in enumerate(shapes)]
    sr = scoperun.run(workdir("C09-scope"), srcs, dialects="sqlite,postgres,mssql,bigquery", nsh=2)
    for rj in sr["rejects"]:
        src = next(x["src"] for x in srcs if x["id"] == rj["id"])
        rep.violation({"property": "C09", "kind": "alias-" + rj["verdict"], "dialect": rj["dialect"], "prql": src, "sql": rj["rec"].get("sql"), "event": rj["detail"],
                       "prepare": rj["rec"].get("prepare")},
                      {"what": "alias-" + rj["verdict"], "dialect": rj["dialect"], "src": src, "sql": rj["rec"].get("sql") or "", "detail": rj["detail"]})
    out = ident_part(rep, tier, coverage)
    out["name_capture_family"] = capture_part(rep, tier)
    out["alias_family"] = {"sources": len(srcs), "statements_judged": sr["judged"], "rejections": len(sr["rejects"])}
    out["let_clash_family"] = {"programs": len(progs), "accepted": res["accepted"], "rejected": res["rejected"], "not_judged": res["skipped"]}
    return out

def check(tier):
    return l1props.check("C09", tier, extra=let_clash_part)
