----------------------------- MODULE RewriteLaw -----------------------------
(* C06 for programs the language machine has no meaning for (open schemas,   *)
(* stars in select lists): the law itself, on observed results.  A program   *)
(* and the program a PRQL-defined refactoring makes of it (a prefix named by *)
(* let / into, an identity step inserted, a filter split) must return the    *)
(* same relation on every database instance: the same columns (up to their   *)
(* order when the names are distinct, as in RewriteMC's Preserved) and the   *)
(* same bag of rows.  Events: Result(id, base, outcome, names, rows); the    *)
(* result of a base precedes those of its variants.                          *)
EXTENDS Integers, Sequences, FiniteSets, TLC, Json, IOUtils

Rec == ndJsonDeserialize(IOEnv.TRACE)
VARIABLES l, known, nbase, nvar, nrej
vars == <<l, known, nbase, nvar, nrej>>
TInit == l = 1 /\ known = <<>> /\ nbase = 0 /\ nvar = 0 /\ nrej = 0
Ev == Rec[l]
Consume == l <= Len(Rec) /\ l' = l + 1

Set(s) == { s[i] : i \in 1 .. Len(s) }
Distinct(s) == Cardinality(Set(s)) = Len(s)
Bag(s) == [x \in Set(s) |-> Cardinality({ i \in 1 .. Len(s) : s[i] = x })]
\* rows of a variant, columns brought into the base's order
Permuted(bn, vn, rows) ==
  LET idx == [i \in 1 .. Len(bn) |-> CHOOSE j \in 1 .. Len(vn) : vn[j] = bn[i]]
  IN [r \in 1 .. Len(rows) |-> [i \in 1 .. Len(bn) |-> rows[r][idx[i]]]]
SameRelation(b, v) ==
  /\ Len(b.names) = Len(v.names)
  /\ IF Distinct(b.names)
     THEN /\ Set(b.names) = Set(v.names) /\ Distinct(v.names)
          /\ \A d \in 1 .. Len(b.rows) : Bag(b.rows[d]) = Bag(Permuted(b.names, v.names, v.rows[d]))
     ELSE /\ b.names = v.names
          /\ \A d \in 1 .. Len(b.rows) : Bag(b.rows[d]) = Bag(v.rows[d])
Verdict(b, v) ==
  IF b.outcome # "rows" THEN "ok"                         \* the base itself does not run: nothing to preserve
  ELSE IF v.outcome # "rows" THEN "variant-" \o v.outcome
  ELSE IF Len(b.names) # Len(v.names) \/ Bag(b.names) # Bag(v.names) THEN "columns"
  ELSE IF ~SameRelation(b, v) THEN "rows"
  ELSE "ok"
Idx(id) == { k \in 1 .. Len(known) : known[k].id = id }

Base == /\ Consume /\ Ev.ev = "Result" /\ Ev.base = ""
        /\ known' = Append(known, Ev) /\ nbase' = nbase + 1 /\ UNCHANGED <<nvar, nrej>>
Variant ==
  /\ Consume /\ Ev.ev = "Result" /\ Ev.base # "" /\ Idx(Ev.base) # {}
  /\ LET b == known[CHOOSE k \in Idx(Ev.base) : TRUE] v == Verdict(b, Ev) IN
     /\ nvar' = nvar + 1
     /\ nrej' = nrej + (IF v = "ok" THEN 0 ELSE 1)
     /\ (v # "ok" => PrintT(<<"REJECT", Ev.id, Ev.base, v, l>>))
  /\ UNCHANGED <<known, nbase>>
End == Consume /\ Ev.ev = "End" /\ PrintT(<<"COUNTS", nbase, nvar, nrej>>) /\ UNCHANGED <<known, nbase, nvar, nrej>>
TNext == Base \/ Variant \/ End
TraceSpec == TInit /\ [][TNext]_vars
TraceAccepted ==
  LET d == TLCGet("stats").diameter IN
  /\ PrintT(<<"TRACE", d - 1, Len(Rec)>>)
  /\ d - 1 = Len(Rec)
=============================================================================
