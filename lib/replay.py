"""bin/check <id> --replay <file>: re-run the program of a replay file through the same path and
print the verdict of the specification."""
import json, os, sys
from vlib import *
import l1

def main(pid, path):
    v = json.load(open(path))
    if "program" not in v:
        print("replay file has no program record; see its fields for the failing input"); return 2
    dbset = os.path.join(ROOT, v.get("dbset", "corpus/dbs_quick.json"))
    progs = [v["program"]]
    if v.get("reduced"):
        r = dict(v["reduced"]["program"]); r["id"] = "reduced"; progs.append(r)
    res = l1.run_and_validate("replay", progs, dbset, target=v.get("target", "sqlite"))
    for p in progs:
        s = res["side"].get(p["id"], {})
        print("----", p["id"]); print(s.get("src")); print("SQL:", s.get("sql")); print("names:", s.get("names"), "error:", s.get("exec_error") or s.get("error") or s.get("panic"))
    rej = [(a, b) for a, b, _ in res["rejects"]]
    print("rejected by PrqlTrace:", rej)
    if rej:
        print(f"VIOLATION property={pid} replay={path}")
        return 1
    print("accepted"); return 0
