"""Syntax-rich PRQL sources (every PR node kind, optional fields present and absent) and access to
the repository's own queries and book snippets."""
import glob, os, re

SYNTAX = [
    "from t",
    "prql target:sql.postgres version:\"0.13\"\n\nfrom t | take 1",
    "let x = 5\nfrom t | filter a > x",
    "let f = a b:2 -> a + b\nfrom t | derive {y = f a, z = (f b:3 a)}",
    "let f = func a <int> b <int>:1 -> <int> a * b\nfrom t | select {q = (f k)}",
    "let add1 = x -> x + 1\nfrom t | derive {y = (a | add1 | add1)}",
    "module m {\n  let two = 2\n  let twice = x -> x * two\n}\nfrom t | derive {y = m.twice a}",
    "module m {\n  module inner {\n    let c = 3\n  }\n}\nfrom t | derive {y = m.inner.c}",
    "type my_int = int\nfrom t | select a",
    "@{binding_strength=1}\nlet g = x -> x\nfrom t | derive {h = g a}",
    "#! doc comment on the query\nfrom t # trailing comment\n# a full comment line\nselect {a, b} # another",
    "from t\nderive {\n  x = case [\n    a > 1 => \"big\",\n    a == 1 => \"one\",\n    true => \"small\",\n  ]\n}",
    "from t | filter (a | in 1..5) | filter (b | in ..3) | filter (k | in 2..)",
    "from t | derive {d = @2020-01-02, ts = @2020-01-02T03:04:05, tm = @03:04, iv = 2days, w = 3weeks}",
    "from t | derive {s = \"dq\", s2 = 'sq', s3 = \"\"\"triple \"q\" \"\"\", r = r\"raw\\n\", e = \"esc\\t\\n\\\\\\\"\\u{1F600}\"}",
    "from t | derive {f = f\"{a} and {b}!\", s = s\"COALESCE({a}, {b})\"}",
    "from t | derive {n1 = 1_000, n2 = 0x1f, n3 = 0b101, n4 = 0o17, n5 = 1.5, n6 = 1e3, n7 = 2.5e-2, n8 = -3, b1 = true, b2 = false, n = null}",
    "from t | derive {arr = [1, 2, 3], tup = {a, b}}",
    "from t | select {`my col` = a, `select` = b} | sort `my col`",
    "from t | derive {x = a ?? 0, y = a // 2, z = a ** 2, w = a % 2, v = -a, u = !(a > 1), r = a ~= \"x\"}",
    "from t | derive {x = (a + b) * (a - b) / 2, y = a > 1 && b < 2 || k == 3, z = a != b}",
    "from t | sort {-a, +b} | take 2..5",
    "from t | group {a, b} (aggregate {n = count this, s = sum k, m = min k, x = max k, v = average k, sd = stddev k})",
    "from t | window rows:-2..0 (derive {r = sum b}) | window range:-1..1 (sort k | derive {q = average b}) | window expanding:true (derive {c = count b})",
    "from t | join side:left u (t.a == u.a && t.k > u.k) | select {t.k, u.c}",
    "from t | join uu = u (==k) | select {t.a, uu.c}",
    "from t | append u | remove (from u | take 1) | intersect t",
    "from t | select !{a} | derive {x = this.b}",
    "from t | select {t.*}",
    "from x = t | select {x.a}",
    "from t | take 5 | into five\nfrom five | select a",
    "let tab = (from t | take 2)\nfrom tab | derive {y = a}",
    "from [{a = 1, b = \"x\"}, {a = 2, b = \"y\"}] | filter a > $1",
    "from (read_csv \"f.csv\") | take 1",
    "from_text format:json '[{\"a\": 1}]' | derive {b = a}",
    "from t | derive {x = math.round 2 a, y = math.pi, z = (text.upper \"s\"), w = (a | as int)}",
    "from t | loop (filter a < 3 | derive {a = a + 1} | select {k, a, b})",
    "from t | aggregate {n = count this} | derive {v = prql.version}",
    "from t | filter a == null | filter null != b | derive {z = (a == null) == (b == null)}",
    "from t | derive {long_name_number_one = a + b + k + a + b + k + a + b + k + a + b + k + a + b + k + a + b + k + a + b + k + a + b + k}",
    "from t | select {a, b} | filter (a > 1) | derive {c = (sum b)} | sort {c} | take 3 | group {a} (take 1)",
    "from t | derive x = a + 1 | select x",
    "from t\nderive {\n  y = a\n    + b\n}",
    # erroneous sources (same error expected on every path)
    "from t | select {a} | filter zz > 1",
    "from t | take",
    "from t | derive {x = }",
    "from t | join u (==k) | select k",
    "let f = x -> x\nfrom t | derive {y = f 1 2}",
    "from t | filter (a +)",
    "derive {x = 1}",
    "from t | select {a} | append (from u | select {a, c})",
]

def repo_queries():
    return [(os.path.basename(f), open(f).read()) for f in sorted(glob.glob("/repo/prqlc/prqlc/tests/integration/queries/*.prql"))]

def book_snippets(limit=None):
    """```prql blocks of the book (those without no-eval / error markers are expected to compile)"""
    out = []
    for f in sorted(glob.glob("/repo/web/book/src/**/*.md", recursive=True)):
        txt = open(f, errors="replace").read()
        for m in re.finditer(r"```prql([^\n]*)\n(.*?)```", txt, re.S):
            out.append((os.path.relpath(f, "/repo/web/book/src") + ":" + str(txt[:m.start()].count("\n") + 1), m.group(1).strip(), m.group(2)))
    return out[:limit] if limit else out
