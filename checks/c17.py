"""C17: tokens tile the source and re-lex to themselves (spec/Lexer.tla, LexerTrace.tla)."""
import sys, os, json, random, subprocess, time, glob
sys.path.insert(0, os.path.join(os.path.dirname(os.path.abspath(__file__)), "..", "lib"))
from vlib import *
from concurrent.futures import ThreadPoolExecutor

ALPHABET = ["a", "x", "1", "0", "_", ".", ":", "@", " ", "\t", "\n", "\\", "#", "\"", "'", "`", "=", "-", "&", "|", "é", "😀"]
EXTRA = ["l", "e", "t", "s", "f", "r", "{", "}", "(", ")", "$", "/", "*", "!", "?", "~", ">", "<", ",", "T", "Z", "+", "2", "\r"]

def corrupt_selftest(d):
    """binding demonstration: shift one token span / change one re-lexed kind -> must be rejected"""
    ev = read_ndjson(os.path.join(d, "list0.ndjson"))
    k = 0
    for e in ev:
        if e["event"] == "Lex" and len(e["toks"]) >= 3:
            k += 1
            if k == 1: e["toks"][2]["s"] -= 1           # overlap with the previous token
            elif k == 2: e["toks"][1]["rk"] = "Ident(\"zz\")"  # slice does not re-lex to itself
            elif k == 3: e["toks"] = e["toks"][:-1]     # trailing text not covered
            elif k == 4: break
    write_ndjson(os.path.join(d, "bad.ndjson"), ev)
    out, info = tlc("LexerTrace", "LexerTrace.cfg", env={"TRACE": os.path.join(d, "bad.ndjson")}, workers=1, deque=True)
    nrej = len(tuples(out, "REJECT"))
    base = len(tuples(tlc("LexerTrace", "LexerTrace.cfg", env={"TRACE": os.path.join(d, "list0.ndjson")}, workers=1, deque=True)[0], "REJECT"))
    nrej -= base
    if nrej != 3:
        raise ToolError(f"C17 selftest: expected 3 rejections of the corrupted trace, got {nrej}")
    return {"corrupted_events": 3, "rejected": 3}

def check(tier):
    rep = Report("C17", tier)
    d = workdir("C17")
    for f in glob.glob(os.path.join(d, "*.ndjson")):
        os.remove(f)
    build_harness()
    maxlen = 4 if tier == "quick" else 5
    ap = os.path.join(d, "alphabet.json")
    json.dump(ALPHABET, open(ap, "w"))
    n = len(ALPHABET)
    # (1) the declared space, one shard per first character
    def gen(i):
        out = os.path.join(d, f"sh{i}.ndjson")
        r = subprocess.run([PV, "lexrun", ap, str(maxlen), out, str(i)], stdout=subprocess.PIPE, stderr=subprocess.PIPE, text=True)
        if r.returncode != 0:
            raise ToolError("pv lexrun failed: " + r.stderr[-1000:])
        return out
    with ThreadPoolExecutor(max_workers=12) as ex:
        shards = list(ex.map(gen, range(n)))
    # (2) seeded longer strings over a wider alphabet + the repository's own .prql files
    rnd = random.Random(seed())
    wide = ALPHABET + EXTRA
    strs = []
    for _ in range(3000 if tier == "quick" else 60000):
        ln = rnd.randint(5, 40)
        strs.append("".join(rnd.choice(wide) for _ in range(ln)))
    kws = ["let", "into", "case", "prql", "type", "module", "internal", "func", "import", "enum", "true", "false", "null",
           "@2020-01-01", "@12:30", "@2020-01-01T12:00:00Z", "1..2", "a ..b", "0x1f", "0b11", "0o7", "1e3", "1_000", "2days",
           "s\"x{a}\"", "f'{b}'", "r\"\\n\"", "'''a'''", "&&", "||", "??", "//", "**", "~=", "->", "=>", "$1", "#! doc", "# c\n\\ x"]
    for _ in range(2000 if tier == "quick" else 30000):
        parts = [rnd.choice(kws + wide) for _ in range(rnd.randint(2, 8))]
        strs.append(rnd.choice(["", " ", "\n"]).join(parts))
    for f in sorted(glob.glob("/repo/prqlc/prqlc/tests/integration/queries/*.prql")):
        strs.append(open(f).read())
    lists = []
    per = 4000
    for i in range(0, len(strs), per):
        sp = os.path.join(d, f"strs{i//per}.json")
        json.dump(strs[i:i + per], open(sp, "w"))
        out = os.path.join(d, f"list{i//per}.ndjson")
        r = subprocess.run([PV, "lexlist", sp, out], stdout=subprocess.PIPE, stderr=subprocess.PIPE, text=True)
        if r.returncode != 0:
            raise ToolError("pv lexlist failed: " + r.stderr[-1000:])
        lists.append(out)
    # validate everything with TLC
    def validate(path):
        out, info = tlc("LexerTrace", "LexerTrace.cfg", env={"TRACE": path}, workers=1, deque=True, xmx="6g")
        return path, out, info
    total = events = 0
    samples = []
    with ThreadPoolExecutor(max_workers=6) as ex:
        results = list(ex.map(validate, shards + lists))
    states = 0
    for path, out, info in results:
        tr = tuples(out, "TRACE")
        if not info["no_error"] or not tr or tr[0][1] != tr[0][2]:
            open(path + ".tlc.out", "w").write(out)
            raise ToolError(f"LexerTrace did not consume {path}: " + info.get("error_text", out[-800:])[:1200])
        events += tr[0][2]; states += info.get("distinct", 0)
        c = tuples(out, "COUNTS")
        total += c[-1][1] if c else 0
        for r in tuples(out, "REJECT"):
            src = json.loads(r[1]) if r[1].startswith('"') else r[1]
            sig = {"what": r[2], "src": src}
            det = {}
            if len(r) >= 7:
                det = {"fault": r[4], "token": json.loads(r[5]) if r[5] else "", "relexed": json.loads(r[6]) if r[6] else ""}
                sig.update(det)
            rep.violation({"property": "C17", "kind": r[2], "detail": det, "source": src, "trace_file": os.path.relpath(path, ROOT), "line": r[3],
                           "how_to_replay": "bin/check C17 --replay <this file>"}, sig)
    st = corrupt_selftest(d)
    ev0 = read_ndjson(shards[0])
    for e in [ev0[5], ev0[len(ev0) // 2], ev0[-2]]:
        samples.append({"src": e.get("src"), "tokens": [[t["k"], t["s"], t["e"]] for t in e.get("toks", [])], "event": e["event"]})
    cov = {"states": states, "transitions": states, "traces_validated_against_impl": total, "samples": samples, "exhaustive": True,
           "explanation": f"every string of length <= {maxlen} over the {n}-symbol lexical alphabet {ALPHABET!r} ({sum(n**i for i in range(maxlen+1))} strings; TLC checks membership, strict enumeration order and the size of the space) plus {len(strs)} seeded longer strings / keyword mixes / repository queries; each token stream validated by the tiling monitor of Lexer.tla",
           "strings_total": total, "trace_events": events, "selftest": st}
    return rep.finish("model_checking", cov,
                      ["spans are byte offsets into the UTF-8 source (chumsky spans over &str)",
                       "token identity for the re-lex check is the Debug rendering of TokenKind (payload included)",
                       "inline whitespace = space and tab"])
