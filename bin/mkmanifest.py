#!/usr/bin/env python3
"""Regenerates MANIFEST.json from the table below (keeps it valid at all times)."""
import json, os, subprocess
ROOT = os.path.dirname(os.path.dirname(os.path.abspath(__file__)))
ids = [json.loads(l)["id"] for l in open(os.path.join(ROOT, "properties.jsonl"))]
L1NOTE = ("trusted: TLC; the transcription of the PRQL book into spec/Values.tla + spec/Prql.tla (its own invariants and step laws are model-checked on every run); "
          "pv's renderer/recorder (self-tested by field corruption on every run); SQLite as the engine (target sqlite); "
          "REALs compared as rationals within 2^-40; division by zero = NULL; programs the spec gives no meaning to are not judged")
CHECKS = {
 "C01": dict(tech="TLA+ L1 language machine (Prql.tla): TLC bounded-exhaustive program generation (PrqlMC) replayed through prqlc+SQLite, executions trace-validated by TLC (PrqlTrace)",
    text="bounded-exhaustive model checking of the language machine (all pipelines up to the depth over the step alphabet x all database instances) with every behaviour replayed through the real compiler and every recorded execution validated against the specification's set of admissible results; seeded random programs extend beyond the bound",
    ref="DESIGN.md section 4 C01"),
 "C02": dict(tech="TLA+ operator table + minimal/full renderers + precedence-climbing parser (Expr.tla), self-consistency model-checked on the tree-growing machine (ExprMC); renderings replayed through the real parser (ExprTrace) and through prqlc+SQLite with values validated by Eval of Prql.tla (PrqlTrace)",
    text="every (parent operator, child operator, side) adjacency over the binary and unary operators with column, literal and null leaves (TLC checks Parse(Show(t)) = t on the model); for each tree both renderings must parse to that tree in prqlc, and the emitted SQL must evaluate to the tree's value on a value domain with NULL, negatives, zero, ints and rationals; random case / in-range / nested expressions extend beyond the bound",
    ref="DESIGN.md section 4 C02"),
 "C03": dict(tech="TLA+ L1 language machine: possible-worlds order semantics (ties, NULL placement) in Prql.tla; sort/take-biased PrqlMC generation; row SEQUENCES validated by TLC (PrqlTrace)",
    text="as C01, with the observation compared as a sequence: the returned order must be a linearisation the sort in effect admits (tie groups matched as bags), take must keep exactly the positions of some admissible linearisation",
    ref="DESIGN.md section 4 C03"),
 "C04": dict(tech="TLA+ L1 language machine: window-frame semantics (partition, order, rows/range frames, rolling/expanding, lag/lead/first/last/rank*) in Prql.tla; slot-model PrqlMC generation partition x sort x frame x function x placement; executions validated by TLC (PrqlTrace)",
    text="bounded-exhaustive over partition keys x sort keys x frame kinds/bounds x the 12 window-capable functions x placement (derive/select/filter/sort, before/after a split), each replayed through prqlc+SQLite and validated against the specification's per-row window value",
    ref="DESIGN.md section 4 C04"),
 "C05": dict(tech="TLA+ L1 language machine: frame (names, count, order) tracked by Prql.tla incl. the resolver's group ordering rule; prepared-statement column names + RQ columns validated by TLC (PrqlTrace)",
    text="as C01; the verdict is on the result's column names/count/order against the specification's frame and the RQ's declared columns",
    ref="DESIGN.md section 4 C05"),
 "C06": dict(tech="TLA+ rewrite machine over programs (Rewrite.tla: let/into/module naming, function extraction by beta-reduction, filter splitting, identity insertion) whose denotation-preservation is model-checked (RewriteMC); every reachable rewritten program replayed through prqlc+SQLite and validated by TLC (PrqlTrace)",
    text="TLC explores the rewrite graph of each base program (every applicable site and kind, compositions up to the depth) and checks on the model that each rewrite leaves the denotation (frame, possible worlds per database instance, order) unchanged; each rewritten program is then compiled, executed and validated against that denotation, so a disagreement is the implementation's",
    ref="DESIGN.md section 4 C06"),
 "C08": dict(tech="TLA+ model of PRQL string literals (pieces, quote styles, documented escape table), of SQL emission and of ANSI / backslash-escaping SQL lexers (Literal.tla), model-checked over all literals up to a length (LiteralMC); numeric literals as digit sequences (Number.tla); replayed through prqlc for 12 dialects + SQLite and validated by TLC (LiteralTrace, NumberTrace)",
    text="bounded-exhaustive over string literals (every documented escape, quotes, comment markers, newline, non-ASCII / non-BMP, 4 quote styles, raw strings): TLC checks the design-level lexing laws on the model; for each literal the value SQLite returns and the single string token each dialect's tokenizer reads from the emitted SQL must be the specified code points, and the surrounding statement must keep its token shape; numeric spellings are compared on digit sequences (exact for integers up to i64, 15 significant digits for floats)",
    ref="DESIGN.md section 4 C08", cat="model_checking",
    note="trusted: TLC; sqlparser's per-dialect tokenizers as the lexical oracle for the 11 dialects that cannot be executed; SQLite; float fidelity is only required to 15 significant digits (TLC has no floating point)"),
 "C09": dict(tech="TLA+ L1 language machine run over user tables/columns named like generated ones (table_N, _expr_N) with distinguishable contents (Prql.tla, PrqlMC, PrqlTrace); TLA+ identifier model (Ident.tla: which names must be quoted, admissible quote characters) with names enumerated by TLC (IdentMC) and every use validated by TLC (IdentTrace)",
    text="(a) bounded-exhaustive pipelines forcing sub-queries, helper columns and anonymous CTEs over tables table_0/table_1 with columns _expr_0.._expr_2: any capture of a user object by a generated name changes the executed result or the frame; (b) every name up to a length over an alphabet with upper case, blanks, quotes, $, dots, non-ASCII, plus reserved words and niladic functions, used as column, table and alias: the identifier token of the emitted SQL must carry the name verbatim, be quoted where the specification requires (per dialect quote characters), and SQLite must bind it to the object of exactly that name",
    ref="DESIGN.md section 4 C09", note=L1NOTE + "; sqlparser's per-dialect tokenizers as lexical oracle; the reserved-word set is a sample of the SQL standard, not each engine's full list"),
 "C10": dict(tech="TLA+ L1 language machine: scope model (known frames, ambiguity, arity) in Prql.tla; every ill-formed behaviour of PrqlMC replayed; acceptance of an ill-formed program rejected by TLC (PrqlTrace)",
    text="every program the bounded model marks ill-formed (reference to a dropped column, ambiguous bare name after join, arity mismatch) must make prqlc::compile return Err; every well-formed one must compile",
    ref="DESIGN.md section 4 C10"),
 "C12": dict(tech="TLA+ totality monitor (Totality.tla: every entry point returns ok|err; growth per doubling bounded) validating recorded calls (TotalityTrace); the input space is the bounded spaces of the other specifications (Lexer alphabet, token sequences, L1 programs with scope-breaking edits, single-invariant corruptions of RQ/PL documents = negative space of Rq.tla, boundary and growth families)",
    text="bounded-exhaustive and structured exploration: every string up to a length over the lexical alphabet, every token sequence up to a length, every program of the bounded language model incl. ill-formed ones, boundary families (multi-byte text at every byte offset, numbers around 2^31/2^63/2^64 in every numeric position), RQ and PL documents with one invariant broken, and nest/chain families of doubling size, each through tokens, parse, format, JSON round trips, resolve, SQL generation for the dialects, and compile, in child processes so that aborts and hangs are observed",
    ref="DESIGN.md section 4 C12", cat="exploration",
    note="exploration, not proof: totality over arbitrary byte strings is explored on bounded and structured families; coverage-guided fuzzing is a different technique and is not used; polynomial time is approximated by a per-doubling growth bound"),
 "C13": dict(tech="TLA+ source position machine (Spans.tla: character/byte offsets, line/column, span well-formedness, quoted line) with its laws model-checked over all short sources with multi-byte characters (SpansMC, which also enumerates the case space); every ErrorMessage returned for the generated erroneous sources validated by TLC (SpansTrace)",
    text="the case space error template (lexical, syntactic, name resolution, type, argument, SQL generation) x padding (ASCII, 2-, 3-, 4-byte text) x place (comment / string / identifier before, after, earlier lines) x file layout (single file, project root, module file, path-suffix project) is enumerated by TLC and compiled; each message must have a non-empty reason, a span inside the named file, a location equal to the position of that span, a display quoting that line, and some located message must be at the planted offending token",
    ref="DESIGN.md section 4 C13", note="trusted: TLC; pv's recording of ErrorMessages and its reading of the gutter lines of the rendered message; spans are taken to be character offsets as ErrorMessage documents"),
 "C14": dict(tech="TLA+ commuting diagram parse/format/compile (FmtLaw.tla) validated by TLC on recorded API calls (FmtTrace); expression sources are the trees of the model-checked precedence specification (Expr.tla / ExprMC) in minimal and full rendering",
    text="for every parseable source of the generators (every operator adjacency from ExprMC, literal and identifier spellings in several positions, named arguments, functions, modules, long lines, repository queries, book snippets, generated programs): parse(format(parse(src))) is the same tree modulo positions/comments, formatting the output again returns it unchanged, and source and formatted text compile to the same SQL or error",
    ref="DESIGN.md section 4 C14", note="trusted: TLC; pv's tree normalisation (span and doc_comment fields dropped) and artefact interning; self-tested by corrupting recorded ids"),
 "C15": dict(tech="TLA+ commuting-diagram model of the staged API (Stages.tla); all paths source->SQL|error with bounded JSON round trips enumerated by TLC (StagesMC), walked through the real API and validated by TLC (StagesTrace)",
    text="every path of the API graph (parse, json::from_pl/to_pl, pl_to_rq, json::from_rq/to_rq, rq_to_sql, compile; each JSON loop 0..2 times) is walked for every source x configuration; the diagram must commute at every node (value equality of trees, byte equality of JSON and SQL, same error)",
    ref="DESIGN.md section 4 C15", note="trusted: TLC; pv's artefact interning (PartialEq of ModuleDef / RelationalQuery, byte equality of strings); errors compared by code, reason, span, hints"),
 "C16": dict(tech="TLA+ monitor of RQ well-formedness (Rq.tla: definition-before-use, unique ids, visibility, declaration order, from..select shape, arity); walks of the RQs returned by prqlc::pl_to_rq trace-validated by TLC (RqTrace)",
    text="trace validation: for every program of the L1 generators (bounded-exhaustive + slot models + random, declared and open schemas), hand-written nested shapes and the repository's queries that the resolver accepts, the walk of the returned RQ must be a behaviour of the monitor whose enabling conditions are the property's invariants",
    ref="DESIGN.md section 4 C16", note="trusted: TLC; lib/rqwalk.py (projection of the public serde form of RelationalQuery to events; self-tested by breaking each invariant in a recorded walk)"),
 "C17": dict(tech="TLA+ tiling monitor over token streams (Lexer.tla); bounded-exhaustive string space declared to and checked for completeness by TLC (LexerTrace), every lexed string trace-validated",
    text="every string up to the length bound over the 22-symbol lexical alphabet (TLC checks membership, enumeration order and the size of the space, so the exhaustiveness claim is TLC's), plus seeded longer strings; each token stream is validated by the tiling monitor (ordered, non-overlapping, on character boundaries, only inline whitespace between tokens, each slice re-lexes to the same token; rejected sources carry errors and no tokens)",
    ref="DESIGN.md section 4 C17", note="trusted: TLC; pv's recording of spans and of the re-lexed slice (self-tested by corrupting spans on every run); token identity = Debug rendering of TokenKind"),
 "C18": dict(tech="TLA+ decision table Effective(option, header) (Target.tla) model-checked over the full 15x15 matrix (TargetMC); every cell replayed through prqlc::compile and validated against the canonical cell by TLC (TargetTrace)",
    text="exhaustive over the (option, header) matrix (12 dialects + absent + sql.any + unknown on both axes) x a program set: the SQL of each cell must equal the SQL of the canonical cell for the effective dialect, consulted unknown names must be errors, the resolver's verdict must not depend on the cell",
    ref="DESIGN.md section 4 C18", note="trusted: TLC; pv's interning of SQL texts; the option axis is exercised through Target::from_str"),
}
m = {"version": 1, "setup_cmd": "bin/setup",
     "hooks": {"guard": "prql_verif", "enable": "rustflags --cfg prql_verif --check-cfg cfg(prql_verif) in harness/.cargo/config.toml (the harness is a path dependant of /repo/prqlc/prqlc)",
               "baseline_off_cmd": "cd /repo && cargo nextest run --workspace --no-fail-fast --offline --test-threads 8",
               "source_commits": [], "add_only": True},
     "engines": [{"name": "tlc", "path": "spec/", "serves_properties": sorted(CHECKS), "kind_free_text": "TLA+ specifications checked with TLC 1.8 (model checking + trace validation)"},
                 {"name": "pv", "path": "harness/", "serves_properties": sorted(CHECKS), "kind_free_text": "Rust conformance harness linking the prqlc built from /repo (render, compile, execute on SQLite, record ndjson traces)"}],
     "checks": [], "notes": "see DESIGN.md; known genuine defects are listed in known_findings.json",
     "not_applicable": []}
for i in ids:
    if i in CHECKS:
        c = CHECKS[i]
        m["checks"].append({"property_id": i, "quick_cmd": f"bin/check {i} quick", "thorough_cmd": f"bin/check {i} thorough",
                            "evidence_file": f"evidence/{i}.json", "replay_cmd_template": f"bin/check {i} --replay {{path}}",
                            "engine": "tlc", "level_claimed": {"category": c.get("cat", "model_checking"), "text": c["text"], "design_ref": c["ref"]},
                            "level_note": c.get("note", L1NOTE), "technique": c["tech"]})
    else:
        m["not_applicable"].append({"property_id": i, "reason": "check under construction in this round (specification designed in DESIGN.md section 4; not yet bound to the code)"})
json.dump(m, open(os.path.join(ROOT, "MANIFEST.json"), "w"), indent=1)
print("checks:", [c["property_id"] for c in m["checks"]])
